import XcmModel.Tconnect
namespace XcmModel.Tconnect
open XcmModel

def AllFailed (l : List (Nat × Att)) : Prop := ∀ p ∈ l, ∃ e, p.2 = .failed e

/-- errno of the last failed attempt (0 when there is none) -/
def lastErr : List (Nat × Att) → Nat
  | [] => 0
  | [(_, .failed e)] => e
  | [_] => 0
  | _ :: b :: t => lastErr (b :: t)

theorem lastErr_snoc (l : List (Nat × Att)) (i e : Nat) : lastErr (l ++ [(i, .failed e)]) = e := by
  induction l with
  | nil => rfl
  | cons a t ih =>
    cases t with
    | nil => simp [lastErr]
    | cons b t' => simpa [lastErr] using ih

theorem allFailed_snoc {l : List (Nat × Att)} (h : AllFailed l) (i e : Nat) : AllFailed (l ++ [(i, .failed e)]) := by
  intro p hp
  simp at hp
  rcases hp with hp | hp
  · exact h p hp
  · exact ⟨e, by rw [hp]⟩

/-- every address of a family the track can use, with index below `n`, has been attempted -/
def Complete (t : Track) (n : Nat) : Prop :=
  ∀ j, j < n → j < t.addrs.length → supports t (famAt t j) = true → j ∈ t.tried.map (·.1)

/-- attempts were made only on existing addresses of usable families, below `next` -/
def Sound (t : Track) : Prop :=
  ∀ p ∈ t.tried, p.1 < t.next ∧ p.1 < t.addrs.length ∧ supports t (famAt t p.1) = true

theorem findNext_some (t : Track) (fuel i j : Nat) (h : findNext t fuel i = some j) :
    i ≤ j ∧ j < t.addrs.length ∧ supports t (famAt t j) = true
    ∧ ∀ k, i ≤ k → k < j → supports t (famAt t k) = false := by
  induction fuel generalizing i with
  | zero => simp [findNext] at h
  | succ n ih =>
    unfold findNext at h
    cases ha : t.addrs[i]? with
    | none => simp [ha] at h
    | some f =>
      simp only [ha] at h
      have hi : i < t.addrs.length := (List.getElem?_eq_some_iff.mp ha).1
      by_cases hs : supports t f = true
      · simp only [hs, if_true] at h
        cases h
        exact ⟨Nat.le_refl _, hi, by simp [famAt, ha, hs], fun k h1 h2 => by omega⟩
      · simp only [hs, if_false] at h
        obtain ⟨h1, h2, h3, h4⟩ := ih (i + 1) h
        refine ⟨by omega, h2, h3, fun k hk1 hk2 => ?_⟩
        by_cases hki : k = i
        · subst hki; simp [famAt, ha]; simpa using hs
        · exact h4 k (by omega) hk2

theorem findNext_none (t : Track) (fuel i : Nat) (hf : t.addrs.length < i + fuel) (h : findNext t fuel i = none) :
    ∀ k, i ≤ k → k < t.addrs.length → supports t (famAt t k) = false := by
  induction fuel generalizing i with
  | zero => intro k h1 h2; omega
  | succ n ih =>
    unfold findNext at h
    cases ha : t.addrs[i]? with
    | none =>
      intro k h1 h2
      have : t.addrs.length ≤ i := List.getElem?_eq_none_iff.mp ha
      omega
    | some f =>
      simp only [ha] at h
      by_cases hs : supports t f = true
      · simp [hs] at h
      · simp only [hs, if_false] at h
        intro k h1 h2
        by_cases hki : k = i
        · subst hki; simp [famAt, ha]; simpa using hs
        · exact ih (i + 1) (by omega) h k (by omega) h2


/-- pre-state of `track_connect_next`: no attempt is pending -/
structure Quiet (t : Track) : Prop where
  failed : AllFailed t.tried
  sound : Sound t
  complete : Complete t t.next
  badIs : t.bad = lastErr t.tried
  noTimer : t.timer = false
  noReg : t.reg = false

def Shape (t : Track) : Prop :=
  match t.state with
  | .connecting => ∃ init i, t.tried = init ++ [(i, .pending)] ∧ AllFailed init ∧ t.cur = some i ∧ t.timer = true ∧ t.reg = true
      ∧ t.bad = lastErr init
  | .connected => ∃ init i, t.tried = init ++ [(i, .ok)] ∧ AllFailed init ∧ t.cur = some i
  | .finished => ∃ init i, t.tried = init ++ [(i, .ok)] ∧ AllFailed init ∧ t.cur = some i
  | .bad => AllFailed t.tried ∧ t.bad = (if lastErr t.tried = 0 then ENOENT else lastErr t.tried)
      ∧ Complete t t.addrs.length ∧ t.timer = false ∧ t.reg = false
  | .initialDelay => t.tried = [] ∧ t.timer = true ∧ t.next = 0 ∧ t.bad = 0 ∧ t.reg = false

/-- what holds of every reachable track -/
structure Good (t : Track) : Prop where
  sound : Sound t
  complete : Complete t t.next
  shape : Shape t

/-- fields that no operation changes -/
def Same (a b : Track) : Prop := a.addrs = b.addrs ∧ a.fd4 = b.fd4 ∧ a.fd6 = b.fd6

theorem Same.refl (a : Track) : Same a a := ⟨rfl, rfl, rfl⟩
theorem Same.trans {a b c : Track} (h1 : Same a b) (h2 : Same b c) : Same a c :=
  ⟨h1.1.trans h2.1, h1.2.1.trans h2.2.1, h1.2.2.trans h2.2.2⟩

theorem supports_same {a b : Track} (h : Same a b) (f : Fam) : supports a f = supports b f := by
  cases f <;> simp [supports, h.2.1, h.2.2]

theorem famAt_same {a b : Track} (h : Same a b) (i : Nat) : famAt a i = famAt b i := by simp [famAt, h.1]

theorem abort_fields (t : Track) (f : Fam) (tr : List String) :
    (abortConnect t f tr).1 = { t with reg := false, timer := false } := rfl

theorem mem_map_fst_snoc (l : List (Nat × Att)) (i : Nat) (a : Att) (j : Nat) :
    j ∈ (l ++ [(i, a)]).map (·.1) ↔ j ∈ l.map (·.1) ∨ j = i := by simp

theorem bindOnce_spec (t1 : Track) (f : Fam) :
    Same (bindOnce t1 f).1 t1 ∧ (bindOnce t1 f).1.tried = t1.tried ∧ (bindOnce t1 f).1.next = t1.next
    ∧ (bindOnce t1 f).1.cur = t1.cur ∧ (bindOnce t1 f).1.state = t1.state ∧ (bindOnce t1 f).1.bad = t1.bad
    ∧ (bindOnce t1 f).1.timer = t1.timer := by
  cases f
  · by_cases hb : (t1.hasLocal && !t1.bound4) = true <;> simp [bindOnce, hb, Same]
  · by_cases hb : (t1.hasLocal && !t1.bound6) = true <;> simp [bindOnce, hb, Same]

theorem connectStep_spec (t t2 : Track) (did : Bool) (f : Fam) (i : Nat) (s1 : List Tok) (tr1 : List String)
    (hq : Quiet t) (hs : t.state = .connecting)
    (hsame2 : Same t2 t) (htr2 : t2.tried = t.tried) (hnx2 : t2.next = i + 1) (hcur2 : t2.cur = some i)
    (hst2 : t2.state = t.state) (hbad2 : t2.bad = t.bad)
    (hcomp : ∀ (a : Att) (t' : Track), Same t' t → t'.tried = t.tried ++ [(i, a)] → t'.next = i + 1 → Complete t' t'.next)
    (hsound : ∀ (a : Att) (t' : Track), Same t' t → t'.tried = t.tried ++ [(i, a)] → t'.next = i + 1 → Sound t') :
    match connectStep t2 did f i s1 tr1 with
    | .done t' _ _ => Good t' ∧ Same t' t ∧ (t'.state = .connecting ∨ t'.state = .connected) ∧ t'.next = i + 1
    | .next t' _ _ => Quiet t' ∧ Same t' t ∧ t'.state = .connecting ∧ t'.next = i + 1 := by
  unfold connectStep
  simp only []
  cases hc : (pop s1).1 with
  | ok =>
    simp only []
    have hsame : Same { t2 with reg := true, state := .connected, tried := t2.tried ++ [(i, .ok)] } t := hsame2
    refine ⟨⟨hsound .ok _ hsame (by simp [htr2]) hnx2, hcomp .ok _ hsame (by simp [htr2]) hnx2, ?_⟩, hsame, Or.inr (by simp), hnx2⟩
    simp only [Shape]
    exact ⟨t.tried, i, by simp [htr2], hq.failed, hcur2⟩
  | err e =>
    simp only [abort_fields]
    have hsame : Same { t2 with reg := false, bad := e, tried := t2.tried ++ [(i, .failed e)], timer := false } t := hsame2
    exact ⟨{ failed := by simpa [htr2] using allFailed_snoc hq.failed i e,
             sound := hsound (.failed e) _ hsame (by simp [htr2]) hnx2,
             complete := hcomp (.failed e) _ hsame (by simp [htr2]) hnx2,
             badIs := by simp [htr2, lastErr_snoc], noTimer := rfl, noReg := rfl }, hsame, by simp [hst2, hs], hnx2⟩
  | ip =>
    simp only []
    have hsame : Same { t2 with reg := true, timer := true, tried := t2.tried ++ [(i, .pending)] } t := hsame2
    refine ⟨⟨hsound .pending _ hsame (by simp [htr2]) hnx2, hcomp .pending _ hsame (by simp [htr2]) hnx2, ?_⟩, hsame,
      Or.inl (by simp [hst2, hs]), hnx2⟩
    simp only [Shape, hst2, hs]
    exact ⟨t.tried, i, by simp [htr2], hq.failed, hcur2, by simp, by simp, by simp [hbad2, hq.badIs]⟩
  | x =>
    simp only []
    have hsame : Same { t2 with reg := true, timer := true, tried := t2.tried ++ [(i, .pending)] } t := hsame2
    refine ⟨⟨hsound .pending _ hsame (by simp [htr2]) hnx2, hcomp .pending _ hsame (by simp [htr2]) hnx2, ?_⟩, hsame,
      Or.inl (by simp [hst2, hs]), hnx2⟩
    simp only [Shape, hst2, hs]
    exact ⟨t.tried, i, by simp [htr2], hq.failed, hcur2, by simp, by simp, by simp [hbad2, hq.badIs]⟩

theorem tryConnect_spec (t t1 : Track) (i : Nat) (s1 : List Tok) (tr1 : List String)
    (hq : Quiet t) (hs : t.state = .connecting)
    (h1 : Same t1 t ∧ t1.tried = t.tried ∧ t1.next = i + 1 ∧ t1.cur = some i ∧ t1.state = t.state ∧ t1.bad = t.bad
      ∧ t1.timer = t.timer)
    (hcomp : ∀ (a : Att) (t' : Track), Same t' t → t'.tried = t.tried ++ [(i, a)] → t'.next = i + 1 → Complete t' t'.next)
    (hsound : ∀ (a : Att) (t' : Track), Same t' t → t'.tried = t.tried ++ [(i, a)] → t'.next = i + 1 → Sound t') :
    match tryConnect t1 i s1 tr1 with
    | .done t' _ _ => Good t' ∧ Same t' t ∧ (t'.state = .connecting ∨ t'.state = .connected) ∧ t'.next = i + 1
    | .next t' _ _ => Quiet t' ∧ Same t' t ∧ t'.state = .connecting ∧ t'.next = i + 1 := by
  unfold tryConnect
  obtain ⟨hsame1, htr1, hnx1, hcur1, hst1, hbad1, _⟩ := h1
  obtain ⟨hsame2', htr2', hnx2', hcur2', hst2', hbad2', _⟩ := bindOnce_spec t1 (famAt t1 i)
  exact connectStep_spec t _ _ _ i s1 tr1 hq hs (Same.trans hsame2' hsame1) (htr2'.trans htr1) (hnx2'.trans hnx1)
    (hcur2'.trans hcur1) (hst2'.trans hst1) (hbad2'.trans hbad1) hcomp hsound

/-- one candidate: either the track is settled in a good shape, or it is quiet again with the
candidate recorded as failed -/
theorem attempt_spec (t : Track) (i : Nat) (s : List Tok) (tr : List String)
    (hq : Quiet t) (hs : t.state = .connecting)
    (hi1 : t.next ≤ i) (hi2 : i < t.addrs.length) (hi3 : supports t (famAt t i) = true)
    (hi4 : ∀ k, t.next ≤ k → k < i → supports t (famAt t k) = false) :
    match attempt t i s tr with
    | .done t' _ _ => Good t' ∧ Same t' t ∧ (t'.state = .connecting ∨ t'.state = .connected) ∧ t'.next = i + 1
    | .next t' _ _ => Quiet t' ∧ Same t' t ∧ t'.state = .connecting ∧ t'.next = i + 1 := by
  -- completeness / soundness once (i, _) is recorded
  have hcomp : ∀ (a : Att) (t' : Track), Same t' t → t'.tried = t.tried ++ [(i, a)] →
      t'.next = i + 1 → Complete t' t'.next := by
    intro a t' hsame htr hnx j hj1 hj2 hj3
    rw [htr, mem_map_fst_snoc]
    rw [hnx] at hj1
    rw [supports_same hsame, famAt_same hsame] at hj3
    rcases Nat.lt_or_ge j t.next with hlt | hge
    · left; exact hq.complete j hlt (by rw [← hsame.1]; exact hj2) hj3
    · rcases Nat.lt_or_ge j i with hlt2 | hge2
      · have := hi4 j hge hlt2; simp [this] at hj3
      · right; omega
  have hsound : ∀ (a : Att) (t' : Track), Same t' t → t'.tried = t.tried ++ [(i, a)] → t'.next = i + 1 → Sound t' := by
    intro a t' hsame htr hnx p hp
    rw [htr] at hp
    simp at hp
    rw [hnx, hsame.1, supports_same hsame, famAt_same hsame]
    rcases hp with hp | hp
    · have := hq.sound p hp; exact ⟨by omega, this.2.1, this.2.2⟩
    · subst hp; exact ⟨by omega, hi2, hi3⟩
  unfold attempt
  cases ha : (pop s).1 with
  | err e =>
    simp only [ha]
    have hsame : Same { t with next := i + 1, cur := some i, bad := e, tried := t.tried ++ [(i, .failed e)] } t := ⟨rfl, rfl, rfl⟩
    exact ⟨{ failed := allFailed_snoc hq.failed i e, sound := hsound _ _ hsame rfl rfl, complete := hcomp _ _ hsame rfl rfl,
             badIs := by simp [lastErr_snoc], noTimer := hq.noTimer, noReg := hq.noReg }, hsame, hs, by simp⟩
  | ok => simp only [ha]; exact tryConnect_spec t _ i (pop s).2 _ hq hs ⟨⟨rfl, rfl, rfl⟩, rfl, rfl, rfl, rfl, rfl, rfl⟩ hcomp hsound
  | ip => simp only [ha]; exact tryConnect_spec t _ i (pop s).2 _ hq hs ⟨⟨rfl, rfl, rfl⟩, rfl, rfl, rfl, rfl, rfl, rfl⟩ hcomp hsound
  | x => simp only [ha]; exact tryConnect_spec t _ i (pop s).2 _ hq hs ⟨⟨rfl, rfl, rfl⟩, rfl, rfl, rfl, rfl, rfl, rfl⟩ hcomp hsound

theorem connectNext_good (fuel : Nat) (t : Track) (s : List Tok) (tr : List String)
    (hq : Quiet t) (hs : t.state = .connecting) (hf : t.addrs.length < t.next + fuel + 1) :
    Good (connectNext fuel t s tr).1 ∧ Same (connectNext fuel t s tr).1 t
    ∧ (connectNext fuel t s tr).1.state ≠ .initialDelay ∧ (connectNext fuel t s tr).1.state ≠ .finished := by
  induction fuel generalizing t s tr with
  | zero =>
    simp only [connectNext]
    have hn : t.addrs.length ≤ t.next := by omega
    refine ⟨⟨hq.sound, hq.complete, ?_⟩, ⟨rfl, rfl, rfl⟩, by simp, by simp⟩
    simp only [Shape]
    refine ⟨hq.failed, by simp [hq.badIs], ?_, hq.noTimer, hq.noReg⟩
    intro j h1 h2 h3
    exact hq.complete j (by omega) h2 h3
  | succ n ih =>
    unfold connectNext
    split
    · rename_i hfn
      have hnone := findNext_none t (t.addrs.length + 1) t.next (by omega) hfn
      refine ⟨⟨hq.sound, hq.complete, ?_⟩, ⟨rfl, rfl, rfl⟩, by simp, by simp⟩
      simp only [Shape]
      refine ⟨hq.failed, by simp [hq.badIs], ?_, hq.noTimer, hq.noReg⟩
      intro j h1 h2 h3
      rcases Nat.lt_or_ge j t.next with hlt | hge
      · exact hq.complete j hlt h2 h3
      · have := hnone j hge h2
        have h3' : supports t (famAt t j) = true := h3
        rw [this] at h3'
        cases h3'
    · rename_i i hfn
      obtain ⟨hi1, hi2, hi3, hi4⟩ := findNext_some t _ _ _ hfn
      have hsp := attempt_spec t i s tr hq hs hi1 hi2 hi3 hi4
      split
      · rename_i t' s' tr' hat
        rw [hat] at hsp
        simp only [] at hsp
        obtain ⟨hg, hsame, hst, _⟩ := hsp
        refine ⟨hg, hsame, ?_, ?_⟩ <;> rcases hst with h | h <;> simp [h]
      · rename_i t' s' tr' hat
        rw [hat] at hsp
        simp only [] at hsp
        obtain ⟨hq', hsame, hst, hnx⟩ := hsp
        have := ih t' s' tr' hq' hst (by rw [hsame.1, hnx]; omega)
        exact ⟨this.1, Same.trans this.2.1 hsame, this.2.2⟩


theorem setLast_snoc (l : List (Nat × Att)) (i : Nat) (a b : Att) : setLast (l ++ [(i, a)]) b = l ++ [(i, b)] := by
  simp [setLast]

theorem sound_of_fst {t t' : Track} (hs : Same t' t) (hn : t'.next = t.next)
    (hm : t'.tried.map (·.1) = t.tried.map (·.1)) (h : Sound t) : Sound t' := by
  intro p hp
  have : p.1 ∈ t.tried.map (·.1) := by rw [← hm]; exact List.mem_map_of_mem hp
  obtain ⟨q, hq, hqp⟩ := List.mem_map.mp this
  have := h q hq
  rw [hn, hs.1, supports_same hs, famAt_same hs, ← hqp]
  exact this

theorem complete_of_fst {t t' : Track} (hs : Same t' t) (hn : t'.next = t.next)
    (hm : t'.tried.map (·.1) = t.tried.map (·.1)) (h : Complete t t.next) : Complete t' t'.next := by
  intro j h1 h2 h3
  rw [hm]
  rw [hn] at h1
  rw [hs.1] at h2
  rw [supports_same hs, famAt_same hs] at h3
  exact h j h1 h2 h3

/-- the start of a track -/
theorem trackCreate_good (addrs : List Fam) (fd4 fd6 hl delay : Bool) (s : List Tok) (tr : List String) :
    Good (trackCreate addrs fd4 fd6 hl delay s tr).1 ∧ (trackCreate addrs fd4 fd6 hl delay s tr).1.addrs = addrs
    ∧ (trackCreate addrs fd4 fd6 hl delay s tr).1.fd4 = fd4 ∧ (trackCreate addrs fd4 fd6 hl delay s tr).1.fd6 = fd6
    ∧ (trackCreate addrs fd4 fd6 hl delay s tr).1.state ≠ .finished := by
  unfold trackCreate
  cases delay with
  | true =>
    simp only [if_true]
    refine ⟨⟨?_, ?_, ?_⟩, by simp, by simp, by simp, by simp⟩
    · intro p hp; simp at hp
    · intro j h1; simp at h1
    · simp [Shape]
  | false =>
    simp only [Bool.false_eq_true, if_false]
    have hq : Quiet ({ addrs := addrs, fd4 := fd4, fd6 := fd6, hasLocal := hl } : Track) :=
      { failed := by intro p hp; simp at hp, sound := by intro p hp; simp at hp,
        complete := by intro j h1; simp at h1, badIs := rfl, noTimer := rfl, noReg := rfl }
    have := connectNext_good (addrs.length + 1) _ s tr hq rfl (by simp <;> omega)
    exact ⟨this.1, this.2.1.1, this.2.1.2.1, this.2.1.2.2, this.2.2.2⟩

theorem procDelay_good (t : Track) (s : List Tok) (tr : List String) (hg : Good t) (hnf : t.state ≠ .finished) :
    Good (procDelay t s tr).1 ∧ Same (procDelay t s tr).1 t ∧ (procDelay t s tr).1.state ≠ .finished := by
  unfold procDelay
  by_cases hs : t.state = .initialDelay
  · simp only [hs, if_true]
    by_cases hx : (pop s).1 = .x
    · simp only [hx, if_true]
      have hsh := hg.shape
      simp only [Shape, hs] at hsh
      obtain ⟨htr, _, hnx, hbad, hreg⟩ := hsh
      have hq : Quiet { t with state := .connecting, timer := false } :=
        { failed := by intro p hp; simp [htr] at hp, sound := by intro p hp; simp [htr] at hp,
          complete := by intro j h1; simp [hnx] at h1, badIs := by simp [htr, hbad, lastErr], noTimer := rfl, noReg := hreg }
      have := connectNext_good (t.addrs.length + 1) _ (pop s).2 (tr ++ ["T?x", "Tack"]) hq rfl (by simp <;> omega)
      exact ⟨this.1, this.2.1, this.2.2.2⟩
    · simp only [hx, if_false]
      exact ⟨hg, Same.refl _, hnf⟩
  · simp only [hs, if_false]
    exact ⟨hg, Same.refl _, hnf⟩

theorem procConnecting_good (t : Track) (s : List Tok) (tr : List String) (hg : Good t) (hnf : t.state ≠ .finished) :
    Good (procConnecting t s tr).1 ∧ Same (procConnecting t s tr).1 t ∧ (procConnecting t s tr).1.state ≠ .finished := by
  unfold procConnecting
  by_cases hs : t.state = .connecting
  · rw [if_pos hs]
    have hsh := hg.shape
    simp only [Shape, hs] at hsh
    obtain ⟨init, i, htr, hfail, hcur, htm, hreg, hbad⟩ := hsh
    have hmap : ∀ a : Att, (init ++ [(i, a)]).map (·.1) = t.tried.map (·.1) := by intro a; simp [htr]
    -- the attempt on i fails with errno e: the track is quiet again
    have hquiet : ∀ e : Nat, Quiet { t with bad := e, tried := setLast t.tried (.failed e), reg := false, timer := false } := by
      intro e
      have hsl : setLast t.tried (.failed e) = init ++ [(i, .failed e)] := by rw [htr, setLast_snoc]
      exact { failed := by simpa [hsl] using allFailed_snoc hfail i e
              sound := sound_of_fst (t := t) ⟨rfl, rfl, rfl⟩ rfl (by simp [hsl, hmap]) hg.sound
              complete := complete_of_fst (t := t) ⟨rfl, rfl, rfl⟩ rfl (by simp [hsl, hmap]) hg.complete
              badIs := by simp [hsl, lastErr_snoc], noTimer := rfl, noReg := rfl }
    have hquiet' : ∀ (e : Nat) (X : Track) (f : Fam) (tr0 : List String),
        X = { t with bad := e, tried := setLast t.tried (.failed e) } ∨
        X = { t with bad := e, timer := false, tried := setLast t.tried (.failed e) } →
        Quiet (abortConnect X f tr0).1 ∧ (abortConnect X f tr0).1.state = .connecting ∧ Same (abortConnect X f tr0).1 t
        ∧ (abortConnect X f tr0).1.next = t.next := by
      intro e X f tr0 hX
      rw [abort_fields]
      rcases hX with hX | hX <;> subst hX <;> exact ⟨hquiet e, hs, ⟨rfl, rfl, rfl⟩, rfl⟩
    by_cases hx : (pop s).1 = .x
    · simp only [hx, if_true]
      obtain ⟨hq1, hs1, hsame1, hn1⟩ := hquiet' ETIMEDOUT _ (curFam t) (tr ++ ["T?x", "Tack"]) (Or.inr rfl)
      have h2 := connectNext_good (t.addrs.length + 1) _ (pop s).2
        (abortConnect { t with bad := ETIMEDOUT, timer := false, tried := setLast t.tried (.failed ETIMEDOUT) } (curFam t)
          (tr ++ ["T?x", "Tack"])).2 hq1 hs1 (by rw [hsame1.1, hn1]; omega)
      exact ⟨h2.1, Same.trans h2.2.1 hsame1, h2.2.2.2⟩
    · simp only [hx, if_false]
      cases hgk : (pop (pop s).2).1 with
      | ok =>
        simp only []
        have hsl : setLast t.tried .ok = init ++ [(i, .ok)] := by rw [htr, setLast_snoc]
        refine ⟨⟨sound_of_fst (t := t) ⟨rfl, rfl, rfl⟩ rfl (by simp [hsl, hmap]) hg.sound,
          complete_of_fst (t := t) ⟨rfl, rfl, rfl⟩ rfl (by simp [hsl, hmap]) hg.complete, ?_⟩, ⟨rfl, rfl, rfl⟩, by simp⟩
        simp only [Shape]
        exact ⟨init, i, hsl, hfail, hcur⟩
      | err e =>
        simp only []
        obtain ⟨hq1, hs1, hsame1, hn1⟩ := hquiet' e _ (curFam t) (tr ++ ["T?"] ++ [s!"G({famStr (curFam t)})={errStr e}"]) (Or.inl rfl)
        have h2 := connectNext_good (t.addrs.length + 1) _ (pop (pop s).2).2
          (abortConnect { t with bad := e, tried := setLast t.tried (.failed e) } (curFam t)
            (tr ++ ["T?"] ++ [s!"G({famStr (curFam t)})={errStr e}"])).2 hq1 hs1 (by rw [hsame1.1, hn1]; omega)
        exact ⟨h2.1, Same.trans h2.2.1 hsame1, h2.2.2.2⟩
      | ip => simp only []; exact ⟨hg, Same.refl _, hnf⟩
      | x => simp only []; exact ⟨hg, Same.refl _, hnf⟩
  · simp only [hs, if_false]
    exact ⟨hg, Same.refl _, hnf⟩

theorem process_good (t : Track) (s : List Tok) (tr : List String) (hg : Good t) (hnf : t.state ≠ .finished) :
    Good (process t s tr).1 ∧ Same (process t s tr).1 t ∧ (process t s tr).1.state ≠ .finished := by
  unfold process
  have h1 := procDelay_good t s tr hg hnf
  have h2 := procConnecting_good (procDelay t s tr).1 (procDelay t s tr).2.1 (procDelay t s tr).2.2 h1.1 h1.2.2
  exact ⟨h2.1, Same.trans h2.2.1 h1.2.1, h2.2.2⟩

/-- `track_get_connected_fd` keeps every track good (a finished track is never polled again by btcp;
the model leaves it untouched and reports the assertion) -/
theorem trackGetFd_good (t : Track) (s : List Tok) (tr : List String) (hg : Good t) :
    Good (trackGetFd t s tr).1 ∧ Same (trackGetFd t s tr).1 t := by
  by_cases hnf : t.state = .finished
  · have hp : process t s tr = (t, s, tr) := by
      simp [process, procDelay, procConnecting, hnf]
    simp only [trackGetFd, hp, hnf]
    exact ⟨hg, Same.refl _⟩
  · have h := process_good t s tr hg hnf
    unfold trackGetFd
    simp only []
    cases hst : (process t s tr).1.state with
    | connecting => simp only []; exact ⟨h.1, h.2.1⟩
    | initialDelay => simp only []; exact ⟨h.1, h.2.1⟩
    | bad => simp only []; exact ⟨h.1, h.2.1⟩
    | finished => exact absurd hst h.2.2
    | connected =>
      simp only []
      have hsh := h.1.shape
      simp only [Shape, hst] at hsh
      refine ⟨⟨sound_of_fst (t := (process t s tr).1) ⟨rfl, rfl, rfl⟩ rfl rfl h.1.sound,
        complete_of_fst (t := (process t s tr).1) ⟨rfl, rfl, rfl⟩ rfl rfl h.1.complete, ?_⟩, h.2.1⟩
      simp only [Shape]
      exact hsh

end XcmModel.Tconnect
