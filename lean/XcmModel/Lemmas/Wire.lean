import XcmModel.Wire
/-! Lemmas about the wire format: header round trip and unique decodability. -/
namespace XcmModel.Wire
open XcmModel

@[simp] theorem be32_length (n : Nat) : (be32 n).length = 4 := rfl

theorem toNat_ofNat_mod (n : Nat) : (UInt8.ofNat (n % 256)).toNat = n % 256 := by
  simp [Nat.mod_eq_of_lt (Nat.mod_lt n (by decide : 256 > 0))]

theorem rd32_be32_append (n : Nat) (h : n < 2 ^ 32) (r : Bytes) : rd32 (be32 n ++ r) = n := by
  simp only [be32, rd32, List.cons_append, List.nil_append, toNat_ofNat_mod]
  omega

theorem rd32_append_of_length {a : Bytes} (h : 4 ≤ a.length) (r : Bytes) : rd32 (a ++ r) = rd32 a := by
  match a, h with
  | a0 :: a1 :: a2 :: a3 :: t, _ => simp [rd32]

@[simp] theorem frame_length (m : Bytes) : (frame m).length = 4 + m.length := by
  simp [frame]

theorem rd32_frame_append (m : Bytes) (h : m.length < 2 ^ 32) (r : Bytes) :
    rd32 (frame m ++ r) = m.length := by
  simp only [frame, List.append_assoc]; exact rd32_be32_append _ h _

theorem ofNat_toNat (a : UInt8) : UInt8.ofNat a.toNat = a := by simp

/-- four bytes are the big-endian encoding of the number they denote -/
theorem be32_rd32 (a b c d : UInt8) (t : Bytes) : be32 (rd32 (a :: b :: c :: d :: t)) = [a, b, c, d] := by
  have ha := a.toNat_lt; have hb := b.toNat_lt; have hc := c.toNat_lt; have hd := d.toNat_lt
  simp only [rd32, be32]
  have e1 : (a.toNat * 16777216 + b.toNat * 65536 + c.toNat * 256 + d.toNat) / 16777216 % 256 = a.toNat := by omega
  have e2 : (a.toNat * 16777216 + b.toNat * 65536 + c.toNat * 256 + d.toNat) / 65536 % 256 = b.toNat := by omega
  have e3 : (a.toNat * 16777216 + b.toNat * 65536 + c.toNat * 256 + d.toNat) / 256 % 256 = c.toNat := by omega
  have e4 : (a.toNat * 16777216 + b.toNat * 65536 + c.toNat * 256 + d.toNat) % 256 = d.toNat := by omega
  rw [e1, e2, e3, e4]
  simp

/-- a buffer that holds a header and exactly the announced number of payload bytes *is* the
frame of its payload -/
theorem eq_frame_of_complete (r : Bytes) (h4 : 4 ≤ r.length) (hl : r.length = 4 + rd32 r) :
    r = frame (r.drop 4) := by
  match r, h4 with
  | a :: b :: c :: d :: t, _ =>
    simp only [frame, List.drop_succ_cons, List.drop_zero]
    have : t.length = rd32 (a :: b :: c :: d :: t) := by
      simp only [List.length_cons] at hl; omega
    rw [this, be32_rd32]
    rfl

theorem frames_nil : frames [] = [] := rfl

theorem frames_cons (m : Bytes) (ms : List Bytes) : frames (m :: ms) = frame m ++ frames ms := by
  simp [frames]

theorem frames_append (xs ys : List Bytes) : frames (xs ++ ys) = frames xs ++ frames ys := by
  simp [frames]

theorem valid_lt {m : Bytes} (h : Valid m) : m.length < 2 ^ 32 := by
  have := h.2; simp only [Generated.MBUF_MSG_MAX] at this; omega

/-- **unique decodability**: if the frames of `ds` followed by anything equal the frames of
`as` followed by anything, and one byte string is at least as long ..., then one message list is a
prefix of the other.  The form used: `frames ds ++ r = frames as ++ r'` with every message of
bounded length implies `ds <+: as` or `as <+: ds`; here the directed version. -/
theorem frames_prefix (ds as : List Bytes) (r : Bytes)
    (hd : ∀ d ∈ ds, d.length < 2 ^ 32) (ha : ∀ a ∈ as, a.length < 2 ^ 32)
    (h : frames ds ++ r = frames as) : ds <+: as := by
  induction ds generalizing as with
  | nil => exact List.nil_prefix
  | cons d ds ih =>
    cases as with
    | nil =>
      simp only [frames_cons, frames_nil, List.append_assoc] at h
      have := congrArg List.length h
      simp at this
    | cons a as =>
      simp only [frames_cons, List.append_assoc] at h
      have hdl := hd d (by simp)
      have hal := ha a (by simp)
      have e1 : rd32 (frame d ++ (frames ds ++ r)) = d.length := rd32_frame_append d hdl _
      have e2 : rd32 (frame a ++ frames as) = a.length := rd32_frame_append a hal _
      rw [h] at e1
      have hlen : d.length = a.length := by rw [← e1, e2]
      -- split off the equally long first frames
      have hfl : (frame d).length = (frame a).length := by simp [hlen]
      have := List.append_inj h hfl
      obtain ⟨hf, hrest⟩ := this
      have hda : d = a := by
        simp only [frame, hlen] at hf
        exact List.append_cancel_left hf
      subst hda
      have := ih as (fun x hx => hd x (List.mem_cons_of_mem _ hx))
        (fun x hx => ha x (List.mem_cons_of_mem _ hx)) hrest
      exact (List.prefix_cons_inj d).mpr this

end XcmModel.Wire
