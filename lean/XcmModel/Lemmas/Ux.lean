import XcmModel.Ux
/-
  Invariant of the ux/uxf link model: everything the theorems of C01/C03/C17 say about the
  seqpacket transports follows from `Inv` being preserved by every step.
-/
namespace XcmModel.Ux
open XcmModel

def sumLen (l : List Bytes) : Nat := (l.map List.length).sum

@[simp] theorem sumLen_nil : sumLen [] = 0 := rfl
@[simp] theorem sumLen_append (a b : List Bytes) : sumLen (a ++ b) = sumLen a + sumLen b := by
  simp [sumLen]
@[simp] theorem sumLen_singleton (m : Bytes) : sumLen [m] = m.length := by simp [sumLen]

structure Inv (l : Link) : Prop where
  acc : l.accepted = l.fulls ++ l.chan
  ret : l.returned = List.zipWith (fun m c => m.take c) l.fulls l.caps
  len : l.fulls.length = l.caps.length
  valid : ∀ m ∈ l.accepted, 1 ≤ m.length ∧ m.length ≤ Generated.UX_MAX_MSG
  aFromM : l.a.cnt.fromAppM = l.accepted.length
  aFromB : l.a.cnt.fromAppB = sumLen l.accepted
  aToM : l.a.cnt.toLowerM = l.accepted.length
  aToB : l.a.cnt.toLowerB = sumLen l.accepted
  aRx : l.a.cnt.toAppM = 0 ∧ l.a.cnt.toAppB = 0 ∧ l.a.cnt.fromLowerM = 0 ∧ l.a.cnt.fromLowerB = 0
  bFromM : l.b.cnt.fromLowerM = l.fulls.length
  bFromB : l.b.cnt.fromLowerB = sumLen l.fulls
  bToM : l.b.cnt.toAppM = l.fulls.length
  bToB : l.b.cnt.toAppB = sumLen l.returned
  bTx : l.b.cnt.fromAppM = 0 ∧ l.b.cnt.fromAppB = 0 ∧ l.b.cnt.toLowerM = 0 ∧ l.b.cnt.toLowerB = 0

theorem inv_init : Inv ({} : Link) := by
  constructor <;> simp

theorem zipWith_snoc {α β γ} (f : α → β → γ) (as : List α) (bs : List β) (a : α) (b : β)
    (h : as.length = bs.length) :
    List.zipWith f (as ++ [a]) (bs ++ [b]) = List.zipWith f as bs ++ [f a b] := by
  induction as generalizing bs with
  | nil => cases bs with
    | nil => rfl
    | cons _ _ => simp at h
  | cons x xs ih => cases bs with
    | nil => simp at h
    | cons y ys => simp at h; simp [ih ys h]

def aAfterSend (a : St) (m : Bytes) : St :=
  { a with cnt := { a.cnt with fromAppB := a.cnt.fromAppB + m.length, fromAppM := a.cnt.fromAppM + 1,
                               toLowerB := a.cnt.toLowerB + m.length, toLowerM := a.cnt.toLowerM + 1 } }

def bAfterRecv (b : St) (m : Bytes) (cap : Nat) : St :=
  { b with cnt := { b.cnt with fromLowerB := b.cnt.fromLowerB + m.length, fromLowerM := b.cnt.fromLowerM + 1,
                               toAppB := b.cnt.toAppB + min m.length cap, toAppM := b.cnt.toAppM + 1 } }

theorem step_send_refused (l : Link) (m : Bytes) (ke : Option Nat)
    (h : m.length > Generated.UX_MAX_MSG ∨ m.length = 0 ∨ ke ≠ none) : l.step (.send m ke) = l := by
  unfold Link.step send
  by_cases h1 : m.length > Generated.UX_MAX_MSG
  · simp [h1]
  · by_cases h2 : m.length = 0
    · simp [h2]
    · cases ke with
      | none => simp [h1, h2] at h
      | some e => simp [h1, h2]

theorem step_send_ok (l : Link) (m : Bytes) (h1 : ¬ m.length > Generated.UX_MAX_MSG) (h2 : m.length ≠ 0) :
    l.step (.send m none) =
      { l with a := aAfterSend l.a m, chan := l.chan ++ [m], accepted := l.accepted ++ [m] } := by
  unfold Link.step send aAfterSend
  simp [h1, h2]

theorem step_recv_nothing (l : Link) (cap : Nat) (ag : Option Nat) (h : ag ≠ none ∨ l.chan = []) :
    l.step (.recv cap ag) = l := by
  unfold Link.step
  cases ag with
  | some e => simp [receive]
  | none =>
    have hc : l.chan = [] := by simpa using h
    simp only [hc, receive]
    cases l; simp_all

theorem step_recv_record (l : Link) (cap : Nat) (rcd : Bytes) (rest : List Bytes) (hc : l.chan = rcd :: rest)
    (hne : rcd.length ≠ 0) :
    l.step (.recv cap none) =
      { l with b := bAfterRecv l.b rcd cap, chan := rest, returned := l.returned ++ [rcd.take cap],
               fulls := l.fulls ++ [rcd], caps := l.caps ++ [cap] } := by
  unfold Link.step bAfterRecv
  simp only [hc, receive, hne, if_false]
  by_cases hu : min rcd.length cap = 0
  · simp [hu]
  · simp [hu]

theorem inv_step (l : Link) (st : Step) (h : Inv l) : Inv (l.step st) := by
  cases st with
  | send m ke =>
    by_cases hr : m.length > Generated.UX_MAX_MSG ∨ m.length = 0 ∨ ke ≠ none
    · rw [step_send_refused l m ke hr]; exact h
    · have h1 : ¬ m.length > Generated.UX_MAX_MSG := fun x => hr (Or.inl x)
      have h2 : m.length ≠ 0 := fun x => hr (Or.inr (Or.inl x))
      have h3 : ke = none := by
        cases ke with
        | none => rfl
        | some e => exact absurd (Or.inr (Or.inr (by simp))) hr
      subst h3
      rw [step_send_ok l m h1 h2]
      exact {
        acc := by simp [h.acc]
        ret := h.ret
        len := h.len
        valid := by
          intro x hx
          simp at hx
          rcases hx with hx | hx
          · exact h.valid x hx
          · subst hx; omega
        aFromM := by simp [aAfterSend, h.aFromM]
        aFromB := by simp [aAfterSend, h.aFromB]
        aToM := by simp [aAfterSend, h.aToM]
        aToB := by simp [aAfterSend, h.aToB]
        aRx := by simpa [aAfterSend] using h.aRx
        bFromM := h.bFromM
        bFromB := h.bFromB
        bToM := h.bToM
        bToB := h.bToB
        bTx := h.bTx }
  | recv cap ag =>
    by_cases hr : ag ≠ none ∨ l.chan = []
    · rw [step_recv_nothing l cap ag hr]; exact h
    · have h3 : ag = none := by
        cases ag with
        | none => rfl
        | some e => exact absurd (Or.inl (by simp)) hr
      subst h3
      cases hc : l.chan with
      | nil => exact absurd (Or.inr hc) hr
      | cons rcd rest =>
        have hv : 1 ≤ rcd.length := (h.valid rcd (by rw [h.acc, hc]; simp)).1
        rw [step_recv_record l cap rcd rest hc (by omega)]
        exact {
          acc := by simp [h.acc, hc]
          ret := by simp only []; rw [zipWith_snoc _ _ _ _ _ h.len, h.ret]
          len := by simp [h.len]
          valid := h.valid
          aFromM := h.aFromM
          aFromB := h.aFromB
          aToM := h.aToM
          aToB := h.aToB
          aRx := h.aRx
          bFromM := by simp [bAfterRecv, h.bFromM]
          bFromB := by simp [bAfterRecv, h.bFromB]
          bToM := by simp [bAfterRecv, h.bToM]
          bToB := by simp [bAfterRecv, h.bToB, List.length_take, Nat.min_comm]
          bTx := by simpa [bAfterRecv] using h.bTx }
  | finishA => exact h
  | finishB => exact h

theorem inv_run (steps : List Step) (l : Link) (h : Inv l) : Inv (l.run steps) := by
  induction steps generalizing l with
  | nil => exact h
  | cons s t ih => exact ih _ (inv_step l s h)

end XcmModel.Ux
