import XcmModel.Btls
/-
  Invariants of the TLS connection machine (xcm_tp_btls.c): histories are arbitrary sequences of
  `try_finish_tls_handshake` steps (as done by connect/accept), send, receive and finish calls with
  arbitrary OpenSSL answers.
-/
namespace XcmModel.Btls
open XcmModel

inductive Op where
  | hs (h : HAns)
  | send (buf : Bytes) (h : HAns) (w : WAns)
  | recv (cap : Nat) (h : HAns) (r : RAns)
  | fin (h : HAns) (lower : Option Nat)
  deriving Repr

def step (s : St) : Op → St
  | .hs h => tryFinishHandshake s h
  | .send b h w => (send s b h w).1
  | .recv c h r => (receive s c h r).1
  | .fin h l => (finish s h l).1

def run (s : St) (ops : List Op) : St := ops.foldl step s

/-- the peer has been verified against this side's policy -/
def Verified (s : St) : Prop := s.handshakeDone = true ∧ (s.auth = true → s.verdict = .ok)

def Terminal (s : St) : Prop := s.state = .closed ∨ ∃ e, s.state = .bad e

/-- what holds in every reachable state -/
structure Inv (s : St) : Prop where
  readyVerified : s.state = .ready → Verified s
  ioVerified : (s.written ≠ [] ∨ s.delivered ≠ []) → Verified s
  hsOnce : s.state = .handshaking → s.handshakeDone = false ∧ s.written = [] ∧ s.delivered = []
  cntW : s.cnt.fromApp = s.written.length ∧ s.cnt.toLower = s.written.length
  cntD : s.cnt.toApp = s.delivered.length ∧ s.cnt.fromLower = s.delivered.length

/-- `s'` differs from `s` only in the wait bookkeeping and possibly by having become terminal -/
structure Frame (s s' : St) : Prop where
  auth : s'.auth = s.auth
  hd : s'.handshakeDone = s.handshakeDone
  verdict : s'.verdict = s.verdict
  written : s'.written = s.written
  delivered : s'.delivered = s.delivered
  cnt : s'.cnt = s.cnt
  state : s'.state = s.state ∨ s'.state = .closed ∨ ∃ x, s'.state = .bad x

theorem Frame.refl (s : St) : Frame s s := ⟨rfl, rfl, rfl, rfl, rfl, rfl, Or.inl rfl⟩

theorem Frame.trans {a b c : St} (h1 : Frame a b) (h2 : Frame b c) : Frame a c := by
  refine ⟨h2.auth.trans h1.auth, h2.hd.trans h1.hd, h2.verdict.trans h1.verdict, h2.written.trans h1.written,
    h2.delivered.trans h1.delivered, h2.cnt.trans h1.cnt, ?_⟩
  rcases h2.state with h | h | h
  · rw [h]; exact h1.state
  · exact Or.inr (Or.inl h)
  · exact Or.inr (Or.inr h)

theorem frame_reset (s : St) : Frame s { s with sslCondition := 0, sslWants := 0 } :=
  ⟨rfl, rfl, rfl, rfl, rfl, rfl, Or.inl rfl⟩

/-- `process_ssl_event` never makes a connection ready and never touches data or the verdict -/
theorem frame_pse (s : St) (c : Nat) (e : SslEv) : Frame s (processSslEvent s c e) := by
  unfold processSslEvent
  cases e with
  | wantRead => exact ⟨rfl, rfl, rfl, rfl, rfl, rfl, Or.inl rfl⟩
  | wantWrite => exact ⟨rfl, rfl, rfl, rfl, rfl, rfl, Or.inl rfl⟩
  | zeroReturn => exact ⟨rfl, rfl, rfl, rfl, rfl, rfl, Or.inr (Or.inl rfl)⟩
  | sslErr => exact ⟨rfl, rfl, rfl, rfl, rfl, rfl, Or.inr (Or.inr ⟨_, rfl⟩)⟩
  | syscall errno queued =>
    simp only
    split
    · exact ⟨rfl, rfl, rfl, rfl, rfl, rfl, Or.inr (Or.inr ⟨_, rfl⟩)⟩
    split
    · exact ⟨rfl, rfl, rfl, rfl, rfl, rfl, Or.inl rfl⟩
    split
    · exact ⟨rfl, rfl, rfl, rfl, rfl, rfl, Or.inl rfl⟩
    split
    · exact ⟨rfl, rfl, rfl, rfl, rfl, rfl, Or.inr (Or.inl rfl)⟩
    · exact ⟨rfl, rfl, rfl, rfl, rfl, rfl, Or.inr (Or.inr ⟨_, rfl⟩)⟩

theorem inv_frame {s s' : St} (h : Inv s) (f : Frame s s') : Inv s' := by
  have hv : Verified s → Verified s' := by
    intro ⟨a, b⟩; exact ⟨f.hd.trans a, fun x => f.verdict.trans (b (f.auth ▸ x))⟩
  constructor
  · intro hr
    rcases f.state with st | st | ⟨x, st⟩
    · exact hv (h.readyVerified (st ▸ hr))
    · rw [st] at hr; cases hr
    · rw [st] at hr; cases hr
  · intro hio; rw [f.written, f.delivered] at hio; exact hv (h.ioVerified hio)
  · intro hh
    rcases f.state with st | st | ⟨x, st⟩
    · rw [f.hd, f.written, f.delivered]; exact h.hsOnce (st ▸ hh)
    · rw [st] at hh; cases hh
    · rw [st] at hh; cases hh
  · rw [f.cnt, f.written]; exact h.cntW
  · rw [f.cnt, f.delivered]; exact h.cntD

theorem init_inv (a : Bool) : Inv { auth := a } := by
  constructor <;> simp [Verified]

theorem tfh_inv {s : St} (h : Inv s) (a : HAns) : Inv (tryFinishHandshake s a) := by
  unfold tryFinishHandshake
  by_cases hst : s.state = .handshaking
  · obtain ⟨hd, hw, hdl⟩ := h.hsOnce hst
    rw [if_neg (by simp [hst])]
    cases a with
    | ev e => exact inv_frame h ((frame_reset s).trans (frame_pse _ _ _))
    | done cert =>
      have cw := h.cntW
      have cd := h.cntD
      simp only
      by_cases ha : s.auth = true
      · rw [if_pos ha]
        cases cert <;> constructor <;> simp_all [Verified]
      · rw [if_neg ha]
        constructor <;> simp_all [Verified]
  · rw [if_pos (by simpa using hst)]; exact h

theorem verified_frame {s s' : St} (f : Frame s s') (h : Verified s) : Verified s' :=
  ⟨f.hd.trans h.1, fun x => f.verdict.trans (h.2 (f.auth ▸ x))⟩

theorem send_inv {s : St} (hi : Inv s) (buf : Bytes) (h : HAns) (w : WAns) : Inv (send s buf h w).1 := by
  unfold send
  have h1 := tfh_inv hi h
  generalize tryFinishHandshake s h = s1 at h1
  simp only
  split
  · exact h1
  · exact h1
  · exact h1
  · rename_i hr
    have hv := h1.readyVerified hr
    split
    · exact h1
    · cases w with
      | n k =>
        have cw := h1.cntW
        have cd := h1.cntD
        constructor
        · intro _; exact hv
        · intro _; exact hv
        · intro hh; simp [hr] at hh
        · rename_i hl
          simp only [List.length_append, List.length_take, cw.1, cw.2]
          omega
        · exact cd
      | zero => exact inv_frame h1 ⟨rfl, rfl, rfl, rfl, rfl, rfl, Or.inr (Or.inl rfl)⟩
      | ev e =>
        simp only
        have f := (frame_reset s1).trans (frame_pse { s1 with sslCondition := 0, sslWants := 0 } SENDABLE e)
        split <;> exact inv_frame h1 f

theorem receive_inv {s : St} (hi : Inv s) (cap : Nat) (h : HAns) (r : RAns) : Inv (receive s cap h r).1 := by
  unfold receive
  have h1 := tfh_inv hi h
  generalize tryFinishHandshake s h = s1 at h1
  simp only
  split
  · exact h1
  · exact h1
  · exact h1
  · rename_i hr
    have hv := h1.readyVerified hr
    cases r with
    | data bs =>
      simp only
      split
      · exact inv_frame h1 (frame_reset s1)
      · have cw := h1.cntW
        have cd := h1.cntD
        constructor
        · intro _; exact hv
        · intro _; exact hv
        · intro hh; simp [hr] at hh
        · exact cw
        · simp [List.length_append, cd.1, cd.2]
    | ev e =>
      simp only
      have f := (frame_reset s1).trans (frame_pse { s1 with sslCondition := 0, sslWants := 0 } RECEIVABLE e)
      split <;> exact inv_frame h1 f

theorem finish_inv {s : St} (hi : Inv s) (h : HAns) (l : Option Nat) : Inv (finish s h l).1 := by
  unfold finish
  have h1 := tfh_inv hi h
  generalize tryFinishHandshake s h = s1 at h1
  simp only
  split <;> exact h1

/-- the handshake step moves no application data -/
theorem tfh_data (s : St) (a : HAns) :
    (tryFinishHandshake s a).written = s.written ∧ (tryFinishHandshake s a).delivered = s.delivered ∧
    (tryFinishHandshake s a).auth = s.auth := by
  unfold tryFinishHandshake
  split
  · exact ⟨rfl, rfl, rfl⟩
  · cases a with
    | ev e =>
      have f := (frame_reset s).trans (frame_pse { s with sslCondition := 0, sslWants := 0 } 0 e)
      exact ⟨f.written, f.delivered, f.auth⟩
    | done cert =>
      simp only
      split
      · cases cert <;> exact ⟨rfl, rfl, rfl⟩
      · exact ⟨rfl, rfl, rfl⟩

theorem tfh_terminal {s : St} (h : Terminal s) (a : HAns) : tryFinishHandshake s a = s := by
  unfold tryFinishHandshake
  rcases h with h | ⟨e, h⟩ <;> simp [h]

/-- terminal states are absorbing: no call changes anything any more -/
theorem step_terminal {s : St} (h : Terminal s) (op : Op) : step s op = s := by
  cases op with
  | hs a => exact tfh_terminal h a
  | send b a w => simp only [step, send, tfh_terminal h a]; rcases h with h | ⟨e, h⟩ <;> simp [h]
  | recv c a r => simp only [step, receive, tfh_terminal h a]; rcases h with h | ⟨e, h⟩ <;> simp [h]
  | fin a l => simp only [step, finish, tfh_terminal h a]; rcases h with h | ⟨e, h⟩ <;> simp [h]

theorem run_terminal (ops : List Op) {s : St} (h : Terminal s) : run s ops = s := by
  induction ops with
  | nil => rfl
  | cons o os ih => simp only [run, List.foldl_cons, step_terminal h o]; exact ih

theorem step_inv {s : St} (hi : Inv s) (op : Op) : Inv (step s op) := by
  cases op with
  | hs h => exact tfh_inv hi h
  | send b h w => exact send_inv hi b h w
  | recv c h r => exact receive_inv hi c h r
  | fin h l => exact finish_inv hi h l

theorem run_inv (ops : List Op) {s : St} (hi : Inv s) : Inv (run s ops) := by
  induction ops generalizing s with
  | nil => exact hi
  | cons o os ih => exact ih (step_inv hi o)

/-! ### what OpenSSL is waiting for (`ssl_condition`, `ssl_wants`) -/

/-- K-openssl-eagain: OpenSSL reports a would-block as WANT_READ/WANT_WRITE, never as SSL_ERROR_SYSCALL+EAGAIN
(the code asserts this) -/
def EvOk : SslEv → Prop
  | .syscall e q => q = true ∨ e ≠ EAGAIN
  | _ => True

def HOk : HAns → Prop
  | .ev e => EvOk e
  | _ => True

def OpOk : Op → Prop
  | .hs h => HOk h
  | .send _ h w => HOk h ∧ (match w with | .ev e => EvOk e | _ => True)
  | .recv _ h r => HOk h ∧ (match r with | .ev e => EvOk e | _ => True)
  | .fin h _ => HOk h

def isRS (n : Nat) : Prop := n = RECEIVABLE ∨ n = SENDABLE

structure WInv (s : St) : Prop where
  hsWants : s.state = .handshaking → isRS s.sslWants
  condWants : s.sslCondition ≠ 0 → isRS s.sslWants ∧ isRS s.sslCondition
  noAbort : s.aborted = false

theorem pse_wants (s : St) (c : Nat) (e : SslEv) (hc : c = 0 ∨ isRS c) (he : EvOk e) (ha : s.aborted = false)
    (h0 : s.sslCondition = 0) :
    (processSslEvent s c e).aborted = false ∧
    ((processSslEvent s c e).sslCondition ≠ 0 → isRS (processSslEvent s c e).sslWants ∧ isRS (processSslEvent s c e).sslCondition) ∧
    (¬ Terminal (processSslEvent s c e) → isRS (processSslEvent s c e).sslWants) := by
  unfold processSslEvent
  cases e with
  | wantRead =>
    refine ⟨ha, fun hne => ⟨Or.inl rfl, ?_⟩, fun _ => Or.inl rfl⟩
    rcases hc with hc | hc
    · exact absurd hc hne
    · exact hc
  | wantWrite =>
    refine ⟨ha, fun hne => ⟨Or.inr rfl, ?_⟩, fun _ => Or.inr rfl⟩
    rcases hc with hc | hc
    · exact absurd hc hne
    · exact hc
  | zeroReturn => exact ⟨ha, fun hne => absurd h0 hne, fun ht => absurd (Or.inl rfl) ht⟩
  | sslErr => exact ⟨ha, fun hne => absurd h0 hne, fun ht => absurd (Or.inr ⟨_, rfl⟩) ht⟩
  | syscall errno queued =>
    simp only
    split
    · exact ⟨ha, fun hne => absurd h0 hne, fun ht => absurd (Or.inr ⟨_, rfl⟩) ht⟩
    split
    · rename_i hq he'
      rcases he with he | he
      · exact absurd he hq
      · exact absurd he' he
    split
    · exact ⟨ha, fun hne => absurd h0 hne, fun _ => Or.inl rfl⟩
    split
    · exact ⟨ha, fun hne => absurd h0 hne, fun ht => absurd (Or.inl rfl) ht⟩
    · exact ⟨ha, fun hne => absurd h0 hne, fun ht => absurd (Or.inr ⟨_, rfl⟩) ht⟩

theorem tfh_winv_of_hs {s : St} (a : HAns) (ha : HOk a) (hab : s.aborted = false) (hst : s.state = .handshaking) :
    WInv (tryFinishHandshake s a) := by
  unfold tryFinishHandshake
  rw [if_neg (by simp [hst])]
  cases a with
  | ev e =>
    have p := pse_wants { s with sslCondition := 0, sslWants := 0 } 0 e (Or.inl rfl) ha hab rfl
    simp only
    refine ⟨fun h => p.2.2 ?_, p.2.1, p.1⟩
    intro ht
    rcases ht with ht | ⟨x, ht⟩ <;> rw [ht] at h <;> cases h
  | done cert =>
    simp only
    split
    · cases cert <;> exact ⟨(by intro h; cases h), fun h => absurd rfl h, hab⟩
    · exact ⟨(by intro h; cases h), fun h => absurd rfl h, hab⟩

theorem tfh_winv {s : St} (hi : WInv s) (a : HAns) (ha : HOk a) : WInv (tryFinishHandshake s a) := by
  by_cases hst : s.state = .handshaking
  · exact tfh_winv_of_hs a ha hi.noAbort hst
  · unfold tryFinishHandshake; rw [if_pos hst]; exact hi

theorem pse_winv_ready (s1 : St) (c : Nat) (e : SslEv) (hc : isRS c) (he : EvOk e) (ha : s1.aborted = false)
    (hr : s1.state = .ready) : WInv (processSslEvent { s1 with sslCondition := 0, sslWants := 0 } c e) := by
  have p := pse_wants { s1 with sslCondition := 0, sslWants := 0 } c e (Or.inr hc) he ha rfl
  have f := frame_pse { s1 with sslCondition := 0, sslWants := 0 } c e
  refine ⟨fun h => ?_, p.2.1, p.1⟩
  rcases f.state with st | st | ⟨x, st⟩ <;> rw [st] at h
  · simp only [hr] at h; cases h
  · cases h
  · cases h

theorem send_winv {s : St} (hi : WInv s) (buf : Bytes) (h : HAns) (w : WAns) (ho : OpOk (.send buf h w)) :
    WInv (send s buf h w).1 := by
  have h1 := tfh_winv hi h ho.1
  have hw := ho.2
  unfold send
  generalize tryFinishHandshake s h = s1 at h1
  simp only
  split
  · exact h1
  · exact h1
  · exact h1
  · rename_i hr
    split
    · exact h1
    · cases w with
      | n k => exact ⟨(by intro h; simp [hr] at h), fun h => absurd rfl h, h1.noAbort⟩
      | zero => exact ⟨(by intro h; cases h), fun h => absurd rfl h, h1.noAbort⟩
      | ev e =>
        simp only
        have p := pse_winv_ready s1 SENDABLE e (Or.inr rfl) hw h1.noAbort hr
        split <;> exact p

theorem receive_winv {s : St} (hi : WInv s) (cap : Nat) (h : HAns) (r : RAns) (ho : OpOk (.recv cap h r)) :
    WInv (receive s cap h r).1 := by
  have h1 := tfh_winv hi h ho.1
  have hw := ho.2
  unfold receive
  generalize tryFinishHandshake s h = s1 at h1
  simp only
  split
  · exact h1
  · exact h1
  · exact h1
  · rename_i hr
    cases r with
    | data bs =>
      simp only
      split
      · exact ⟨(by intro h; simp [hr] at h), fun h => absurd rfl h, h1.noAbort⟩
      · exact ⟨(by intro h; simp [hr] at h), fun h => absurd rfl h, h1.noAbort⟩
    | ev e =>
      simp only
      have p := pse_winv_ready s1 RECEIVABLE e (Or.inl rfl) hw h1.noAbort hr
      split <;> exact p

theorem finish_winv {s : St} (hi : WInv s) (h : HAns) (l : Option Nat) (ho : HOk h) : WInv (finish s h l).1 := by
  have h1 := tfh_winv hi h ho
  unfold finish
  generalize tryFinishHandshake s h = s1 at h1
  simp only
  split <;> exact h1

theorem step_winv {s : St} (hi : WInv s) (op : Op) (ho : OpOk op) : WInv (step s op) := by
  cases op with
  | hs h => exact tfh_winv hi h ho
  | send b h w => exact send_winv hi b h w ho
  | recv c h r => exact receive_winv hi c h r ho
  | fin h l => exact finish_winv hi h l ho

theorem run_winv (ops : List Op) {s : St} (hi : WInv s) (ho : ∀ op ∈ ops, OpOk op) : WInv (run s ops) := by
  induction ops generalizing s with
  | nil => exact hi
  | cons o os ih =>
    exact ih (step_winv hi o (ho o (List.mem_cons_self))) (fun op hm => ho op (List.mem_cons_of_mem _ hm))

/-- a connection as `btls_connect`/`btls_accept` leave it: the handshake has been entered and attempted once -/
theorem entered_winv (auth : Bool) (h : HAns) (ho : HOk h) : WInv (tryFinishHandshake { auth := auth } h) :=
  tfh_winv_of_hs h ho rfl rfl

end XcmModel.Btls
