import XcmModel.Btls
/-
  Invariants of the TLS connection machine (xcm_tp_btls.c): histories are arbitrary sequences of
  `try_finish_tls_handshake` steps (as done by connect/accept), send, receive and finish calls with
  arbitrary OpenSSL answers.
-/
namespace XcmModel.Btls
open XcmModel

inductive Op where
  | hs (h : HAns)
  | send (buf : Bytes) (h : HAns) (ws : List WAns)
  | recv (cap : Nat) (h : HAns) (ws : List WAns) (r : RAns)
  | fin (h : HAns) (ws : List WAns) (lower : Option Nat)
  deriving Repr

def step (s : St) : Op → St
  | .hs h => tryFinishHandshake s h
  | .send b h ws => (send s b h ws).1
  | .recv c h ws r => (receive s c h ws r).1
  | .fin h ws l => (finish s h ws l).1

def run (s : St) (ops : List Op) : St := ops.foldl step s

/-- the peer has been verified against this side's policy -/
def Verified (s : St) : Prop := s.handshakeDone = true ∧ (s.auth = true → s.verdict = .ok)

def Terminal (s : St) : Prop := s.state = .closed ∨ ∃ e, s.state = .bad e

/-- what holds in every reachable state -/
structure Inv (s : St) : Prop where
  readyVerified : s.state = .ready → Verified s
  ioVerified : (s.written ≠ [] ∨ s.delivered ≠ [] ∨ s.accepted ≠ []) → Verified s
  hsOnce : s.state = .handshaking → s.handshakeDone = false ∧ s.written = [] ∧ s.delivered = [] ∧ s.pend = [] ∧ s.accepted = []
  /-- every byte XCM has accepted was either handed to OpenSSL or is retained, in order -/
  acc : s.accepted = s.written ++ s.pend
  cntW : s.cnt.fromApp = s.accepted.length ∧ s.cnt.toLower = s.written.length
  cntD : s.cnt.toApp = s.delivered.length ∧ s.cnt.fromLower = s.delivered.length

/-- `s'` differs from `s` only in the wait bookkeeping and possibly by having become terminal -/
structure Frame (s s' : St) : Prop where
  auth : s'.auth = s.auth
  hd : s'.handshakeDone = s.handshakeDone
  verdict : s'.verdict = s.verdict
  written : s'.written = s.written
  delivered : s'.delivered = s.delivered
  pend : s'.pend = s.pend
  accepted : s'.accepted = s.accepted
  cnt : s'.cnt = s.cnt
  state : s'.state = s.state ∨ s'.state = .closed ∨ ∃ x, s'.state = .bad x

theorem Frame.refl (s : St) : Frame s s := ⟨rfl, rfl, rfl, rfl, rfl, rfl, rfl, rfl, Or.inl rfl⟩

theorem Frame.trans {a b c : St} (h1 : Frame a b) (h2 : Frame b c) : Frame a c := by
  refine ⟨h2.auth.trans h1.auth, h2.hd.trans h1.hd, h2.verdict.trans h1.verdict, h2.written.trans h1.written,
    h2.delivered.trans h1.delivered, h2.pend.trans h1.pend, h2.accepted.trans h1.accepted, h2.cnt.trans h1.cnt, ?_⟩
  rcases h2.state with h | h | h
  · rw [h]; exact h1.state
  · exact Or.inr (Or.inl h)
  · exact Or.inr (Or.inr h)

theorem frame_reset (s : St) : Frame s { s with sslCondition := 0, sslWants := 0 } :=
  ⟨rfl, rfl, rfl, rfl, rfl, rfl, rfl, rfl, Or.inl rfl⟩

theorem frame_pendWants (s : St) (w : Nat) : Frame s { s with pendWants := w } :=
  ⟨rfl, rfl, rfl, rfl, rfl, rfl, rfl, rfl, Or.inl rfl⟩

/-- `process_ssl_event` never makes a connection ready and never touches data or the verdict -/
theorem frame_pse (s : St) (c : Nat) (e : SslEv) : Frame s (processSslEvent s c e) := by
  unfold processSslEvent
  cases e with
  | wantRead => exact ⟨rfl, rfl, rfl, rfl, rfl, rfl, rfl, rfl, Or.inl rfl⟩
  | wantWrite => exact ⟨rfl, rfl, rfl, rfl, rfl, rfl, rfl, rfl, Or.inl rfl⟩
  | zeroReturn => exact ⟨rfl, rfl, rfl, rfl, rfl, rfl, rfl, rfl, Or.inr (Or.inl rfl)⟩
  | sslErr => exact ⟨rfl, rfl, rfl, rfl, rfl, rfl, rfl, rfl, Or.inr (Or.inr ⟨_, rfl⟩)⟩
  | syscall errno queued =>
    simp only
    split
    · exact ⟨rfl, rfl, rfl, rfl, rfl, rfl, rfl, rfl, Or.inr (Or.inr ⟨_, rfl⟩)⟩
    split
    · exact ⟨rfl, rfl, rfl, rfl, rfl, rfl, rfl, rfl, Or.inl rfl⟩
    split
    · exact ⟨rfl, rfl, rfl, rfl, rfl, rfl, rfl, rfl, Or.inl rfl⟩
    split
    · exact ⟨rfl, rfl, rfl, rfl, rfl, rfl, rfl, rfl, Or.inr (Or.inl rfl)⟩
    · exact ⟨rfl, rfl, rfl, rfl, rfl, rfl, rfl, rfl, Or.inr (Or.inr ⟨_, rfl⟩)⟩

theorem verified_of_fields {s s' : St} (ha : s'.auth = s.auth) (hd : s'.handshakeDone = s.handshakeDone)
    (hv : s'.verdict = s.verdict) (h : Verified s) : Verified s' :=
  ⟨hd.trans h.1, fun x => hv.trans (h.2 (ha ▸ x))⟩

theorem verified_frame {s s' : St} (f : Frame s s') (h : Verified s) : Verified s' :=
  verified_of_fields f.auth f.hd f.verdict h

theorem inv_frame {s s' : St} (h : Inv s) (f : Frame s s') : Inv s' := by
  have hv : Verified s → Verified s' := verified_frame f
  constructor
  · intro hr
    rcases f.state with st | st | ⟨x, st⟩
    · exact hv (h.readyVerified (st ▸ hr))
    · rw [st] at hr; cases hr
    · rw [st] at hr; cases hr
  · intro hio; rw [f.written, f.delivered, f.accepted] at hio; exact hv (h.ioVerified hio)
  · intro hh
    rcases f.state with st | st | ⟨x, st⟩
    · rw [f.hd, f.written, f.delivered, f.pend, f.accepted]; exact h.hsOnce (st ▸ hh)
    · rw [st] at hh; cases hh
    · rw [st] at hh; cases hh
  · rw [f.accepted, f.written, f.pend]; exact h.acc
  · rw [f.cnt, f.accepted, f.written]; exact h.cntW
  · rw [f.cnt, f.delivered]; exact h.cntD

theorem init_inv (a : Bool) : Inv { auth := a } := by
  constructor <;> simp [Verified]

theorem tfh_inv {s : St} (h : Inv s) (a : HAns) : Inv (tryFinishHandshake s a) := by
  unfold tryFinishHandshake
  by_cases hst : s.state = .handshaking
  · obtain ⟨hd, hw, hdl, hp, hac⟩ := h.hsOnce hst
    rw [if_neg (by simp [hst])]
    cases a with
    | ev e => exact inv_frame h ((frame_reset s).trans (frame_pse _ _ _))
    | done cert =>
      have cw := h.cntW
      have cd := h.cntD
      simp only
      by_cases ha : s.auth = true
      · rw [if_pos ha]
        cases cert <;> constructor <;> simp_all [Verified]
      · rw [if_neg ha]
        constructor <;> simp_all [Verified]
  · rw [if_pos (by simpa using hst)]; exact h

/-- the relation between a state and what flushing the retained bytes makes of it -/
structure Core (s s' : St) : Prop where
  auth : s'.auth = s.auth
  hd : s'.handshakeDone = s.handshakeDone
  verdict : s'.verdict = s.verdict
  delivered : s'.delivered = s.delivered
  accepted : s'.accepted = s.accepted
  split : s'.written ++ s'.pend = s.written ++ s.pend
  fromApp : s'.cnt.fromApp = s.cnt.fromApp
  toApp : s'.cnt.toApp = s.cnt.toApp
  fromLower : s'.cnt.fromLower = s.cnt.fromLower
  toLower : s'.cnt.toLower + s.written.length = s.cnt.toLower + s'.written.length
  state : s'.state = s.state ∨ s'.state = .closed ∨ ∃ x, s'.state = .bad x

theorem core_of_frame {s s' : St} (f : Frame s s') : Core s s' :=
  ⟨f.auth, f.hd, f.verdict, f.delivered, f.accepted, by rw [f.written, f.pend], by rw [f.cnt], by rw [f.cnt], by rw [f.cnt],
   by rw [f.cnt, f.written], f.state⟩

theorem Core.trans {a b c : St} (h1 : Core a b) (h2 : Core b c) : Core a c := by
  refine ⟨h2.auth.trans h1.auth, h2.hd.trans h1.hd, h2.verdict.trans h1.verdict, h2.delivered.trans h1.delivered,
    h2.accepted.trans h1.accepted, h2.split.trans h1.split, h2.fromApp.trans h1.fromApp, h2.toApp.trans h1.toApp,
    h2.fromLower.trans h1.fromLower, ?_, ?_⟩
  · have := h1.toLower; have := h2.toLower; omega
  · rcases h2.state with h | h | h
    · rw [h]; exact h1.state
    · exact Or.inr (Or.inl h)
    · exact Or.inr (Or.inr h)

theorem inv_core {s s' : St} (h : Inv s) (c : Core s s') (hn : s.state ≠ .handshaking) : Inv s' := by
  have hv : Verified s → Verified s' := verified_of_fields c.auth c.hd c.verdict
  have hacc := h.acc
  constructor
  · intro hr
    rcases c.state with st | st | ⟨x, st⟩
    · exact hv (h.readyVerified (st ▸ hr))
    · rw [st] at hr; cases hr
    · rw [st] at hr; cases hr
  · intro hio
    apply hv
    apply h.ioVerified
    rcases hio with hw | hd | ha
    · right; right
      rw [hacc, ← c.split]
      intro he
      apply hw
      exact (List.append_eq_nil_iff.mp he).1
    · right; left; rw [← c.delivered]; exact hd
    · right; right; rw [← c.accepted]; exact ha
  · intro hh
    rcases c.state with st | st | ⟨x, st⟩
    · exact absurd (st ▸ hh) hn
    · rw [st] at hh; cases hh
    · rw [st] at hh; cases hh
  · rw [c.accepted, c.split]; exact hacc
  · refine ⟨by rw [c.fromApp, c.accepted]; exact h.cntW.1, ?_⟩
    have := c.toLower; have := h.cntW.2; omega
  · exact ⟨by rw [c.toApp, c.delivered]; exact h.cntD.1, by rw [c.fromLower, c.delivered]; exact h.cntD.2⟩

/-- `try_flush_pending_write`: nothing accepted is lost or reordered; when it reports success nothing is retained -/
theorem flush_core (fuel : Nat) : ∀ (s : St) (ws : List WAns),
    Core s (flushPending fuel s ws).1 ∧
    ((flushPending fuel s ws).2.1 = none → s.pend.length < fuel → (flushPending fuel s ws).1.pend = [] ∧ (flushPending fuel s ws).1.state = s.state) := by
  induction fuel with
  | zero => intro s ws; exact ⟨core_of_frame (Frame.refl s), fun _ h => absurd h (Nat.not_lt_zero _)⟩
  | succ f ih =>
    intro s ws
    unfold flushPending
    by_cases he : s.pend.isEmpty = true
    · rw [if_pos he]
      exact ⟨core_of_frame (Frame.refl s), fun _ _ => ⟨List.isEmpty_iff.mp he, rfl⟩⟩
    · rw [if_neg he]
      have hne : s.pend ≠ [] := fun h => he (by rw [h]; rfl)
      have hlen : 0 < s.pend.length := List.length_pos_iff.mpr hne
      cases hw : nextW ws with
      | mk w rest =>
        cases w with
        | n k =>
          simp only
          have hstep : Core s (flushStep s (max 1 (min k s.pend.length))) := by
            refine ⟨rfl, rfl, rfl, rfl, rfl, ?_, rfl, rfl, rfl, ?_, Or.inl rfl⟩
            · simp only [flushStep, List.append_assoc, List.take_append_drop]
            · simp only [flushStep, List.length_append, List.length_take]; omega
          have r := ih (flushStep s (max 1 (min k s.pend.length))) rest
          refine ⟨hstep.trans r.1, fun hn hl => ?_⟩
          have hd : (flushStep s (max 1 (min k s.pend.length))).pend.length < f := by
            simp only [flushStep, List.length_drop]; omega
          have := r.2 hn hd
          exact ⟨this.1, this.2⟩
        | zero =>
          simp only
          exact ⟨⟨rfl, rfl, rfl, rfl, rfl, rfl, rfl, rfl, rfl, rfl, Or.inr (Or.inl rfl)⟩, fun hn _ => by cases hn⟩
        | ev e =>
          simp only
          have f := (frame_reset s).trans (frame_pse { s with sslCondition := 0, sslWants := 0 } SENDABLE e)
          split
          · exact ⟨core_of_frame f, fun hn _ => by cases hn⟩
          · exact ⟨core_of_frame f, fun hn _ => by cases hn⟩
          · exact ⟨core_of_frame (f.trans (frame_pendWants _ _)), fun hn _ => by cases hn⟩

/-- the only results `try_flush_pending_write` reports are errors -/
theorem flush_res_err (fuel : Nat) : ∀ (s : St) (ws : List WAns) (r : Res), (flushPending fuel s ws).2.1 = some r → ∃ e, r = .err e := by
  induction fuel with
  | zero => intro s ws r h; simp [flushPending] at h
  | succ f ih =>
    intro s ws r h
    unfold flushPending at h
    split at h
    · cases h
    · cases hw : nextW ws with
      | mk w rest =>
        rw [hw] at h
        cases w with
        | n k => simp only at h; exact ih _ _ r h
        | zero => simp only [Option.some.injEq] at h; exact ⟨_, h.symm⟩
        | ev e =>
          simp only at h
          split at h <;> (simp only [Option.some.injEq] at h; exact ⟨_, h.symm⟩)

theorem send_inv {s : St} (hi : Inv s) (buf : Bytes) (h : HAns) (ws : List WAns) : Inv (send s buf h ws).1 := by
  unfold send
  have h1 := tfh_inv hi h
  generalize tryFinishHandshake s h = s1 at h1
  simp only
  split
  · exact h1
  · exact h1
  · exact h1
  · rename_i hr
    split
    · exact h1
    · have fc := flush_core (s1.pend.length + 1) s1 ws
      cases hf : flushPending (s1.pend.length + 1) s1 ws with
      | mk sf rest3 =>
        obtain ⟨fr, rest, nf⟩ := rest3
        rw [hf] at fc
        simp only at fc
        have hnh : s1.state ≠ .handshaking := by rw [hr]; exact fun x => by cases x
        have hsf := inv_core h1 fc.1 hnh
        simp only
        cases fr with
        | some r => exact hsf
        | none =>
          obtain ⟨hp, hst⟩ := fc.2 rfl (Nat.lt_succ_self _)
          have hsr : sf.state = .ready := hst.trans hr
          have hv := hsf.readyVerified hsr
          simp only
          cases hw : nextW rest with
          | mk w _ =>
            cases w with
            | n k =>
              simp only
              have cw := hsf.cntW
              have cd := hsf.cntD
              have ha := hsf.acc
              constructor
              · intro _; exact hv
              · intro _; exact hv
              · intro hh; simp [hsr] at hh
              · simp only [ha, hp, List.append_nil]
              · rename_i hl
                simp only [List.length_append, List.length_take, cw.1, cw.2]
                omega
              · exact cd
            | zero => exact inv_frame hsf ⟨rfl, rfl, rfl, rfl, rfl, rfl, rfl, rfl, Or.inr (Or.inl rfl)⟩
            | ev e =>
              simp only
              have f := (frame_reset sf).trans (frame_pse { sf with sslCondition := 0, sslWants := 0 } SENDABLE e)
              split
              · exact inv_frame hsf f
              · exact inv_frame hsf f
              · rename_i hnc hnb
                -- the would-block case: a record's worth of the buffer is retained and counted as accepted
                have h3 := inv_frame hsf f
                have st3 : (processSslEvent { sf with sslCondition := 0, sslWants := 0 } SENDABLE e).state = .ready := by
                  rcases f.state with st | st | ⟨x, st⟩
                  · exact st.trans hsr
                  · exact absurd st hnc
                  · exact absurd st (hnb x)
                generalize processSslEvent { sf with sslCondition := 0, sslWants := 0 } SENDABLE e = s3 at h3 f st3
                have hv3 := h3.readyVerified st3
                have p3 : s3.pend = [] := f.pend.trans hp
                have cw := h3.cntW
                have cd := h3.cntD
                have ha := h3.acc
                constructor
                · intro _; exact hv3
                · intro _; exact hv3
                · intro hh; simp [st3] at hh
                · simp only [ha, p3, List.append_nil, List.append_assoc]
                · simp only [List.length_append, List.length_take, cw.1, cw.2]
                  refine ⟨?_, trivial⟩
                  omega
                · exact cd

theorem readStep_inv {sf : St} (h1 : Inv sf) (hr : sf.state = .ready) (cap : Nat) (r : RAns) : Inv (readStep sf cap r).1 := by
  unfold readStep
  have hv := h1.readyVerified hr
  cases r with
  | data bs =>
    simp only
    split
    · exact inv_frame h1 (frame_reset sf)
    · have cw := h1.cntW
      have cd := h1.cntD
      constructor
      · intro _; exact hv
      · intro _; exact hv
      · intro hh; simp [hr] at hh
      · exact h1.acc
      · exact cw
      · simp [List.length_append, cd.1, cd.2]
  | ev e =>
    simp only
    have f := (frame_reset sf).trans (frame_pse { sf with sslCondition := 0, sslWants := 0 } RECEIVABLE e)
    split <;> exact inv_frame h1 f

/-- after the flush a ready connection is ready or terminal -/
theorem flush_state (fuel : Nat) (s : St) (ws : List WAns) (hr : s.state = .ready) :
    (flushPending fuel s ws).1.state = .ready ∨ Terminal (flushPending fuel s ws).1 := by
  rcases (flush_core fuel s ws).1.state with st | st | ⟨x, st⟩
  · exact Or.inl (st.trans hr)
  · exact Or.inr (Or.inl st)
  · exact Or.inr (Or.inr ⟨x, st⟩)

theorem receive_inv {s : St} (hi : Inv s) (cap : Nat) (h : HAns) (ws : List WAns) (r : RAns) : Inv (receive s cap h ws r).1 := by
  unfold receive
  have h1 := tfh_inv hi h
  generalize tryFinishHandshake s h = s1 at h1
  simp only
  split
  · exact h1
  · exact h1
  · exact h1
  · rename_i hr
    have fc := flush_core (s1.pend.length + 1) s1 ws
    have fs := flush_state (s1.pend.length + 1) s1 ws hr
    cases hf : flushPending (s1.pend.length + 1) s1 ws with
    | mk sf rest3 =>
      obtain ⟨fr, rest, nf⟩ := rest3
      rw [hf] at fc fs
      have hnh : s1.state ≠ .handshaking := by rw [hr]; exact fun x => by cases x
      have hsf := inv_core h1 fc.1 hnh
      simp only at fs ⊢
      split
      · exact hsf
      · exact hsf
      · rename_i hnb hnc
        rcases fs with fs | fs | ⟨x, fs⟩
        · exact readStep_inv hsf fs cap r
        · exact absurd fs hnc
        · exact absurd fs (hnb x)

theorem finish_inv {s : St} (hi : Inv s) (h : HAns) (ws : List WAns) (l : Option Nat) : Inv (finish s h ws l).1 := by
  unfold finish
  have h1 := tfh_inv hi h
  generalize tryFinishHandshake s h = s1 at h1
  simp only
  split
  · exact h1
  · rename_i hr
    have fc := flush_core (s1.pend.length + 1) s1 ws
    cases hf : flushPending (s1.pend.length + 1) s1 ws with
    | mk sf rest3 =>
      obtain ⟨fr, rest, nf⟩ := rest3
      rw [hf] at fc
      have hnh : s1.state ≠ .handshaking := by rw [hr]; exact fun x => by cases x
      have hsf := inv_core h1 fc.1 hnh
      simp only
      cases fr <;> exact hsf
  · exact h1
  · exact h1

/-- the handshake step moves no application data -/
theorem tfh_data (s : St) (a : HAns) :
    (tryFinishHandshake s a).written = s.written ∧ (tryFinishHandshake s a).delivered = s.delivered ∧
    (tryFinishHandshake s a).auth = s.auth ∧ (tryFinishHandshake s a).accepted = s.accepted ∧
    (tryFinishHandshake s a).pend = s.pend := by
  unfold tryFinishHandshake
  split
  · exact ⟨rfl, rfl, rfl, rfl, rfl⟩
  · cases a with
    | ev e =>
      have f := (frame_reset s).trans (frame_pse { s with sslCondition := 0, sslWants := 0 } 0 e)
      exact ⟨f.written, f.delivered, f.auth, f.accepted, f.pend⟩
    | done cert =>
      simp only
      split
      · cases cert <;> exact ⟨rfl, rfl, rfl, rfl, rfl⟩
      · exact ⟨rfl, rfl, rfl, rfl, rfl⟩

theorem tfh_terminal {s : St} (h : Terminal s) (a : HAns) : tryFinishHandshake s a = s := by
  unfold tryFinishHandshake
  rcases h with h | ⟨e, h⟩ <;> simp [h]

/-- terminal states are absorbing: no call changes anything any more -/
theorem step_terminal {s : St} (h : Terminal s) (op : Op) : step s op = s := by
  cases op with
  | hs a => exact tfh_terminal h a
  | send b a w => simp only [step, send, tfh_terminal h a]; rcases h with h | ⟨e, h⟩ <;> simp [h]
  | recv c a ws r => simp only [step, receive, tfh_terminal h a]; rcases h with h | ⟨e, h⟩ <;> simp [h]
  | fin a w l => simp only [step, finish, tfh_terminal h a]; rcases h with h | ⟨e, h⟩ <;> simp [h]

theorem run_terminal (ops : List Op) {s : St} (h : Terminal s) : run s ops = s := by
  induction ops with
  | nil => rfl
  | cons o os ih => simp only [run, List.foldl_cons, step_terminal h o]; exact ih

theorem step_inv {s : St} (hi : Inv s) (op : Op) : Inv (step s op) := by
  cases op with
  | hs h => exact tfh_inv hi h
  | send b h w => exact send_inv hi b h w
  | recv c h ws r => exact receive_inv hi c h ws r
  | fin h w l => exact finish_inv hi h w l

theorem run_inv (ops : List Op) {s : St} (hi : Inv s) : Inv (run s ops) := by
  induction ops generalizing s with
  | nil => exact hi
  | cons o os ih => exact ih (step_inv hi o)

/-! ### what OpenSSL is waiting for (`ssl_condition`, `ssl_wants`) -/

/-- K-openssl-eagain: OpenSSL reports a would-block as WANT_READ/WANT_WRITE, never as SSL_ERROR_SYSCALL+EAGAIN
(the code asserts this) -/
def EvOk : SslEv → Prop
  | .syscall e q => q = true ∨ e ≠ EAGAIN
  | _ => True

def HOk : HAns → Prop
  | .ev e => EvOk e
  | _ => True

def WOk : WAns → Prop
  | .ev e => EvOk e
  | _ => True

def ROk : RAns → Prop
  | .ev e => EvOk e
  | _ => True

def OpOk : Op → Prop
  | .hs h => HOk h
  | .send _ h ws => HOk h ∧ ∀ w ∈ ws, WOk w
  | .recv _ h ws r => HOk h ∧ (∀ w ∈ ws, WOk w) ∧ ROk r
  | .fin h ws _ => HOk h ∧ ∀ w ∈ ws, WOk w

def isRS (n : Nat) : Prop := n = RECEIVABLE ∨ n = SENDABLE

structure WInv (s : St) : Prop where
  hsWants : s.state = .handshaking → isRS s.sslWants
  condWants : s.sslCondition ≠ 0 → isRS s.sslWants ∧ isRS s.sslCondition
  noAbort : s.aborted = false

theorem pse_wants (s : St) (c : Nat) (e : SslEv) (hc : c = 0 ∨ isRS c) (he : EvOk e) (ha : s.aborted = false)
    (h0 : s.sslCondition = 0) :
    (processSslEvent s c e).aborted = false ∧
    ((processSslEvent s c e).sslCondition ≠ 0 → isRS (processSslEvent s c e).sslWants ∧ isRS (processSslEvent s c e).sslCondition) ∧
    (¬ Terminal (processSslEvent s c e) → isRS (processSslEvent s c e).sslWants) := by
  unfold processSslEvent
  cases e with
  | wantRead =>
    refine ⟨ha, fun hne => ⟨Or.inl rfl, ?_⟩, fun _ => Or.inl rfl⟩
    rcases hc with hc | hc
    · exact absurd hc hne
    · exact hc
  | wantWrite =>
    refine ⟨ha, fun hne => ⟨Or.inr rfl, ?_⟩, fun _ => Or.inr rfl⟩
    rcases hc with hc | hc
    · exact absurd hc hne
    · exact hc
  | zeroReturn => exact ⟨ha, fun hne => absurd h0 hne, fun ht => absurd (Or.inl rfl) ht⟩
  | sslErr => exact ⟨ha, fun hne => absurd h0 hne, fun ht => absurd (Or.inr ⟨_, rfl⟩) ht⟩
  | syscall errno queued =>
    simp only
    split
    · exact ⟨ha, fun hne => absurd h0 hne, fun ht => absurd (Or.inr ⟨_, rfl⟩) ht⟩
    split
    · rename_i hq he'
      rcases he with he | he
      · exact absurd he hq
      · exact absurd he' he
    split
    · exact ⟨ha, fun hne => absurd h0 hne, fun _ => Or.inl rfl⟩
    split
    · exact ⟨ha, fun hne => absurd h0 hne, fun ht => absurd (Or.inl rfl) ht⟩
    · exact ⟨ha, fun hne => absurd h0 hne, fun ht => absurd (Or.inr ⟨_, rfl⟩) ht⟩

theorem tfh_winv_of_hs {s : St} (a : HAns) (ha : HOk a) (hab : s.aborted = false) (hst : s.state = .handshaking) :
    WInv (tryFinishHandshake s a) := by
  unfold tryFinishHandshake
  rw [if_neg (by simp [hst])]
  cases a with
  | ev e =>
    have p := pse_wants { s with sslCondition := 0, sslWants := 0 } 0 e (Or.inl rfl) ha hab rfl
    simp only
    refine ⟨fun h => p.2.2 ?_, p.2.1, p.1⟩
    intro ht
    rcases ht with ht | ⟨x, ht⟩ <;> rw [ht] at h <;> cases h
  | done cert =>
    simp only
    split
    · cases cert <;> exact ⟨(by intro h; cases h), fun h => absurd rfl h, hab⟩
    · exact ⟨(by intro h; cases h), fun h => absurd rfl h, hab⟩

theorem tfh_winv {s : St} (hi : WInv s) (a : HAns) (ha : HOk a) : WInv (tryFinishHandshake s a) := by
  by_cases hst : s.state = .handshaking
  · exact tfh_winv_of_hs a ha hi.noAbort hst
  · unfold tryFinishHandshake; rw [if_pos hst]; exact hi

theorem pse_winv_ready (s1 : St) (c : Nat) (e : SslEv) (hc : isRS c) (he : EvOk e) (ha : s1.aborted = false)
    (hr : s1.state = .ready) : WInv (processSslEvent { s1 with sslCondition := 0, sslWants := 0 } c e) := by
  have p := pse_wants { s1 with sslCondition := 0, sslWants := 0 } c e (Or.inr hc) he ha rfl
  have f := frame_pse { s1 with sslCondition := 0, sslWants := 0 } c e
  refine ⟨fun h => ?_, p.2.1, p.1⟩
  rcases f.state with st | st | ⟨x, st⟩ <;> rw [st] at h
  · simp only [hr] at h; cases h
  · cases h
  · cases h

theorem nextW_ok (ws : List WAns) (h : ∀ w ∈ ws, WOk w) : WOk (nextW ws).1 ∧ ∀ w ∈ (nextW ws).2, WOk w := by
  cases ws with
  | nil => exact ⟨trivial, fun w hw => by cases hw⟩
  | cons a t => exact ⟨h a List.mem_cons_self, fun w hw => h w (List.mem_cons_of_mem _ hw)⟩

/-- a ready state whose wait bookkeeping is reset satisfies WInv -/
theorem winv_reset_ready (s : St) (hr : s.state = .ready) (ha : s.aborted = false) (hc : s.sslCondition = 0) : WInv s :=
  ⟨(by intro h; rw [hr] at h; cases h), fun h => absurd hc h, ha⟩

theorem flush_winv (fuel : Nat) : ∀ (s : St) (ws : List WAns), WInv s → s.state = .ready → (∀ w ∈ ws, WOk w) →
    WInv (flushPending fuel s ws).1 ∧ (∀ w ∈ (flushPending fuel s ws).2.2.1, WOk w) ∧
    ((flushPending fuel s ws).2.1 = none → (flushPending fuel s ws).1.state = .ready) := by
  induction fuel with
  | zero => intro s ws hi hr hw; exact ⟨hi, hw, fun _ => hr⟩
  | succ f ih =>
    intro s ws hi hr hw
    unfold flushPending
    split
    · exact ⟨hi, hw, fun _ => hr⟩
    · have nw := nextW_ok ws hw
      cases hn : nextW ws with
      | mk w rest =>
        rw [hn] at nw
        cases w with
        | n k =>
          simp only
          have h1 : WInv (flushStep s (max 1 (min k s.pend.length))) :=
            winv_reset_ready _ hr hi.noAbort rfl
          have r := ih (flushStep s (max 1 (min k s.pend.length))) rest h1 hr nw.2
          exact ⟨r.1, r.2.1, r.2.2⟩
        | zero =>
          simp only
          exact ⟨⟨(by intro h; cases h), fun h => absurd rfl h, hi.noAbort⟩, nw.2, (by intro h; cases h)⟩
        | ev e =>
          simp only
          have p := pse_winv_ready s SENDABLE e (Or.inr rfl) nw.1 hi.noAbort hr
          split
          · exact ⟨p, nw.2, (by intro h; cases h)⟩
          · exact ⟨p, nw.2, (by intro h; cases h)⟩
          · exact ⟨⟨p.hsWants, p.condWants, p.noAbort⟩, nw.2, (by intro h; cases h)⟩

theorem send_winv {s : St} (hi : WInv s) (buf : Bytes) (h : HAns) (ws : List WAns) (ho : OpOk (.send buf h ws)) :
    WInv (send s buf h ws).1 := by
  have h1 := tfh_winv hi h ho.1
  have hw := ho.2
  unfold send
  generalize tryFinishHandshake s h = s1 at h1
  simp only
  split
  · exact h1
  · exact h1
  · exact h1
  · rename_i hr
    split
    · exact h1
    · have fw := flush_winv (s1.pend.length + 1) s1 ws h1 hr hw
      cases hf : flushPending (s1.pend.length + 1) s1 ws with
      | mk sf rest3 =>
        obtain ⟨fr, rest, nf⟩ := rest3
        rw [hf] at fw
        simp only at fw ⊢
        cases fr with
        | some r => exact fw.1
        | none =>
          have hsr := fw.2.2 rfl
          have nw := nextW_ok rest fw.2.1
          simp only
          cases hn : nextW rest with
          | mk w _ =>
            rw [hn] at nw
            cases w with
            | n k => exact ⟨(by intro h; simp [hsr] at h), fun h => absurd rfl h, fw.1.noAbort⟩
            | zero => exact ⟨(by intro h; cases h), fun h => absurd rfl h, fw.1.noAbort⟩
            | ev e =>
              simp only
              have p := pse_winv_ready sf SENDABLE e (Or.inr rfl) nw.1 fw.1.noAbort hsr
              split
              · exact p
              · exact p
              · exact ⟨p.hsWants, p.condWants, p.noAbort⟩

theorem readStep_winv {sf : St} (h1 : WInv sf) (hr : sf.state = .ready) (cap : Nat) (r : RAns) (hw : ROk r) :
    WInv (readStep sf cap r).1 := by
  unfold readStep
  cases r with
  | data bs =>
    simp only
    split
    · exact ⟨(by intro h; simp [hr] at h), fun h => absurd rfl h, h1.noAbort⟩
    · exact ⟨(by intro h; simp [hr] at h), fun h => absurd rfl h, h1.noAbort⟩
  | ev e =>
    simp only
    have p := pse_winv_ready sf RECEIVABLE e (Or.inl rfl) hw h1.noAbort hr
    split <;> exact p

theorem receive_winv {s : St} (hi : WInv s) (cap : Nat) (h : HAns) (ws : List WAns) (r : RAns) (ho : OpOk (.recv cap h ws r)) :
    WInv (receive s cap h ws r).1 := by
  have h1 := tfh_winv hi h ho.1
  unfold receive
  generalize tryFinishHandshake s h = s1 at h1
  simp only
  split
  · exact h1
  · exact h1
  · exact h1
  · rename_i hr
    have fw := flush_winv (s1.pend.length + 1) s1 ws h1 hr ho.2.1
    have fs := flush_state (s1.pend.length + 1) s1 ws hr
    cases hf : flushPending (s1.pend.length + 1) s1 ws with
    | mk sf rest3 =>
      obtain ⟨fr, rest, nf⟩ := rest3
      rw [hf] at fw fs
      simp only at fs ⊢
      split
      · exact fw.1
      · exact fw.1
      · rename_i hnb hnc
        rcases fs with fs | fs | ⟨x, fs⟩
        · exact readStep_winv fw.1 fs cap r ho.2.2
        · exact absurd fs hnc
        · exact absurd fs (hnb x)

theorem finish_winv {s : St} (hi : WInv s) (h : HAns) (ws : List WAns) (l : Option Nat) (ho : OpOk (.fin h ws l)) :
    WInv (finish s h ws l).1 := by
  have h1 := tfh_winv hi h ho.1
  unfold finish
  generalize tryFinishHandshake s h = s1 at h1
  simp only
  split
  · exact h1
  · rename_i hr
    have fw := flush_winv (s1.pend.length + 1) s1 ws h1 hr ho.2
    cases hf : flushPending (s1.pend.length + 1) s1 ws with
    | mk sf rest3 =>
      obtain ⟨fr, rest, nf⟩ := rest3
      rw [hf] at fw
      simp only
      cases fr <;> exact fw.1
  · exact h1
  · exact h1

theorem step_winv {s : St} (hi : WInv s) (op : Op) (ho : OpOk op) : WInv (step s op) := by
  cases op with
  | hs h => exact tfh_winv hi h ho
  | send b h w => exact send_winv hi b h w ho
  | recv c h ws r => exact receive_winv hi c h ws r ho
  | fin h w l => exact finish_winv hi h w l ho

theorem run_winv (ops : List Op) {s : St} (hi : WInv s) (ho : ∀ op ∈ ops, OpOk op) : WInv (run s ops) := by
  induction ops generalizing s with
  | nil => exact hi
  | cons o os ih =>
    exact ih (step_winv hi o (ho o (List.mem_cons_self))) (fun op hm => ho op (List.mem_cons_of_mem _ hm))

/-- a connection as `btls_connect`/`btls_accept` leave it: the handshake has been entered and attempted once -/
theorem entered_winv (auth : Bool) (h : HAns) (ho : HOk h) : WInv (tryFinishHandshake { auth := auth } h) :=
  tfh_winv_of_hs h ho rfl rfl

/-- the retained-output addition to `conn_update` changes neither the bell, nor whether the TCP socket below is
updated, nor the assertion; it can only add to what the TCP socket is watched for -/
theorem connUpdate_core (s : St) (cond : Nat) (hp : Bool) :
    (connUpdate s cond hp).1 = (connUpdateCore s cond hp).1 ∧
    (connUpdate s cond hp).2.2 = (connUpdateCore s cond hp).2.2 ∧
    ((connUpdateCore s cond hp).2.1 ≠ 0 → (connUpdate s cond hp).2.1 ≠ 0) := by
  unfold connUpdate
  simp only
  split
  · refine ⟨rfl, rfl, fun h h2 => h (Nat.or_eq_zero_iff.mp h2).1⟩
  · exact ⟨rfl, rfl, id⟩

/-! ### the accepted, written and delivered streams only grow -/

structure Grow (s s' : St) : Prop where
  acc : s.accepted.length ≤ s'.accepted.length
  wr : s.written.length ≤ s'.written.length
  del : s.delivered.length ≤ s'.delivered.length

theorem Grow.refl (s : St) : Grow s s := ⟨Nat.le_refl _, Nat.le_refl _, Nat.le_refl _⟩

theorem Grow.trans {a b c : St} (h1 : Grow a b) (h2 : Grow b c) : Grow a c :=
  ⟨Nat.le_trans h1.acc h2.acc, Nat.le_trans h1.wr h2.wr, Nat.le_trans h1.del h2.del⟩

theorem grow_of_frame {s s' : St} (f : Frame s s') : Grow s s' :=
  ⟨by rw [f.accepted]; exact Nat.le_refl _, by rw [f.written]; exact Nat.le_refl _, by rw [f.delivered]; exact Nat.le_refl _⟩

theorem tfh_grow (s : St) (a : HAns) : Grow s (tryFinishHandshake s a) := by
  have d := tfh_data s a
  exact ⟨by rw [d.2.2.2.1]; exact Nat.le_refl _, by rw [d.1]; exact Nat.le_refl _, by rw [d.2.1]; exact Nat.le_refl _⟩

theorem flush_grow (fuel : Nat) : ∀ (s : St) (ws : List WAns), Grow s (flushPending fuel s ws).1 := by
  induction fuel with
  | zero => intro s ws; exact Grow.refl s
  | succ f ih =>
    intro s ws
    unfold flushPending
    split
    · exact Grow.refl s
    · cases hw : nextW ws with
      | mk w rest =>
        cases w with
        | n k =>
          simp only
          have hstep : Grow s (flushStep s (max 1 (min k s.pend.length))) :=
            ⟨Nat.le_refl _, by simp only [flushStep, List.length_append]; omega, Nat.le_refl _⟩
          exact hstep.trans (ih _ rest)
        | zero => simp only; exact ⟨Nat.le_refl _, Nat.le_refl _, Nat.le_refl _⟩
        | ev e =>
          simp only
          have f := (frame_reset s).trans (frame_pse { s with sslCondition := 0, sslWants := 0 } SENDABLE e)
          split
          · exact grow_of_frame f
          · exact grow_of_frame f
          · exact grow_of_frame (f.trans (frame_pendWants _ _))

theorem readStep_grow (sf : St) (cap : Nat) (r : RAns) : Grow sf (readStep sf cap r).1 := by
  unfold readStep
  cases r with
  | data bs =>
    simp only
    split
    · exact grow_of_frame (frame_reset sf)
    · exact ⟨Nat.le_refl _, Nat.le_refl _, by simp only [List.length_append]; omega⟩
  | ev e =>
    simp only
    have f := (frame_reset sf).trans (frame_pse { sf with sslCondition := 0, sslWants := 0 } RECEIVABLE e)
    split <;> exact grow_of_frame f

theorem send_grow (s : St) (buf : Bytes) (h : HAns) (ws : List WAns) : Grow s (send s buf h ws).1 := by
  have g1 := tfh_grow s h
  unfold send
  generalize tryFinishHandshake s h = s1 at g1
  simp only
  split
  · exact g1
  · exact g1
  · exact g1
  · split
    · exact g1
    · have g2 := flush_grow (s1.pend.length + 1) s1 ws
      cases hf : flushPending (s1.pend.length + 1) s1 ws with
      | mk sf rest3 =>
        obtain ⟨fr, rest, nf⟩ := rest3
        rw [hf] at g2
        have g := g1.trans g2
        simp only
        cases fr with
        | some r => exact g
        | none =>
          simp only
          cases hw : nextW rest with
          | mk w _ =>
            cases w with
            | n k =>
              exact g.trans ⟨by simp only [List.length_append]; omega, by simp only [List.length_append]; omega, Nat.le_refl _⟩
            | zero => exact g.trans ⟨Nat.le_refl _, Nat.le_refl _, Nat.le_refl _⟩
            | ev ev =>
              simp only
              have f := (frame_reset sf).trans (frame_pse { sf with sslCondition := 0, sslWants := 0 } SENDABLE ev)
              have gf := grow_of_frame f
              split
              · exact g.trans gf
              · exact g.trans gf
              · exact g.trans (gf.trans ⟨by simp only [List.length_append]; omega, Nat.le_refl _, Nat.le_refl _⟩)

theorem receive_grow (s : St) (cap : Nat) (h : HAns) (ws : List WAns) (r : RAns) : Grow s (receive s cap h ws r).1 := by
  have g1 := tfh_grow s h
  unfold receive
  generalize tryFinishHandshake s h = s1 at g1
  simp only
  split
  · exact g1
  · exact g1
  · exact g1
  · have g2 := flush_grow (s1.pend.length + 1) s1 ws
    cases hf : flushPending (s1.pend.length + 1) s1 ws with
    | mk sf rest3 =>
      obtain ⟨fr, rest, nf⟩ := rest3
      rw [hf] at g2
      simp only
      split
      · exact g1.trans g2
      · exact g1.trans g2
      · exact (g1.trans g2).trans (readStep_grow sf cap r)

theorem finish_grow (s : St) (h : HAns) (ws : List WAns) (l : Option Nat) : Grow s (finish s h ws l).1 := by
  have g1 := tfh_grow s h
  unfold finish
  generalize tryFinishHandshake s h = s1 at g1
  simp only
  split
  · exact g1
  · have g2 := flush_grow (s1.pend.length + 1) s1 ws
    cases hf : flushPending (s1.pend.length + 1) s1 ws with
    | mk sf rest3 =>
      obtain ⟨fr, rest, nf⟩ := rest3
      rw [hf] at g2
      simp only
      cases fr <;> exact g1.trans g2
  · exact g1
  · exact g1

theorem step_grows (s : St) (op : Op) :
    s.accepted.length ≤ (step s op).accepted.length ∧ s.written.length ≤ (step s op).written.length ∧
    s.delivered.length ≤ (step s op).delivered.length := by
  have g : Grow s (step s op) := by
    cases op with
    | hs h => exact tfh_grow s h
    | send b h w => exact send_grow s b h w
    | recv c h w r => exact receive_grow s c h w r
    | fin h w l => exact finish_grow s h w l
  exact ⟨g.acc, g.wr, g.del⟩

end XcmModel.Btls
