import XcmModel.Api
namespace XcmModel.Api
open XcmModel

/-- bytes the transport accepted according to a trace -/
def accBytes : List Call → Nat
  | [] => 0
  | .tpSend _ _ (some n) :: t => n + accBytes t
  | _ :: t => accBytes t

/-- transport sends that succeeded -/
def accSends : List Call → Nat
  | [] => 0
  | .tpSend _ _ (some _) :: t => 1 + accSends t
  | _ :: t => accSends t

def hasWait : List Call → Bool
  | [] => false
  | .wait _ :: _ => true
  | _ :: t => hasWait t

theorem accBytes_append (a b : List Call) : accBytes (a ++ b) = accBytes a + accBytes b := by
  induction a with
  | nil => simp [accBytes]
  | cons c t ih =>
    cases c with
    | tpSend o l acc => cases acc <;> simp [accBytes, ih]; omega
    | tpRecv c => simp [accBytes, ih]
    | tpFinish => simp [accBytes, ih]
    | wait c => simp [accBytes, ih]
    | update c => simp [accBytes, ih]

theorem accSends_append (a b : List Call) : accSends (a ++ b) = accSends a + accSends b := by
  induction a with
  | nil => simp [accSends]
  | cons c t ih =>
    cases c with
    | tpSend o l acc => cases acc <;> simp [accSends, ih]; omega
    | tpRecv c => simp [accSends, ih]
    | tpFinish => simp [accSends, ih]
    | wait c => simp [accSends, ih]
    | update c => simp [accSends, ih]

@[simp] theorem accBytes_wait (c : Nat) : accBytes [Call.wait c] = 0 := rfl
@[simp] theorem accBytes_fin : accBytes [Call.tpFinish] = 0 := rfl
@[simp] theorem accSends_wait (c : Nat) : accSends [Call.wait c] = 0 := rfl
@[simp] theorem accSends_fin : accSends [Call.tpFinish] = 0 := rfl

theorem socketWait_trace (cond : Nat) (s : List Ans) (tr : List Call) :
    (socketWait cond s tr).2.2 = tr ++ [.wait cond] := by
  unfold socketWait
  cases h : (next s).1 <;> simp [h]

/-- `socket_finish` never changes what the transport accepted, and an error it returns is the errno
of a failed `poll` or of a failed finish -/
theorem socketFinish_acc (fuel : Nat) (s : List Ans) (tr : List Call) :
    accBytes (socketFinish fuel s tr).2.2 = accBytes tr ∧ accSends (socketFinish fuel s tr).2.2 = accSends tr := by
  induction fuel generalizing s tr with
  | zero => simp [socketFinish]
  | succ n ih =>
    unfold socketFinish
    cases h : (next s).1 with
    | ok k => simp [h, accBytes_append, accSends_append]
    | err e =>
      simp only [h]
      by_cases he : e = EAGAIN ∨ e = EINPROGRESS
      · simp only [he, if_true]
        have hw := socketWait_trace 0 (next s).2 (tr ++ [.tpFinish])
        cases hsw : socketWait 0 (next s).2 (tr ++ [.tpFinish]) with
        | mk o rest =>
          cases rest with
          | mk t' tr2 =>
            rw [hsw] at hw
            simp only at hw
            cases o with
            | some e' => simp [hw, accBytes_append, accSends_append, accBytes, accSends]
            | none =>
              simp only []
              have := ih t' tr2
              rw [this.1, this.2, hw]
              simp [accBytes_append, accSends_append, accBytes, accSends]
      · simp [he, accBytes_append, accSends_append]

/-- **accounting of `bytestream_bsend`**: starting from a trace that accounts for `sent` accepted
bytes, a returned count is exactly the number of bytes the transport accepted, and a failure after the
wait was interrupted is only reported when nothing had been accepted -/
theorem bsend_acc (fuel len sent : Nat) (s : List Ans) (tr : List Call) (h : accBytes tr = sent) :
    (∀ n, (bytestreamBsend fuel len sent s tr).1 = .rc n → accBytes (bytestreamBsend fuel len sent s tr).2.2 = n)
    ∧ accBytes (bytestreamBsend fuel len sent s tr).2.2 ≥ sent := by
  induction fuel generalizing sent s tr with
  | zero => simp [bytestreamBsend, h]
  | succ f ih =>
    unfold bytestreamBsend
    cases ha : (next s).1 with
    | ok k =>
      simp only [ha]
      generalize clampK k (len - sent) = m
      by_cases hlt : sent + m < len
      · simp only [hlt, if_true]
        have := ih (sent + m) (next s).2 (tr ++ [.tpSend sent (len - sent) (some m)])
          (by simp [accBytes_append, accBytes, h])
        exact ⟨this.1, by omega⟩
      · simp only [hlt, if_false]
        constructor
        · intro n hn
          cases hn
          simp [accBytes_append, accBytes, h]
        · simp [accBytes_append, accBytes, h]
    | err e =>
      simp only [ha]
      by_cases he : e ≠ EAGAIN
      · simp [he, accBytes_append, accBytes, h]
      · simp only [he, if_false]
        have hw := socketWait_trace Generated.XCM_SO_SENDABLE (next s).2 (tr ++ [.tpSend sent (len - sent) none])
        cases hsw : socketWait Generated.XCM_SO_SENDABLE (next s).2 (tr ++ [.tpSend sent (len - sent) none]) with
        | mk o rest =>
          cases rest with
          | mk t' tr2 =>
            rw [hsw] at hw
            simp only at hw
            cases o with
            | some e' =>
              simp only []
              constructor
              · intro n hn
                split at hn
                · cases hn; simp [hw, accBytes_append, accBytes, h]
                · cases hn
              · simp [hw, accBytes_append, accBytes, h]
            | none =>
              simp only []
              exact ih sent t' tr2 (by simp [hw, accBytes_append, accBytes, h])

/-- `msg_bsend`: success means exactly one more accepted send, failure means none more -/
theorem msgBsend_acc (fuel len : Nat) (s : List Ans) (tr : List Call) :
    (∀ n, (msgBsend fuel len s tr).1 = .rc n → accSends (msgBsend fuel len s tr).2.2 = accSends tr + 1)
    ∧ (∀ e, (msgBsend fuel len s tr).1 = .err e → accSends (msgBsend fuel len s tr).2.2 = accSends tr) := by
  induction fuel generalizing s tr with
  | zero => simp [msgBsend]
  | succ f ih =>
    unfold msgBsend
    cases ha : (next s).1 with
    | ok k => simp [ha, accSends_append, accSends]
    | err e =>
      simp only [ha]
      by_cases he : e ≠ EAGAIN
      · simp [he, accSends_append, accSends]
      · simp only [he, if_false]
        have hw := socketWait_trace Generated.XCM_SO_SENDABLE (next s).2 (tr ++ [.tpSend 0 len none])
        cases hsw : socketWait Generated.XCM_SO_SENDABLE (next s).2 (tr ++ [.tpSend 0 len none]) with
        | mk o rest =>
          cases rest with
          | mk t' tr2 =>
            rw [hsw] at hw
            simp only at hw
            cases o with
            | some e' => simp [hw, accSends_append, accSends]
            | none =>
              simp only []
              subst hw
              have := ih t' (tr ++ [.tpSend 0 len none] ++ [.wait Generated.XCM_SO_SENDABLE])
              simpa [accSends_append, accSends] using this


theorem finishAfter_spec (r : Res × List Ans × List Call) :
    accBytes (finishAfter r).2 = accBytes r.2.2 ∧ accSends (finishAfter r).2 = accSends r.2.2
    ∧ (∀ n, (finishAfter r).1 = .rc n → r.1 = .rc n)
    ∧ (∀ e, (finishAfter r).1 = .err e → r.1 = .err e ∨ ((∃ n, r.1 = .rc n) ∧ e ≠ EINTR)) := by
  obtain ⟨res, t, tr⟩ := r
  cases res with
  | err e => simp [finishAfter]
  | rc n =>
    have hf := socketFinish_acc (fuelOf t) t tr
    simp only [finishAfter]
    cases hsf : socketFinish (fuelOf t) t tr with
    | mk r2 rest2 =>
      obtain ⟨t2, tr2⟩ := rest2
      rw [hsf] at hf
      simp only at hf
      cases r2 with
      | rc k => simp [hf.1, hf.2]
      | err e2 =>
        simp only []
        refine ⟨hf.1, hf.2, ?_, ?_⟩
        · intro m hm; split at hm <;> simp_all
        · intro e he
          split at he
          · cases he
          · cases he; right; exact ⟨⟨n, rfl⟩, by assumption⟩

end XcmModel.Api
