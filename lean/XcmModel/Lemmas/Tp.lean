import XcmModel.Tp
namespace XcmModel.Tp
open XcmModel

theorem considerCtl_auto (s : Sock) (p t : Bool) : (considerCtl s p t).1.auto = s.auto := by
  unfold considerCtl
  split
  · rfl
  split
  · rfl
  simp only
  split <;> split <;> rfl

theorem last_cons_append {α : Type} (x : α) (c : List α) (u : α) : (x :: (c ++ [u])).getLast? = some u := by
  have : x :: (c ++ [u]) = (x :: c) ++ [u] := rfl
  rw [this, List.getLast?_concat]

theorem last_append2 {α : Type} (a c : List α) (u : α) : (a ++ (c ++ [u])).getLast? = some u := by
  rw [← List.append_assoc, List.getLast?_concat]

/-- every send/receive/finish on an auto_update socket ends by re-evaluating the registrations, whatever the
transport answered and whether or not the control interface ran -/
theorem update_last_send (s : Sock) (a : Ans) (h : s.auto = true) : (send s a).2.getLast? = some .update := by
  unfold send
  have := considerCtl_auto s (a == .fail) (a == .again)
  generalize considerCtl s (a == .fail) (a == .again) = r at this
  obtain ⟨s1, c⟩ := r
  simp only at this ⊢
  simp only [autoUpdate, this, h, if_true, List.cons_append, List.nil_append]
  exact last_cons_append _ _ _

theorem update_last_receive (s : Sock) (a : Ans) (h : s.auto = true) : (receive s a).2.getLast? = some .update := by
  unfold receive
  have := considerCtl_auto s (a == .zero || a == .fail) (a == .again)
  generalize considerCtl s (a == .zero || a == .fail) (a == .again) = r at this
  obtain ⟨s1, c⟩ := r
  simp only at this ⊢
  simp only [autoUpdate, this, h, if_true, List.cons_append, List.nil_append]
  exact last_cons_append _ _ _

theorem update_last_finish (s : Sock) (a : Ans) (h : s.auto = true) : (finish s a).2.getLast? = some .update := by
  unfold finish
  have := considerCtl_auto s (a == .fail) (a == .again)
  generalize considerCtl s (a == .fail) (a == .again) = r at this
  obtain ⟨s1, c⟩ := r
  simp only at this ⊢
  simp only [autoUpdate, this, h, if_true, List.cons_append, List.nil_append]
  exact last_cons_append _ _ _

theorem update_last_connect (s : Sock) (a : Ans) (h : s.auto = true) (ok : isFail a = false) :
    (connect s a).2.getLast? = some .update := by
  unfold connect
  simp only [ok]
  by_cases hc : s.autoCtl = true
  · simp only [autoEnableCtl, hc, if_true, autoUpdate, h, Bool.false_eq_true, if_false]
    exact List.getLast?_concat ..
  · simp only [autoEnableCtl, hc, if_false, autoUpdate, h, if_true, Bool.false_eq_true, List.nil_append]
    exact List.getLast?_concat ..

theorem accept_updates (conn srv : Sock) (a : Ans) :
    (accept conn srv a).2.2.getLast? = some .updateServer ∧
    (conn.auto = true → isFail a = false → Call.update ∈ (accept conn srv a).2.2) := by
  unfold accept
  refine ⟨?_, fun h ok => ?_⟩
  · simp only
    exact List.getLast?_concat ..
  · simp only [ok, Bool.false_eq_true, if_false]
    by_cases hc : conn.autoCtl = true <;> simp [autoEnableCtl, hc, autoUpdate, h]

end XcmModel.Tp
