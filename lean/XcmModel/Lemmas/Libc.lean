import XcmModel.Libc
/-! Helper lemmas about the libc models (decimal printing and `strtol`). -/
namespace XcmModel.Libc
open XcmModel

theorem ofNat_toNat_lt {n : Nat} (h : n < 256) : (UInt8.ofNat n).toNat = n := by
  simp [UInt8.toNat_ofNat, Nat.mod_eq_of_lt h]

theorem isDigit_ofNat {d : Nat} (h : d < 10) : isDigit (UInt8.ofNat (48 + d)) = true := by
  have h1 : (UInt8.ofNat (48 + d)).toNat = 48 + d := ofNat_toNat_lt (by omega)
  simp only [isDigit, Bool.and_eq_true, decide_eq_true_eq, UInt8.le_iff_toNat_le, h1]
  constructor
  · show (48 : UInt8).toNat ≤ 48 + d; simp
  · show 48 + d ≤ (57 : UInt8).toNat; simp; omega

theorem digitVal_ofNat {d : Nat} (h : d < 10) : digitVal (UInt8.ofNat (48 + d)) = d := by
  unfold digitVal
  rw [ofNat_toNat_lt (show 48 + d < 256 by omega)]
  omega

theorem decRev_digits : ∀ fuel n, ∀ c ∈ decRev fuel n, isDigit c = true := by
  intro fuel
  induction fuel with
  | zero => intro n c h; simp [decRev] at h
  | succ f ih =>
    intro n c h
    simp only [decRev] at h
    split at h
    · simp only [List.mem_singleton] at h; subst h; exact isDigit_ofNat (by omega)
    · simp only [List.mem_cons] at h
      rcases h with h | h
      · subst h; exact isDigit_ofNat (Nat.mod_lt _ (by omega))
      · exact ih _ _ h

theorem decRev_ne_nil (fuel n : Nat) : decRev (fuel + 1) n ≠ [] := by
  simp only [decRev]; split <;> simp

theorem decRev_val : ∀ fuel n, n < fuel →
    (decRev fuel n).foldr (fun d a => a * 10 + digitVal d) 0 = n := by
  intro fuel
  induction fuel with
  | zero => intro n h; omega
  | succ f ih =>
    intro n h
    simp only [decRev]
    split
    · rename_i h10
      simp only [List.foldr_cons, List.foldr_nil]
      rw [digitVal_ofNat h10]; omega
    · rename_i h10
      simp only [List.foldr_cons]
      rw [ih (n / 10) (by omega), digitVal_ofNat (Nat.mod_lt _ (by omega))]
      omega

theorem natToDec_digits (n : Nat) : ∀ c ∈ natToDec n, isDigit c = true := by
  intro c h
  simp only [natToDec, List.mem_reverse] at h
  exact decRev_digits _ _ _ h

theorem natToDec_ne_nil (n : Nat) : natToDec n ≠ [] := by
  simp only [natToDec, ne_eq, List.reverse_eq_nil_iff]
  exact decRev_ne_nil n n

theorem digitsVal_natToDec (n : Nat) : digitsVal (natToDec n) = n := by
  simp only [digitsVal, natToDec, List.foldl_reverse]
  exact decRev_val (n + 1) n (by omega)

/-- number of decimal digits is minimal: `n < 10^k` and `k ≥ 1` give at most `k` digits -/
theorem decRev_length : ∀ fuel n k, n < fuel → 1 ≤ k → n < 10 ^ k → (decRev fuel n).length ≤ k := by
  intro fuel
  induction fuel with
  | zero => intro n k h; omega
  | succ f ih =>
    intro n k h hk hn
    simp only [decRev]
    split
    · simpa using hk
    · rename_i h10
      simp only [List.length_cons]
      have hk2 : 2 ≤ k := by
        rcases Nat.lt_or_ge k 2 with h' | h'
        · have : k = 1 := by omega
          subst this; simp at hn; omega
        · exact h'
      have : n / 10 < 10 ^ (k - 1) := by
        have : 10 ^ k = 10 ^ (k - 1) * 10 := by
          rw [← Nat.pow_succ]; congr 1; omega
        rw [this] at hn
        exact Nat.div_lt_of_lt_mul (by rw [Nat.mul_comm]; exact hn)
      have := ih (n / 10) (k - 1) (by omega) (by omega) this
      omega

theorem digitVal_lt {c : UInt8} (h : isDigit c = true) : digitVal c < 10 := by
  simp only [isDigit, Bool.and_eq_true, decide_eq_true_eq, UInt8.le_iff_toNat_le] at h
  have h2 : c.toNat ≤ 57 := h.2
  simp only [digitVal]; omega

theorem foldl_digits_lt (ds : Bytes) (a : Nat) (h : ∀ c ∈ ds, isDigit c = true) :
    ds.foldl (fun a d => a * 10 + digitVal d) a < (a + 1) * 10 ^ ds.length := by
  induction ds generalizing a with
  | nil => simp
  | cons d ds ih =>
    simp only [List.foldl_cons, List.length_cons]
    have h1 := ih (a * 10 + digitVal d) (fun c hc => h c (List.mem_cons_of_mem _ hc))
    have h2 := digitVal_lt (h d (by simp))
    have h3 : (a * 10 + digitVal d + 1) * 10 ^ ds.length ≤ ((a + 1) * 10) * 10 ^ ds.length :=
      Nat.mul_le_mul_right _ (by omega)
    rw [Nat.pow_succ, Nat.mul_comm (10 ^ ds.length) 10, ← Nat.mul_assoc]
    omega

theorem digitsVal_lt_pow (ds : Bytes) (h : ∀ c ∈ ds, isDigit c = true) :
    digitsVal ds < 10 ^ ds.length := by
  have := foldl_digits_lt ds 0 h
  simpa [digitsVal] using this

/-- printing the value of a digit string never needs more characters than the string -/
theorem natToDec_digitsVal_length (ds : Bytes) (hne : ds ≠ []) (h : ∀ c ∈ ds, isDigit c = true) :
    (natToDec (digitsVal ds)).length ≤ ds.length := by
  simp only [natToDec, List.length_reverse]
  apply decRev_length _ _ _ (by omega) _ (digitsVal_lt_pow ds h)
  cases ds with
  | nil => exact absurd rfl hne
  | cons _ _ => simp

theorem isDigit_not_space {c : UInt8} (h : isDigit c = true) : isSpace c = false := by
  simp only [isDigit, Bool.and_eq_true, decide_eq_true_eq, UInt8.le_iff_toNat_le] at h
  have h1 : 48 ≤ c.toNat := h.1
  simp only [isSpace, Bool.or_eq_false_iff, beq_eq_false_iff_ne, ne_eq, Bool.and_eq_false_iff,
    decide_eq_false_iff_not, UInt8.le_iff_toNat_le]
  refine ⟨?_, Or.inr ?_⟩
  · intro e; subst e; simp at h1
  · show ¬ c.toNat ≤ 13; omega

theorem isDigit_ne_sign {c : UInt8} (h : isDigit c = true) : c ≠ 45 ∧ c ≠ 43 := by
  simp only [isDigit, Bool.and_eq_true, decide_eq_true_eq, UInt8.le_iff_toNat_le] at h
  have h1 : 48 ≤ c.toNat := h.1
  constructor <;> (intro e; subst e; simp at h1)

/-- `strtol` on a non-empty digit string followed by a non-digit (or the end): the value of
the digits (clamped at `LONG_MAX`), all digits consumed -/
theorem strtol_digits (ds rest : Bytes) (hne : ds ≠ []) (h : ∀ c ∈ ds, isDigit c = true)
    (hr : ∀ c, rest.head? = some c → isDigit c = false) :
    strtol (ds ++ rest) =
      ((if digitsVal ds > LONG_MAX then (LONG_MAX : Int) else (digitsVal ds : Int)), ds.length) := by
  obtain ⟨d, ds', rfl⟩ := List.exists_cons_of_ne_nil hne
  have hd : isDigit d = true := h d (by simp)
  have htw : ((d :: ds') ++ rest).takeWhile isDigit = d :: ds' := by
    rw [List.takeWhile_append_of_pos (by simpa using h)]
    cases rest with
    | nil => simp
    | cons r rs =>
      have := hr r rfl
      simp [List.takeWhile_cons, this]
  have hs : isSpace d = false := isDigit_not_space hd
  have h1 : ((d :: ds') ++ rest).takeWhile isSpace = [] := by simp [List.takeWhile_cons, hs]
  have h2 : ((d :: ds') ++ rest).dropWhile isSpace = (d :: ds') ++ rest := by
    simp [List.dropWhile_cons, hs]
  have hsg := isDigit_ne_sign hd
  have h3 : strtolSign ((d :: ds') ++ rest) = (false, (d :: ds') ++ rest, 0) := by
    simp only [strtolSign, List.cons_append]
    split
    · rename_i heq; simp only [List.cons.injEq] at heq; exact absurd heq.1 hsg.1
    · rename_i heq; simp only [List.cons.injEq] at heq; exact absurd heq.1 hsg.2
    · rfl
  simp only [strtol, h1, h2, h3, htw, strtolVal]
  simp

end XcmModel.Libc
