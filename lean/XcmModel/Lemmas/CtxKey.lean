import XcmModel.CtxKey
namespace XcmModel.CtxKey
open XcmModel

theorem splitNul_append (s r : Bytes) (h : NoNul s) : splitNul (s ++ 0 :: r) = some (s, r) := by
  induction s with
  | nil => simp [splitNul]
  | cons b t ih =>
    have hb : b ≠ 0 := by intro e; apply h; simp [e]
    have ht : NoNul t := by intro e; apply h; simp [e]
    simp [splitNul, hb, ih ht]

theorem take_append_len (a b : Bytes) (n : Nat) (h : a.length = n) : (a ++ b).take n = a ∧ (a ++ b).drop n = b := by
  subst h; simp

theorem dec_enc (v : View) (h : v.WF) (rest : Bytes) : dec (enc v ++ rest) = some (v, rest) := by
  cases v with
  | none => simp [enc, tag, dec]
  | value x =>
    simp only [View.WF] at h
    have := splitNul_append x rest h
    simp [enc, tag, dec, this]
  | file n st =>
    obtain ⟨hn, hs⟩ := h
    have e1 := splitNul_append n (0 :: (st ++ rest)) hn
    have e2 := take_append_len st rest STATLEN hs
    simp [enc, tag, dec, decFile, e1, e2.1, e2.2]
  | link n l t =>
    obtain ⟨hn, hl, ht⟩ := h
    have e1 := splitNul_append n (1 :: (l ++ (n ++ 0 :: 0 :: (t ++ rest)))) hn
    have e2 := take_append_len l (n ++ 0 :: 0 :: (t ++ rest)) STATLEN hl
    have e3 := splitNul_append n (0 :: (t ++ rest)) hn
    have e4 := take_append_len t rest STATLEN ht
    simp [enc, tag, dec, decFile, e1, e2.1, e2.2, e3, e4.1, e4.2]

theorem decCfg_encCfg (c : List View) (h : ∀ v ∈ c, v.WF) (rest : Bytes) :
    decCfg c.length (encCfg c ++ rest) = some (c, rest) := by
  induction c with
  | nil => simp [decCfg, encCfg]
  | cons v t ih =>
    have hv := h v (List.mem_cons_self)
    have ht : ∀ x ∈ t, x.WF := fun x hx => h x (List.mem_cons_of_mem _ hx)
    have : encCfg (v :: t) ++ rest = enc v ++ (encCfg t ++ rest) := by simp [encCfg]
    rw [this]
    simp [decCfg, dec_enc v hv, ih ht]

end XcmModel.CtxKey
