import XcmModel.Basic
import XcmModel.Generated.Consts
/-
  Model of the blocking/non-blocking wrappers of libxcm/core/xcm.c:
  `socket_wait`, `socket_finish`, `bytestream_bsend`, `msg_bsend`, `xcm_send`, `xcm_receive`,
  `xcm_finish`, `xcm_await`, `xcm_set_blocking`.

  The transport below (`xcm_tp_socket_send/receive/finish/update`) and `poll()` are the environment:
  every call the wrapper makes consumes the next answer of an adversarial script
  (`ok k` | `err errno`); an exhausted script answers `ok` ("everything completes"), which is what
  makes every loop terminate and lets the model be a total function with fuel = script length + 2.
  The calls made are recorded in a trace, so theorems can speak about *which* calls happen
  (no `wait` on a non-blocking socket, which byte ranges are offered, what was accepted before a
  failure).
-/
namespace XcmModel.Api
open XcmModel

inductive Ans where
  | ok (k : Nat)
  | err (e : Nat)
  deriving DecidableEq, Repr

inductive Call where
  | tpSend (off len : Nat) (accepted : Option Nat)   -- xcm_tp_socket_send(buf+off, len): `some k` bytes (0 for a message) accepted
  | tpRecv (cap : Nat)
  | tpFinish
  | wait (cond : Nat)                                 -- socket_wait: await(cond) + poll(xpoll fd, -1)
  | update (cond : Nat)                               -- await(cond) alone
  deriving DecidableEq, Repr

structure Sock where
  blocking : Bool
  bytestream : Bool
  deriving DecidableEq, Repr

inductive Res where
  | rc (n : Nat)
  | err (e : Nat)
  deriving DecidableEq, Repr

def EAGAIN := Generated.EAGAIN
def EINPROGRESS := Generated.EINPROGRESS
def EINVAL := Generated.EINVAL
def EINTR := Generated.EINTR

/-- how many bytes a byte-stream transport accepts of `left` offered when its answer is `ok k` -/
def clampK (k left : Nat) : Nat := if left = 0 then 0 else max 1 (min k left)

def next (script : List Ans) : Ans × List Ans :=
  match script with
  | [] => (.ok 1000000000, [])
  | a :: t => (a, t)

/-- `socket_wait`: returns `none` on success, `some errno` when poll fails -/
def socketWait (cond : Nat) (script : List Ans) (tr : List Call) : Option Nat × List Ans × List Call :=
  let (a, t) := next script
  match a with
  | .ok _ => (none, t, tr ++ [.wait cond])
  | .err e => (some e, t, tr ++ [.wait cond])

/-- `socket_finish` -/
def socketFinish : Nat → List Ans → List Call → Res × List Ans × List Call
  | 0, s, tr => (.err EAGAIN, s, tr)
  | fuel + 1, s, tr =>
    let (a, t) := next s
    let tr1 := tr ++ [.tpFinish]
    match a with
    | .ok _ => (.rc 0, t, tr1)
    | .err e =>
      if e = EAGAIN ∨ e = EINPROGRESS then
        match socketWait 0 t tr1 with
        | (some e', t', tr2) => (.err e', t', tr2)
        | (none, t', tr2) => socketFinish fuel t' tr2
      else (.err e, t, tr1)

/-- `bytestream_bsend`; `sent` is the running total -/
def bytestreamBsend : Nat → Nat → Nat → List Ans → List Call → Res × List Ans × List Call
  | 0, _, _, s, tr => (.err EAGAIN, s, tr)
  | fuel + 1, len, sent, s, tr =>
    let left := len - sent
    let (a, t) := next s
    match a with
    | .ok k =>
      let n := clampK k left
      let tr1 := tr ++ [.tpSend sent left (some n)]
      if sent + n < len then bytestreamBsend fuel len (sent + n) t tr1
      else (.rc (sent + n), t, tr1)
    | .err e =>
      let tr1 := tr ++ [.tpSend sent left none]
      if e ≠ EAGAIN then (.err e, t, tr1)
      else
        match socketWait Generated.XCM_SO_SENDABLE t tr1 with
        | (some e', t', tr2) => (if sent > 0 then .rc sent else .err e', t', tr2)
        | (none, t', tr2) => bytestreamBsend fuel len sent t' tr2

/-- `msg_bsend` -/
def msgBsend : Nat → Nat → List Ans → List Call → Res × List Ans × List Call
  | 0, _, s, tr => (.err EAGAIN, s, tr)
  | fuel + 1, len, s, tr =>
    let (a, t) := next s
    match a with
    | .ok _ => (.rc 0, t, tr ++ [.tpSend 0 len (some 0)])
    | .err e =>
      let tr1 := tr ++ [.tpSend 0 len none]
      if e ≠ EAGAIN then (.err e, t, tr1)
      else
        match socketWait Generated.XCM_SO_SENDABLE t tr1 with
        | (some e', t', tr2) => (.err e', t', tr2)
        | (none, t', tr2) => msgBsend fuel len t' tr2

def fuelOf (script : List Ans) : Nat := 2 * script.length + 4

/-- the tail of the blocking `xcm_send`: `if (rc >= 0 && socket_finish(s) < 0 && errno != EINTR) return -1; return rc;` -/
def finishAfter (r : Res × List Ans × List Call) : Res × List Call :=
  match r with
  | (.err e, _, tr) => (.err e, tr)
  | (.rc n, t, tr) =>
    match socketFinish (fuelOf t) t tr with
    | (.err e, _, tr2) => (if e = EINTR then .rc n else .err e, tr2)
    | (.rc _, _, tr2) => (.rc n, tr2)

/-- `xcm_send` -/
def send (sk : Sock) (len : Nat) (script : List Ans) : Res × List Call :=
  if sk.blocking then
    finishAfter (if sk.bytestream then bytestreamBsend (fuelOf script) len 0 script []
                 else msgBsend (fuelOf script) len script [])
  else
    let (a, _) := next script
    match a with
    | .ok k =>
      let n := if sk.bytestream then clampK k len else 0
      (.rc n, [.tpSend 0 len (some n)])
    | .err e => (.err e, [.tpSend 0 len none])

/-- blocking `xcm_receive` loop -/
def brecv : Nat → Nat → List Ans → List Call → Res × List Ans × List Call
  | 0, _, s, tr => (.err EAGAIN, s, tr)
  | fuel + 1, cap, s, tr =>
    match socketWait Generated.XCM_SO_RECEIVABLE s tr with
    | (some e, t, tr1) => (.err e, t, tr1)
    | (none, t, tr1) =>
      let (a, t2) := next t
      let tr2 := tr1 ++ [.tpRecv cap]
      match a with
      | .ok k => (.rc (min k cap), t2, tr2)
      | .err e => if e = EAGAIN then brecv fuel cap t2 tr2 else (.err e, t2, tr2)

/-- `xcm_receive` -/
def receive (sk : Sock) (cap : Nat) (script : List Ans) : Res × List Call :=
  if sk.blocking then
    let (r, _, tr) := brecv (fuelOf script) cap script []
    (r, tr)
  else
    let (a, _) := next script
    match a with
    | .ok k => (.rc (min k cap), [.tpRecv cap])
    | .err e => (.err e, [.tpRecv cap])

/-- `xcm_finish` -/
def finish (sk : Sock) (script : List Ans) : Res × List Call :=
  if sk.blocking then (.err EINVAL, [])
  else
    let (a, _) := next script
    match a with
    | .ok _ => (.rc 0, [.tpFinish])
    | .err e => (.err e, [.tpFinish])

/-- `xcm_await` (condition validity is checked by a macro not modelled here: valid conditions only) -/
def await (sk : Sock) (cond : Nat) : Res × List Call :=
  if sk.blocking then (.err EINVAL, []) else (.rc 0, [.update cond])

/-- `xcm_set_blocking` -/
def setBlocking (sk : Sock) (should : Bool) (script : List Ans) : Sock × Res × List Call :=
  if sk.blocking = should then (sk, .rc 0, [])
  else if !sk.blocking then
    match socketFinish (fuelOf script) script [] with
    | (.err e, _, tr) => (sk, .err e, tr)
    | (.rc _, _, tr) => ({ sk with blocking := should }, .rc 0, tr)
  else ({ sk with blocking := should }, .rc 0, [])

end XcmModel.Api
