import XcmModel.Libc
import XcmModel.Generated.Consts
/-
  Model of libxcm/core/xcm_addr.c (+ xcm_dns_is_valid_name): address make / parse /
  is_valid for the six host:port transports and ux/uxf.

  `inet_pton`/`inet_ntop` are *parameters* (`IpText`): the theorems assume the round-trip
  laws stated in `IpText.Laws`, which the correspondence harness validates against glibc.
  An executable IPv4 instance is defined here for the driver; IPv6 text conversion is
  supplied to the driver as a table computed by the real libc.
-/
namespace XcmModel.Addr
open XcmModel XcmModel.Libc

/-- text conversions of the C library -/
structure IpText where
  ntop4 : Nat → Bytes
  pton4 : Bytes → Option Nat
  ntop6 : Bytes → Bytes
  pton6 : Bytes → Option Bytes

inductive Host where
  | name (s : Bytes)
  | ip4 (a : Nat)          -- the four address bytes as a big-endian number
  | ip6 (a : Bytes)        -- 16 bytes
  deriving DecidableEq, Repr

def colon : UInt8 := 58
def star : Bytes := [42]
def zeros16 : Bytes := List.replicate 16 0

/-- `strchr(s, c)` as an index -/
def idxOf (c : UInt8) : Bytes → Option Nat
  | [] => none
  | x :: t => if x = c then some 0 else (idxOf c t).map (· + 1)

/-- `strrchr(s, c)` as an index -/
def lastIdxOf (c : UInt8) : Bytes → Option Nat
  | [] => none
  | x :: t =>
    match lastIdxOf c t with
    | some i => some (i + 1)
    | none => if x = c then some 0 else none

def hasSpace (s : Bytes) : Bool := s.any isSpace

/-! ### DNS name syntax: the POSIX ERE `^[a-z0-9\-]+(\.[a-z0-9\-]+\.?)*$` with REG_ICASE -/

/-- the bracket expression `[a-z0-9\-]` under REG_ICASE.  In a POSIX bracket expression the
backslash is an ordinary character, so the set the code really uses also contains `\`
(found by the correspondence run: `sctp:\b:1` is accepted); the model follows the code. -/
def isLabelChar (c : UInt8) : Bool :=
  (97 ≤ c && c ≤ 122) || (65 ≤ c && c ≤ 90) || (48 ≤ c && c ≤ 57) || c == 45 || c == 92

/-- matches `(\.[a-z0-9\-]+\.?)*$` -/
def dnsRest : Nat → Bytes → Bool
  | 0, _ => false
  | _ + 1, [] => true
  | fuel + 1, c :: t =>
    if c = 46 then
      let l := t.takeWhile isLabelChar
      if l.isEmpty then false
      else
        let r := t.drop l.length
        dnsRest fuel r || (match r with
          | 46 :: r' => dnsRest fuel r'
          | _ => false)
    else false

def dnsValid (s : Bytes) : Bool :=
  if s.length > Generated.DNS_MAX_LEN then false
  else
    let l := s.takeWhile isLabelChar
    !l.isEmpty && dnsRest (s.length + 1) (s.drop l.length)

/-! ### executable IPv4 text conversion (glibc `inet_pton4` / `inet_ntop4`) -/

def ntop4 (a : Nat) : Bytes :=
  natToDec (a / 16777216 % 256) ++ [46] ++ natToDec (a / 65536 % 256) ++ [46] ++
    natToDec (a / 256 % 256) ++ [46] ++ natToDec (a % 256)

/-- one octet of dotted-decimal as glibc accepts it: 1-3 digits, no leading zero on a
multi-digit number, value ≤ 255 -/
def octet (s : Bytes) : Option Nat :=
  if s.isEmpty || s.length > 3 || !s.all isDigit then none
  else if s.length > 1 && s.head? == some 48 then none
  else if digitsVal s > 255 then none else some (digitsVal s)

def splitOn (c : UInt8) : Bytes → List Bytes
  | [] => [[]]
  | x :: t =>
    if x = c then [] :: splitOn c t
    else match splitOn c t with
      | [] => [[x]]
      | h :: r => (x :: h) :: r

def pton4 (s : Bytes) : Option Nat :=
  match splitOn 46 s with
  | [a, b, c, d] => do
    let a ← octet a
    let b ← octet b
    let c ← octet c
    let d ← octet d
    pure (a * 16777216 + b * 65536 + c * 256 + d)
  | _ => none

/-! ### parsing -/

inductive PErr where
  | inval | toolong
  deriving DecidableEq, Repr

/-- `proto_addr_parse`: splits at the first ':' -/
def protoAddrParse (s : Bytes) (protoCap addrCap : Nat) : Except PErr (Bytes × Bytes) :=
  if s.length > Generated.XCM_ADDR_MAX || hasSpace s then .error .inval
  else match idxOf colon s with
    | none => .error .inval
    | some i =>
      if i > Generated.XCM_ADDR_MAX_PROTO_LEN then .error .inval
      else if i ≥ protoCap then .error .toolong
      else
        let rest := s.drop (i + 1)
        if rest.length ≥ addrCap then .error .toolong
        else .ok (s.take i, rest)

/-- `xcm_addr_parse_proto(addr, proto, capacity)` -/
def parseProto (s : Bytes) (cap : Nat) : Except PErr Bytes :=
  (protoAddrParse s cap (Generated.XCM_ADDR_MAX + 1)).map (·.1)

/-- `addr_parse_ux_uxf` -/
def parseUx (proto : Bytes) (s : Bytes) (cap : Nat) : Except PErr Bytes :=
  match protoAddrParse s (Generated.XCM_ADDR_MAX_PROTO_LEN + 1) (Generated.XCM_ADDR_MAX + 1) with
  | .error e => .error e
  | .ok (p, name) =>
    if p ≠ proto || name.length > Generated.UX_NAME_MAX || name.length == 0 then .error .inval
    else if name.length ≥ cap then .error .toolong
    else .ok name

/-- `host_parse` -/
def hostParse (ip : IpText) (h : Bytes) : Option Host :=
  if h.isEmpty then none
  else if h.head? = some 91 then
    if h.length < 2 || h.getLast? ≠ some 93 then none
    else
      let inner := (h.drop 1).dropLast
      if inner = star then some (.ip6 zeros16)
      else match ip.pton6 inner with
        | some a => some (.ip6 a)
        | none => none
  else if h = star then some (.ip4 0)
  else match ip.pton4 h with
    | some a => some (.ip4 a)
    | none => if dnsValid h then some (.name h) else none

/-- the port field of `host_port_parse`: all of it must be a decimal number that starts with
a digit; the value is a C `long` compared with 0..65535 -/
def portParse (p : Bytes) : Option Nat :=
  match p.head? with
  | none => none
  | some c =>
    if !isDigit c then none
    else
      let (v, n) := strtol p
      if n ≠ p.length then none
      else if v < 0 || v > 65535 then none
      else some v.toNat

/-- `host_port_parse` -/
def hostPortParse (ip : IpText) (proto : Bytes) (s : Bytes) : Except PErr (Host × Nat) :=
  match protoAddrParse s (Generated.XCM_ADDR_MAX_PROTO_LEN + 1) (Generated.XCM_ADDR_MAX + 1) with
  | .error e => .error e
  | .ok (p, paddr) =>
    if p ≠ proto then .error .inval
    else match lastIdxOf colon paddr with
      | none => .error .inval
      | some i =>
        match portParse (paddr.drop (i + 1)) with
        | none => .error .inval
        | some port =>
          if i > Generated.XCM_ADDR_MAX_HOST_LEN || i == 0 then .error .inval
          else match hostParse ip (paddr.take i) with
            | none => .error .inval
            | some h => .ok (h, port)

/-! ### making -/

/-- `snprintf(buf, cap, "%s", str)`: bytes stored in `buf` and the return value -/
def snprintf (cap : Nat) (str : Bytes) : Bytes × Nat :=
  (if cap = 0 then [] else str.take (cap - 1) ++ [0], str.length)

def hostStr (ip : IpText) : Host → Bytes
  | .name s => s
  | .ip4 a => ip.ntop4 a
  | .ip6 a => [91] ++ ip.ntop6 a ++ [93]

/-- the complete address text -/
def hostPortStr (ip : IpText) (proto : Bytes) (h : Host) (port : Nat) : Bytes :=
  proto ++ [colon] ++ hostStr ip h ++ [colon] ++ natToDec port

inductive MakeResult where
  | ok (buf : Bytes)                 -- rc 0, buffer content (NUL included)
  | toolong (written : Nat)          -- -1/ENAMETOOLONG, bytes of the buffer touched
  | inval
  deriving DecidableEq, Repr

/-- `name_port_make` / `ip_port_make` -/
def hostPortMake (ip : IpText) (proto : Bytes) (h : Host) (port : Nat) (cap : Nat) : MakeResult :=
  let (buf, rc) := snprintf cap (hostPortStr ip proto h port)
  if rc ≥ cap then .toolong buf.length else .ok buf

/-- `addr_make_ux_uxf` -/
def uxMake (proto : Bytes) (name : Bytes) (cap : Nat) : MakeResult :=
  if name.length > Generated.UNIX_PATH_MAX - 1 then .inval
  else
    let (buf, rc) := snprintf cap (proto ++ [colon] ++ name)
    if rc ≥ cap then .toolong buf.length else .ok buf

/-! ### validity -/

def pTcp : Bytes := [116, 99, 112]
def pTls : Bytes := [116, 108, 115]
def pUtls : Bytes := [117, 116, 108, 115]
def pSctp : Bytes := [115, 99, 116, 112]
def pBtcp : Bytes := [98, 116, 99, 112]
def pBtls : Bytes := [98, 116, 108, 115]
def pUx : Bytes := [117, 120]
def pUxf : Bytes := [117, 120, 102]

def hostPortProtos : List Bytes := [pTcp, pTls, pUtls, pSctp, pBtcp, pBtls]
def uxProtos : List Bytes := [pUx, pUxf]

/-- `xcm_addr_is_valid` (note the proto buffer of only `XCM_ADDR_MAX_PROTO_LEN` bytes) -/
def isValid (ip : IpText) (s : Bytes) : Bool :=
  match parseProto s Generated.XCM_ADDR_MAX_PROTO_LEN with
  | .error _ => false
  | .ok p =>
    if hostPortProtos.contains p then
      match hostPortParse ip p s with | .ok _ => true | .error _ => false
    else if uxProtos.contains p then
      match parseUx p s (Generated.XCM_ADDR_MAX + 1) with | .ok _ => true | .error _ => false
    else false

end XcmModel.Addr
