import XcmModel.Wire
/-
  Model of libxcm/tp/tcp/xcm_tp_tcp.c (textually the same program as
  libxcm/tp/tls/xcm_tp_tls.c): message framing over an abstract byte-stream lower layer
  (the btcp / btls socket).

  The lower layer is the *environment*: `Env.rx` holds the byte segments that have
  arrived and not been read (one `xcm_tp_socket_receive` never crosses a segment, which
  covers TLS records and short reads), `Env.rxEnd` an end-of-stream or error condition
  seen once `rx` is drained, `Env.tx` (ghost) every byte the lower layer has accepted so
  far.  How many bytes a lower `send` accepts is an adversarial *answer script*
  (`List SAns`), consumed left to right, one answer per lower call; an exhausted script
  answers EAGAIN.
-/
namespace XcmModel.Framing
open XcmModel XcmModel.Wire

structure Cnts where
  toAppB : Nat := 0
  fromAppB : Nat := 0
  toLowerB : Nat := 0
  fromLowerB : Nat := 0
  toAppM : Nat := 0
  fromAppM : Nat := 0
  toLowerM : Nat := 0
  fromLowerM : Nat := 0
  deriving DecidableEq, Repr

/-- `struct tcp_socket.conn` -/
structure St where
  bad : Option Nat := none      -- `bad` + `badness_reason`
  sbuf : Bytes := []            -- send_mbuf wire bytes ([] = mbuf_is_empty)
  sent : Nat := 0               -- mbuf_sent
  rbuf : Bytes := []            -- receive_mbuf wire bytes
  cnt : Cnts := {}
  deriving DecidableEq, Repr

inductive RxEnd where
  | eof
  | err (e : Nat)
  deriving DecidableEq, Repr

structure Env where
  tx : Bytes := []
  rx : List Bytes := []
  rxEnd : Option RxEnd := none
  /-- a lower-layer send error other than EAGAIN is terminal: the byte-stream socket below
  (btcp/btls) reports it on every later call (that is C06 for the lower layer) -/
  txErr : Option Nat := none
  deriving DecidableEq, Repr

/-- answer of the lower layer to one `xcm_tp_socket_send(buf, left)`:
`ok k` accepts `max 1 (min k left)` bytes, `err e` fails with errno `e` -/
inductive SAns where
  | ok (k : Nat)
  | err (e : Nat)
  deriving DecidableEq, Repr

/-- result of an API call: return code class, errno, payload -/
inductive Res where
  | ok                    -- 0
  | msg (payload : Bytes) (full : Bytes) -- receive: > 0; `full` (ghost) is the whole message before truncation
  | closed                -- receive: 0
  | err (e : Nat)         -- -1 / errno
  | abort (site : String)
  deriving DecidableEq, Repr

def EAGAIN := Generated.EAGAIN
def EPIPE := Generated.EPIPE
def EPROTO := Generated.EPROTO
def EINVAL := Generated.EINVAL
def EMSGSIZE := Generated.EMSGSIZE

/-- `try_finish_send`: flushes the pending frame; `none` = returned 0 (nothing left
buffered), `some e` = returned -1 with errno `e`. -/
def tryFinishSendAux : List SAns → St → Env → St × Env × Option Nat × List SAns
  | [], s, env =>
    if s.sbuf.isEmpty then (s, env, none, [])
    else match env.txErr with
      | some e => (s, env, some e, [])
      | none => (s, env, some EAGAIN, [])
  | a :: t, s, env =>
    if s.sbuf.isEmpty then (s, env, none, a :: t)
    else
      match env.txErr with
      | some e => (s, env, some e, a :: t)
      | none =>
      match a with
      | .err e => (s, if e = EAGAIN then env else { env with txErr := some e }, some e, t)
      | .ok k =>
        let left := s.sbuf.length - s.sent
        let k' := max 1 (min k left)
        let env' := { env with tx := env.tx ++ (s.sbuf.drop s.sent).take k' }
        if s.sent + k' = s.sbuf.length then
          let len := rd32 s.sbuf
          ({ s with sbuf := [], sent := 0,
                    cnt := { s.cnt with toLowerB := s.cnt.toLowerB + len, toLowerM := s.cnt.toLowerM + 1 } },
           env', none, t)
        else tryFinishSendAux t { s with sent := s.sent + k' } env'

def tryFinishSend (s : St) (env : Env) (ans : List SAns) : St × Env × Option Nat × List SAns :=
  tryFinishSendAux ans s env

/-- `tcp_send` -/
def send (s : St) (env : Env) (m : Bytes) (ans : List SAns) : St × Env × Res × List SAns :=
  if m.length > Generated.MBUF_MSG_MAX then (s, env, .err EMSGSIZE, ans)
  else if m.length = 0 then (s, env, .err EINVAL, ans)
  else match s.bad with
    | some e => (s, env, .err e, ans)
    | none =>
      let (s1, env1, r1, ans1) := tryFinishSend s env ans
      match r1 with
      | some e => (s1, env1, .err e, ans1)
      | none =>
        let s2 := { s1 with sbuf := frame m, sent := 0,
                            cnt := { s1.cnt with fromAppB := s1.cnt.fromAppB + m.length,
                                                 fromAppM := s1.cnt.fromAppM + 1 } }
        let (s3, env3, r3, ans3) := tryFinishSend s2 env1 ans1
        match r3 with
        | none => (s3, env3, .ok, ans3)
        | some e => if e = EAGAIN then (s3, env3, .ok, ans3) else (s3, env3, .err e, ans3)

/-- outcome of `buffer_receive` -/
inductive BufRes where
  | full             -- 1: all requested bytes buffered
  | closed           -- 0
  | err (e : Nat)    -- -1 (EAGAIN included)
  | abort
  deriving DecidableEq, Repr

/-- the lower `xcm_tp_socket_receive(len)`: bytes (possibly none), or end condition -/
def lowerReceive (env : Env) (len : Nat) : Env × Except (Option Nat) Bytes :=
  match env.rx with
  | seg :: rest =>
    let got := seg.take len
    let left := seg.drop len
    ({ env with rx := if left.isEmpty then rest else left :: rest }, .ok got)
  | [] =>
    match env.rxEnd with
    | none => (env, .error (some EAGAIN))
    | some .eof => (env, .error none)
    | some (.err e) => (env, .error (some e))

/-- `buffer_receive` -/
def bufferReceive (s : St) (env : Env) (len : Nat) : St × Env × BufRes :=
  if s.rbuf.length + len > Generated.MBUF_WIRE_MAX then (s, env, .abort)
  else
    match lowerReceive env len with
    | (env', .error none) => (s, env', .closed)
    | (env', .error (some e)) => (s, env', .err e)
    | (env', .ok got) =>
      if got.isEmpty then (s, env', .closed)       -- rc == 0
      else
        let s' := { s with rbuf := s.rbuf ++ got }
        if got.length < len then (s', env', .err EAGAIN) else (s', env', .full)

/-- `buffer_hdr` -/
def bufferHdr (s : St) (env : Env) : St × Env × BufRes :=
  let hdrLeft := Generated.MBUF_HDR_LEN - min Generated.MBUF_HDR_LEN s.rbuf.length
  if hdrLeft = 0 then (s, env, .full) else bufferReceive s env hdrLeft

/-- `buffer_payload` (entered with a complete header) -/
def bufferPayload (s : St) (env : Env) : St × Env × BufRes :=
  let len := rd32 s.rbuf
  if !hdrValid len then ({ s with bad := some EPROTO }, env, .err EPROTO)
  else
    let q := bufferReceive s env (len - (s.rbuf.length - Generated.MBUF_HDR_LEN))
    match q.2.2 with
    | .full =>
      ({ q.1 with cnt := { q.1.cnt with fromLowerB := q.1.cnt.fromLowerB + len,
                                        fromLowerM := q.1.cnt.fromLowerM + 1 } }, q.2.1, .full)
    | r => (q.1, q.2.1, r)

/-- `buffer_msg` = `buffer_hdr` then `buffer_payload` -/
def bufferMsg (s : St) (env : Env) : St × Env × BufRes :=
  let p := bufferHdr s env
  match p.2.2 with
  | .full => bufferPayload p.1 p.2.1
  | r => (p.1, p.2.1, r)

/-- `tcp_receive` -/
def receive (s : St) (env : Env) (cap : Nat) (ans : List SAns) : St × Env × Res × List SAns :=
  match s.bad with
  | some e => (s, env, .err e, ans)
  | none =>
    let (s1, env1, r1, ans1) := tryFinishSend s env ans
    let stop : Option Res :=
      match r1 with
      | none => none
      | some e => if e = EAGAIN then none else if e = EPIPE then some .closed else some (.err e)
    match stop with
    | some r => (s1, env1, r, ans1)
    | none =>
      let (s2, env2, r2) := bufferMsg s1 env1
      match r2 with
      | .closed => (s2, env2, .closed, ans1)
      | .err e => (s2, env2, .err e, ans1)
      | .abort => (s2, env2, .abort "mbuf_wire_ensure_capacity", ans1)
      | .full =>
        let len := rd32 s2.rbuf
        let userLen := min len cap
        let payload := (s2.rbuf.drop Generated.MBUF_HDR_LEN).take userLen
        ({ s2 with rbuf := [],
                   cnt := { s2.cnt with toAppB := s2.cnt.toAppB + userLen, toAppM := s2.cnt.toAppM + 1 } },
         env2, .msg payload (s2.rbuf.drop Generated.MBUF_HDR_LEN), ans1)

/-- `tcp_finish`; `fin` is the answer of the lower `xcm_tp_socket_finish` -/
def finish (s : St) (env : Env) (ans : List SAns) (fin : Option Nat) : St × Env × Res × List SAns :=
  match s.bad with
  | some e => (s, env, .err e, ans)
  | none =>
    let (s1, env1, r1, ans1) := tryFinishSend s env ans
    match fin with
    | some e => (s1, env1, .err e, ans1)
    | none =>
      match r1 with
      | some e => (s1, env1, .err e, ans1)
      | none => (s1, env1, .ok, ans1)

/-- `tcp_update`: the condition handed to the lower socket -/
def lowerCondition (s : St) (cond : Nat) : Nat :=
  if s.sbuf.isEmpty then cond else cond ||| Generated.XCM_SO_SENDABLE

/-! ### One endpoint as a machine over API calls and environment events -/

inductive Op where
  | send (m : Bytes) (ans : List SAns)
  | receive (cap : Nat) (ans : List SAns)
  | finish (ans : List SAns) (fin : Option Nat)
  | arrive (seg : Bytes)          -- a segment of bytes becomes readable below
  | eof                           -- the stream below ends (after what has arrived)
  | rxErr (e : Nat)               -- the stream below fails with `e` (after what has arrived)
  deriving Repr

/-- endpoint = transport state + environment + ghost history -/
structure Ep where
  s : St := {}
  env : Env := {}
  accepted : List Bytes := []          -- messages whose `send` returned 0, in order
  arrived : Bytes := []                -- every byte that ever arrived, in order
  fulls : List Bytes := []             -- the complete messages consumed by successful receives
  caps : List Nat := []                -- capacities of those receives
  returned : List Bytes := []          -- what those receives returned
  results : List Res := []             -- result of every API call, in order

def Ep.step (e : Ep) : Op → Ep
  | .send m ans =>
    let (s', env', r, _) := send e.s e.env m ans
    { e with s := s', env := env', results := e.results ++ [r],
             accepted := if r = .ok then e.accepted ++ [m] else e.accepted }
  | .receive cap ans =>
    let (s', env', r, _) := receive e.s e.env cap ans
    match r with
    | .msg p f => { e with s := s', env := env', results := e.results ++ [r], fulls := e.fulls ++ [f],
                           caps := e.caps ++ [cap], returned := e.returned ++ [p] }
    | _ => { e with s := s', env := env', results := e.results ++ [r] }
  | .finish ans fin =>
    let (s', env', r, _) := finish e.s e.env ans fin
    { e with s := s', env := env', results := e.results ++ [r] }
  | .arrive seg =>
    if seg.isEmpty then e
    else { e with env := { e.env with rx := e.env.rx ++ [seg] }, arrived := e.arrived ++ seg }
  | .eof => { e with env := { e.env with rxEnd := some .eof } }
  | .rxErr err => { e with env := { e.env with rxEnd := some (.err err) } }

def Ep.run (e : Ep) (ops : List Op) : Ep := ops.foldl Ep.step e

end XcmModel.Framing
