import XcmModel.Basic
import XcmModel.Generated.Consts
/-
  Model of libxcm/tp/tcp/tconnect.c: connection establishment towards a list of resolved addresses
  with the algorithms `single`, `sequential` and `happy_eyeballs`.

  Environment: every question the code asks the outside world - `tcp_opts_effectuate` (setsockopt),
  `connect()`, `ut_established()` (the result of an in-progress connect), "has this timer expired?" -
  consumes the next token of an adversarial script; an exhausted script answers "nothing happened yet".
  So a run is determined by the script, and theorems quantify over all scripts = all timings and all
  per-address behaviours (accept, refuse with any errno at any time, stay silent until the timer fires).
  The model also emits the trace of environment calls (the harness prints the same tokens) and keeps a
  ghost record of the attempts made.
-/
namespace XcmModel.Tconnect
open XcmModel

inductive Fam where
  | v4 | v6
  deriving DecidableEq, Repr

inductive Tok where
  | ok            -- success
  | ip            -- in progress / nothing yet
  | x             -- timer expired
  | err (e : Nat)
  deriving DecidableEq, Repr

def ENOENT := Generated.ENOENT
def ETIMEDOUT := Generated.ETIMEDOUT
def EAGAIN := Generated.EAGAIN

inductive TState where
  | initialDelay | connecting | connected | finished | bad
  deriving DecidableEq, Repr

/-- ghost: what became of the attempt on one address -/
inductive Att where
  | failed (e : Nat)
  | pending
  | ok
  deriving DecidableEq, Repr

/-- `struct track` -/
structure Track where
  addrs : List Fam
  fd4 : Bool
  fd6 : Bool
  next : Nat := 0                 -- ip_idx + 1
  cur : Option Nat := none        -- ip_idx
  state : TState := .connecting
  bad : Nat := 0                  -- badness_reason (0 = none recorded)
  timer : Bool := false           -- timer_id valid
  reg : Bool := false             -- fd_reg_id valid: the current fd is registered for EPOLLOUT
  hasLocal : Bool := false        -- a local address was given
  bound4 : Bool := false          -- the descriptor has been bound to the local address
  bound6 : Bool := false
  tried : List (Nat × Att) := []  -- ghost
  deriving DecidableEq, Repr

def pop (s : List Tok) : Tok × List Tok :=
  match s with
  | [] => (.ip, [])
  | a :: t => (a, t)

def famStr : Fam → String
  | .v4 => "4" | .v6 => "6"

def errStr (e : Nat) : String :=
  match Generated.errnoTable.find? (fun p => p.2 == e) with
  | some p => "E" ++ p.1
  | none => s!"EE{e}"

/-- `track_supports_family` -/
def supports (t : Track) : Fam → Bool
  | .v4 => t.fd4
  | .v6 => t.fd6

/-- index of the next candidate address at or after `i` whose family the track has a descriptor for -/
def findNext (t : Track) : Nat → Nat → Option Nat
  | 0, _ => none
  | fuel + 1, i =>
    match t.addrs[i]? with
    | none => none
    | some f => if supports t f then some i else findNext t fuel (i + 1)

def setLast (l : List (Nat × Att)) (a : Att) : List (Nat × Att) :=
  match l.reverse with
  | [] => []
  | (i, _) :: r => (r.reverse) ++ [(i, a)]

/-- `track_abort_connect` -/
def abortConnect (t : Track) (f : Fam) (tr : List String) : Track × List String :=
  let tr1 := tr ++ [s!"A({famStr f})"]
  let tr2 := if t.reg then tr1 ++ ["R-"] else tr1
  let tr3 := if t.timer then tr2 ++ ["T-"] else tr2
  ({ t with reg := false, timer := false }, tr3)

def famAt (t : Track) (i : Nat) : Fam := (t.addrs[i]?).getD .v4

/-- one candidate address either settles the track for now (`done`: connected or in progress) or
fails at once and hands over to the next candidate (`next`) -/
inductive Step where
  | done (t : Track) (s : List Tok) (tr : List String)
  | next (t : Track) (s : List Tok) (tr : List String)

/-- the local address is bound once per descriptor; returns whether `bind()` is called now -/
def bindOnce (t1 : Track) (f : Fam) : Track × Bool :=
  let needBind := t1.hasLocal && !(match f with | .v4 => t1.bound4 | .v6 => t1.bound6)
  (if needBind then (match f with | .v4 => { t1 with bound4 := true } | .v6 => { t1 with bound6 := true }) else t1, needBind)

/-- register for EPOLLOUT and `connect()` (after the bind step) -/
def connectStep (t2 : Track) (did : Bool) (f : Fam) (i : Nat) (s1 : List Tok) (tr1 : List String) : Step :=
  let tr2 := if did then tr1 ++ [s!"B({famStr f})"] else tr1
  let tr3 := tr2 ++ [s!"R+({famStr f},4)"]
  let t3 := { t2 with reg := true }
  let (c, s2) := pop s1
  match c with
  | .ok => .done { t3 with state := .connected, tried := t3.tried ++ [(i, .ok)] } s2 (tr3 ++ [s!"C({i})=ok"])
  | .err e =>
    let (t4, tr4) := abortConnect { t3 with bad := e, tried := t3.tried ++ [(i, .failed e)] } f (tr3 ++ [s!"C({i})={errStr e}"])
    .next t4 s2 tr4
  | _ => .done { t3 with timer := true, tried := t3.tried ++ [(i, .pending)] } s2 (tr3 ++ [s!"C({i})=ip", "T+"])

/-- the part of `track_connect_next` after `tcp_opts_effectuate` succeeded: bind (once per
descriptor), register for EPOLLOUT, `connect()` -/
def tryConnect (t1 : Track) (i : Nat) (s1 : List Tok) (tr1 : List String) : Step :=
  connectStep (bindOnce t1 (famAt t1 i)).1 (bindOnce t1 (famAt t1 i)).2 (famAt t1 i) i s1 tr1

/-- one iteration of `track_connect_next` on candidate `i` -/
def attempt (t : Track) (i : Nat) (s : List Tok) (tr : List String) : Step :=
  let t1 := { t with next := i + 1, cur := some i }
  let (a, s1) := pop s
  match a with
  | .err e => .next { t1 with bad := e, tried := t1.tried ++ [(i, .failed e)] } s1 (tr ++ [s!"Ef({famStr (famAt t i)})={errStr e}"])
  | _ => tryConnect t1 i s1 (tr ++ [s!"Ef({famStr (famAt t i)})"])

/-- `track_connect_next` -/
def connectNext : Nat → Track → List Tok → List String → Track × List Tok × List String
  | 0, t, s, tr => ({ t with state := .bad, bad := if t.bad = 0 then ENOENT else t.bad }, s, tr)
  | fuel + 1, t, s, tr =>
    match findNext t (t.addrs.length + 1) t.next with
    | none => ({ t with state := .bad, bad := if t.bad = 0 then ENOENT else t.bad }, s, tr)
    | some i =>
      match attempt t i s tr with
      | .done t' s' tr' => (t', s', tr')
      | .next t' s' tr' => connectNext fuel t' s' tr'

def curFam (t : Track) : Fam :=
  match t.cur with
  | some i => famAt t i
  | none => .v4

/-- `track_process_initial_delay` (when in that state) -/
def procDelay (t : Track) (s : List Tok) (tr : List String) : Track × List Tok × List String :=
  if t.state = .initialDelay then
    let (a, s1) := pop s
    if a = .x then connectNext (t.addrs.length + 1) { t with state := .connecting, timer := false } s1 (tr ++ ["T?x", "Tack"])
    else (t, s1, tr ++ ["T?"])
  else (t, s, tr)

/-- `track_process_connecting` (when in that state) -/
def procConnecting (t : Track) (s : List Tok) (tr : List String) : Track × List Tok × List String :=
  if t.state = .connecting then
    let (a, s1) := pop s
    if a = .x then
      let r := abortConnect { t with bad := ETIMEDOUT, timer := false, tried := setLast t.tried (.failed ETIMEDOUT) }
        (curFam t) (tr ++ ["T?x", "Tack"])
      connectNext (t.addrs.length + 1) r.1 s1 r.2
    else
      let tr1 := tr ++ ["T?"]
      let (g, s2) := pop s1
      match g with
      | .ok => ({ t with state := .connected, tried := setLast t.tried .ok }, s2, tr1 ++ [s!"G({famStr (curFam t)})=ok"])
      | .err e =>
        let r := abortConnect { t with bad := e, tried := setLast t.tried (.failed e) } (curFam t)
          (tr1 ++ [s!"G({famStr (curFam t)})={errStr e}"])
        connectNext (t.addrs.length + 1) r.1 s2 r.2
      | _ => (t, s2, tr1 ++ [s!"G({famStr (curFam t)})=ip"])
  else (t, s, tr)

/-- `track_process` -/
def process (t : Track) (s : List Tok) (tr : List String) : Track × List Tok × List String :=
  let r := procDelay t s tr
  procConnecting r.1 r.2.1 r.2.2

inductive FdRes where
  | fd (f : Fam)
  | err (e : Nat)
  | abort
  deriving DecidableEq, Repr

/-- `track_get_connected_fd` -/
def trackGetFd (t : Track) (s : List Tok) (tr : List String) : Track × FdRes × List Tok × List String :=
  let (t1, s1, tr1) := process t s tr
  match t1.state with
  | .connecting => (t1, .err EAGAIN, s1, tr1)
  | .initialDelay => (t1, .err EAGAIN, s1, tr1)
  | .connected => ({ t1 with reg := false, state := .finished }, .fd (curFam t1), s1, tr1 ++ ["R-"])
  | .bad => (t1, .err t1.bad, s1, tr1)
  | .finished => (t1, .abort, s1, tr1)

/-- `track_create` -/
def trackCreate (addrs : List Fam) (fd4 fd6 hasLocal : Bool) (delay : Bool) (s : List Tok) (tr : List String) :
    Track × List Tok × List String :=
  let t : Track := { addrs := addrs, fd4 := fd4, fd6 := fd6, hasLocal := hasLocal }
  if delay then ({ t with state := .initialDelay, timer := true }, s, tr ++ ["T+"])
  else connectNext (addrs.length + 1) t s tr

inductive Alg where
  | single | sequential | happy
  deriving DecidableEq, Repr

/-- `struct tconnect` -/
structure TC where
  tracks : List Track
  deriving DecidableEq, Repr

/-- `tconnect_connect` (scope not given) -/
def tcConnect (alg : Alg) (addrs : List Fam) (hasLocal : Bool) (s : List Tok) : TC × List Tok × List String :=
  match alg with
  | .single => let (t, s1, tr) := trackCreate (addrs.take 1) true true hasLocal false s []; ({ tracks := [t] }, s1, tr)
  | .sequential => let (t, s1, tr) := trackCreate addrs true true hasLocal false s []; ({ tracks := [t] }, s1, tr)
  | .happy =>
    let has4 := addrs.any (· == .v4)
    let has6 := addrs.any (· == .v6)
    let (ts4, s1, tr1) :=
      if has4 then let (t, s', tr') := trackCreate addrs true false hasLocal has6 s []; ([t], s', tr') else ([], s, [])
    let (ts6, s2, tr2) :=
      if has6 then let (t, s', tr') := trackCreate addrs false true hasLocal false s1 tr1; ([t], s', tr') else ([], s1, tr1)
    ({ tracks := ts4 ++ ts6 }, s2, tr2)

/-- the loop of `tconnect_get_connected_fd` over the tracks -/
def tcGetFdLoop : List Track → List Tok → List String → Bool → Nat → List Track × Option Fam × List Tok × List String × Bool × Nat × Bool
  | [], s, tr, inprog, fatal => ([], none, s, tr, inprog, fatal, false)
  | t :: rest, s, tr, inprog, fatal =>
    let (t1, r, s1, tr1) := trackGetFd t s tr
    match r with
    | .fd f => (t1 :: rest, some f, s1, tr1, inprog, fatal, false)
    | .abort => (t1 :: rest, none, s1, tr1, inprog, fatal, true)
    | .err e =>
      let (inprog', fatal') := if e = EAGAIN then (true, fatal) else (inprog, e)
      let (rest', f, s2, tr2, ip2, fa2, ab) := tcGetFdLoop rest s1 tr1 inprog' fatal'
      (t1 :: rest', f, s2, tr2, ip2, fa2, ab)

/-- `tconnect_get_connected_fd` -/
def tcGetFd (tc : TC) (s : List Tok) : TC × FdRes × List String :=
  let (ts, f, _, tr, inprog, fatal, ab) := tcGetFdLoop tc.tracks s [] false ENOENT
  let r := if ab then FdRes.abort else match f with
    | some fam => .fd fam
    | none => if inprog then .err EAGAIN else .err fatal
  ({ tracks := ts }, r, tr)

end XcmModel.Tconnect
