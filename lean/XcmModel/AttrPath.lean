import XcmModel.Libc
import XcmModel.Generated.Consts
/-
  Model of libxcm/core/attr_path.c (parse / to_str / len / equal).
  A path string is a C string, i.e. a byte list without NUL.
-/
namespace XcmModel.AttrPath
open XcmModel XcmModel.Libc

inductive Comp where
  | key (k : Bytes)
  | index (i : Nat)
  deriving DecidableEq, Repr

abbrev Path := List Comp

/-- `is_special`: '[' ']' '.' -/
def isSpecial (c : UInt8) : Bool := c == 91 || c == 93 || c == 46

def isKeyChar (c : UInt8) : Bool := !isSpecial c

/-- `attr_pcomp_parse_key`: returns the component and the number of bytes used. -/
def parseKey (s : Bytes) : Option (Comp × Nat) :=
  let k := s.takeWhile isKeyChar
  if k.isEmpty then none else some (.key k, k.length)

/-- `attr_pcomp_parse_index` on the text after '['. -/
def parseIndex (s : Bytes) : Option (Comp × Nat) :=
  let (v, n) := strtol s
  if n == 0 then none
  else if s[n]? != some 93 then none
  else if v < 0 then none
  else if v == (LONG_MAX : Int) then none
  else some (.index v.toNat, n + 1)

/-- `attr_pcomp_parse` (non-root component). -/
def parseComp (s : Bytes) : Option (Comp × Nat) :=
  match s with
  | [] => none
  | 91 :: t => (parseIndex t).map fun (c, n) => (c, n + 1)
  | 46 :: t => (parseKey t).map fun (c, n) => (c, n + 1)
  | _ => none

/-- the loop of `attr_path_parse`; `cnt` is `path->num_comps`. -/
def parseLoop : Nat → Bytes → Bool → Nat → Option Path
  | 0, _, _, _ => none
  | fuel + 1, s, root, cnt =>
    if s.isEmpty then some []
    else if cnt ≥ Generated.ATTR_PATH_COMP_MAX then none
    else
      match (if root then parseKey s else parseComp s) with
      | none => none
      | some (c, n) => (parseLoop fuel (s.drop n) false (cnt + 1)).map (c :: ·)

/-- `attr_path_parse`; `none` is the C `NULL`. -/
def parse (s : Bytes) (root : Bool) : Option Path :=
  if s.length > Generated.ATTR_PATH_NAME_MAX then none
  else parseLoop (s.length + 1) s root 0

def printComp : Comp → Bytes
  | .key k => 46 :: k
  | .index i => 91 :: natToDec i ++ [93]

/-- `attr_path_to_str`; `none` is the `ut_assert` in `attr_path_len` (root path
starting with an index). -/
def print (p : Path) (root : Bool) : Option Bytes :=
  match root, p with
  | true, .key k :: t => some (k ++ t.flatMap printComp)
  | true, .index _ :: _ => none
  | _, p => some (p.flatMap printComp)

/-- `attr_path_is_valid_key` -/
def isValidKey (k : Bytes) : Bool := !k.isEmpty && k.all isKeyChar

end XcmModel.AttrPath
