import XcmModel.Basic
import XcmModel.Generated.Consts
/-
  Model of libxcm/tp/tcp/tcp_attr.c (the five settable TCP options) and of how xcm_tp_btcp.c and
  tconnect.c carry them through connection establishment:

  * `tcp_set_*(opts, fd, v)` stores the value and, when the connection already has a kernel socket,
    applies it with setsockopt at once;
  * `tconnect_connect` snapshots the options (track_create) and applies the snapshot to every
    socket it creates (`tcp_opts_effectuate` in track_connect_next);
  * `try_finish_connect` compares the snapshot with the current options (`tcp_opts_equal`) and
    re-applies the current ones when they differ.

  The kernel socket is modelled by the option values last applied to it (`applied`).
-/
namespace XcmModel.TcpOpts
open XcmModel

structure Opts where
  keepalive : Bool
  time : Int
  interval : Int
  count : Int
  userTimeout : Int
  deriving DecidableEq, Repr

def INT_MAX : Int := 2147483647

/-- `tcp_opts_init` -/
def init : Opts :=
  { keepalive := Generated.XCM_TCP_KEEPALIVE ≠ 0, time := Generated.XCM_TCP_KEEPALIVE_TIME,
    interval := Generated.XCM_TCP_KEEPALIVE_INTERVAL, count := Generated.XCM_TCP_KEEPALIVE_COUNT,
    userTimeout := Generated.XCM_TCP_USER_TIMEOUT }

inductive Field where
  | time | interval | count | userTimeout
  deriving DecidableEq, Repr

def Field.scale : Field → Int
  | .userTimeout => 1000
  | _ => 1

def Opts.get (o : Opts) : Field → Int
  | .time => o.time | .interval => o.interval | .count => o.count | .userTimeout => o.userTimeout

def Opts.set (o : Opts) (f : Field) (v : Int) : Opts :=
  match f with
  | .time => { o with time := v } | .interval => { o with interval := v }
  | .count => { o with count := v } | .userTimeout => { o with userTimeout := v }

/-- `tcp_opts_equal` as written in the source: the C expression is transcribed, the harness
unit_tcpopts compares it with the real function on structured pairs -/
def optsEqual (a b : Opts) : Bool :=
  a.keepalive == b.keepalive && a.time == b.time && a.interval == b.interval && a.count == b.count &&
  a.userTimeout == b.userTimeout

inductive SetRes where
  | ok
  | einval
  deriving DecidableEq, Repr

/-- one TCP connection's option state: the options XCM stores (`conn.tcp_opts`), whether the
connection has its kernel socket yet (`bts->fd >= 0`), what has been applied to that socket, and -
while establishing - the snapshot tconnect works with -/
structure St where
  desired : Opts := init
  hasFd : Bool := false
  applied : Option Opts := none          -- options in force on the connection's kernel socket
  snapshot : Option Opts := none         -- tconnect's copy while connecting
  deriving DecidableEq, Repr

/-- `tcp_set_keepalive` -/
def setKeepalive (s : St) (v : Bool) : St × SetRes :=
  if s.desired.keepalive = v then (s, .ok)
  else
    let d := { s.desired with keepalive := v }
    if s.hasFd then ({ s with desired := d, applied := s.applied.map fun a => { a with keepalive := v } }, .ok)
    else ({ s with desired := d }, .ok)

/-- `tcp_set_<field>` (GEN_SET_OPT_SCALE) -/
def setField (s : St) (f : Field) (v : Int) : St × SetRes :=
  if s.desired.get f = v then (s, .ok)
  else if v * f.scale ≤ 0 ∨ v * f.scale > INT_MAX then (s, .einval)
  else
    let d := s.desired.set f v
    if s.hasFd then ({ s with desired := d, applied := s.applied.map fun a => a.set f v }, .ok)
    else ({ s with desired := d }, .ok)

/-- `tconnect_connect`: the options are snapshot; every socket tconnect creates gets the snapshot -/
def beginConnect (s : St) : St := { s with snapshot := some s.desired }

/-- `try_finish_connect` on success: the connected socket carries the snapshot; the current options
are re-applied iff `tcp_opts_equal` says they differ -/
def finishConnect (s : St) : St :=
  match s.snapshot with
  | none => s
  | some snap =>
    let applied := if optsEqual s.desired snap then snap else s.desired
    { s with hasFd := true, applied := some applied, snapshot := none }

/-- accepted connections: `tcp_opts_effectuate(conn.tcp_opts, fd)` in btcp_accept -/
def accept (s : St) : St := { s with hasFd := true, applied := some s.desired }

inductive Op where
  | keepalive (v : Bool)
  | field (f : Field) (v : Int)
  deriving DecidableEq, Repr

def applyOp (s : St) : Op → St
  | .keepalive v => (setKeepalive s v).1
  | .field f v => (setField s f v).1

def applyOps (s : St) (ops : List Op) : St := ops.foldl applyOp s

/-- a connection's life as far as options go: sets before connect, connect begins, sets while
connecting, establishment, sets afterwards -/
def lifecycle (pre during post : List Op) : St :=
  applyOps (finishConnect (applyOps (beginConnect (applyOps {} pre)) during)) post

end XcmModel.TcpOpts
