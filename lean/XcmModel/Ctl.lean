import XcmModel.Basic
import XcmModel.Generated.Consts
import XcmModel.Generated.Enums
/-
  Model of libxcm/ctl/ctl.c (the socket owner's side of the control interface) at the level of
  one request and of the session table:

  * `clientReceive`: exact-size check, request type switch, termination of the client-supplied name;
  * `processGetAttr`: the in-process `xcm_attr_get(name, capacity CTL_ATTR_VALUE_MAX)` result turned
    into a cfm/rej, `tls.key` never disclosed;
  * `processGetAll` / `addAttr`: the bounded reply builder over `attrs[CTL_PROTO_MAX_ATTRS]` with
    `name[XCM_ATTR_NAME_MAX]` and `any_value[CTL_ATTR_VALUE_MAX]`;
  * the reply is written into the session's *reused* `pending_response` buffer, so the type field of
    the previous reply is an input (`prevType`);
  * accept/remove bookkeeping of at most MAX_CLIENTS sessions.

  In-process attribute access is the environment: `inproc` is what `xcm_attr_get` /
  `xcm_attr_get_all` answer (C10 is about those).
-/
namespace XcmModel.Ctl
open XcmModel

structure Attr where
  name : Bytes
  type : Nat
  value : Bytes
  deriving DecidableEq, Repr

/-- "tls.key" (XCM_ATTR_TLS_KEY), as bytes -/
def tlsKey : Bytes := [116, 108, 115, 46, 107, 101, 121]

/-- `is_sensitive` -/
def sensitive (name : Bytes) : Bool := name == tlsKey

/-- can the wire format carry this attribute? (`name[XCM_ATTR_NAME_MAX]`, `any_value[CTL_ATTR_VALUE_MAX]`) -/
def fits (a : Attr) : Bool :=
  a.name.length < Generated.XCM_ATTR_NAME_MAX && a.value.length ≤ Generated.CTL_ATTR_VALUE_MAX

/-- `add_attr` (callback of xcm_attr_get_all) -/
def addAttr (acc : List Attr) (a : Attr) : List Attr :=
  if sensitive a.name then acc
  else if !fits a then acc
  else if acc.length = Generated.CTL_PROTO_MAX_ATTRS then acc
  else acc ++ [a]

-- message types, by position in `enum ctl_proto_type` as extracted from ctl_proto.h
/-- message type codes: the positions of the enumerators in `enum ctl_proto_type` (regenerated from ctl_proto.h) -/
def typeCode (name : String) : Nat := Generated.CtlProtoType.idxOf name
def tGetAttrReq : Nat := typeCode "ctl_proto_type_get_attr_req"
def tGetAttrCfm : Nat := typeCode "ctl_proto_type_get_attr_cfm"
def tGetAttrRej : Nat := typeCode "ctl_proto_type_get_attr_rej"
def tGetAllReq : Nat := typeCode "ctl_proto_type_get_all_attr_req"
def tGetAllCfm : Nat := typeCode "ctl_proto_type_get_all_attr_cfm"

inductive Body where
  | cfm (type : Nat) (value : Bytes)
  | rej (errno : Nat)
  | all (attrs : List Attr)
  deriving DecidableEq, Repr

/-- the reply as it sits in `client->pending_response`: the type field and the body -/
structure Resp where
  type : Nat
  body : Body
  /-- bytes of an attribute value that sit in the reply datagram's value field although the reply is a
  rejection (the datagram has a fixed size: whatever `xcm_attr_get` wrote there travels to the client
  unless `clear_attr` wipes it) -/
  residue : Bytes := []
  deriving DecidableEq, Repr

/-- what `xcm_attr_get(socket, name, &type, buf, CTL_ATTR_VALUE_MAX)` answered in-process -/
inductive InProc where
  | ok (type : Nat) (value : Bytes)
  | err (errno : Nat)
  deriving DecidableEq, Repr

/-- `process_get_attr` -/
def processGetAttr (name : Bytes) (r : InProc) : Resp :=
  if sensitive name then
    -- xcm_attr_get has already copied the value into the reply; clear_attr zeroes the whole value field
    { type := tGetAttrRej, body := .rej Generated.EACCES, residue := [] }
  else match r with
    | .ok t v => { type := tGetAttrCfm, body := .cfm t v }
    | .err e => { type := tGetAttrRej, body := .rej e }

/-- `process_get_all_attr`: the type field is written, whatever the buffer held before -/
def processGetAll (_prevType : Nat) (attrs : List Attr) : Resp :=
  { type := tGetAllCfm, body := .all (attrs.foldl addAttr []) }

/-- the name the owner uses: the request's `attr_name` field (any XCM_ATTR_NAME_MAX bytes) is
terminated at its last byte, then read up to the first NUL -/
def termName (field : Bytes) : Bytes :=
  (field.take (Generated.XCM_ATTR_NAME_MAX - 1)).takeWhile (· ≠ 0)

def msgSize : Nat := Generated.CTL_PROTO_MSG_SIZE     -- sizeof(struct ctl_proto_msg), extracted

inductive Outcome where
  | reply (r : Resp)
  | drop                -- malformed: the session is closed, nothing is sent
  deriving DecidableEq, Repr

/-- `client_receive` for a request of `size` bytes with type field `type` and name field `field` -/
def clientReceive (size type : Nat) (field : Bytes) (prevType : Nat)
    (lookup : Bytes → InProc) (attrs : List Attr) : Outcome :=
  if size ≠ msgSize then .drop
  else if type = tGetAttrReq then .reply (processGetAttr (termName field) (lookup (termName field)))
  else if type = tGetAllReq then .reply (processGetAll prevType attrs)
  else .drop

/-! ### session table -/

/-- one control session: its descriptor (an identity) and the reply that is waiting to be sent -/
structure Client where
  id : Nat
  pending : Option Resp
  deriving DecidableEq, Repr

/-- `remove_client`: the last client is moved (whole struct) into the freed slot -/
def removeClient (cs : List Client) (i : Nat) : List Client :=
  if i + 1 = cs.length then cs.dropLast
  else match cs.getLast? with
    | some last => (cs.set i last).dropLast
    | none => cs


inductive Ev where
  | connectAttempt      -- a client connects; accepted only while num_clients < MAX_CLIENTS
  | remove              -- a session ends (disconnect, malformed request, error)
  deriving DecidableEq, Repr

def sessStep (n : Nat) : Ev → Nat
  | .connectAttempt => if n < Generated.CTL_MAX_CLIENTS then n + 1 else n
  | .remove => n - 1

end XcmModel.Ctl
