import XcmModel.Basic
/-
  Model of the byte sequence that `get_credentials_hash` (libxcm/tp/tls/ctx_store.c) feeds into SHA-256:
  the cache key of a TLS context.  For each of the four items (cert, key, tc, crl):
    the item type (4-byte enum), then
    - by value: the value and its terminating NUL;
    - by file : the file name and its NUL, st_mode (here: one byte, 1 = symbolic link), dev/ino/size/mtime
                (here: `STATLEN` bytes), and - for a symbolic link - the same again for the file it points to.
  `encOld` is the sequence the code produced before the repair F-18a (no type, no NUL, no mode).
-/
namespace XcmModel.CtxKey
open XcmModel

def STATLEN : Nat := 40

/-- what the hash function sees of one item -/
inductive View where
  | none
  | value (v : Bytes)
  | file (name : Bytes) (st : Bytes)
  | link (name : Bytes) (lst : Bytes) (tst : Bytes)
  deriving DecidableEq, Repr

def NoNul (b : Bytes) : Prop := (0 : UInt8) ∉ b

def View.WF : View → Prop
  | .none => True
  | .value v => NoNul v
  | .file n st => NoNul n ∧ st.length = STATLEN
  | .link n l t => NoNul n ∧ l.length = STATLEN ∧ t.length = STATLEN

def tag (k : UInt8) : Bytes := [k, 0, 0, 0]

def enc : View → Bytes
  | .none => tag 0
  | .value v => tag 2 ++ (v ++ [0])
  | .file n st => tag 1 ++ (n ++ [0]) ++ (0 :: st)
  | .link n l t => tag 1 ++ (n ++ [0]) ++ (1 :: l) ++ (n ++ [0]) ++ (0 :: t)

def encOld : View → Bytes
  | .none => []
  | .value v => v
  | .file n st => n ++ st
  | .link n l t => n ++ l ++ n ++ t

def encCfg (c : List View) : Bytes := (c.map enc).flatten
def encCfgOld (c : List View) : Bytes := (c.map encOld).flatten

/-- split at the first NUL -/
def splitNul : Bytes → Option (Bytes × Bytes)
  | [] => none
  | b :: t => if b = 0 then some ([], t) else (splitNul t).map (fun p => (b :: p.1, p.2))

def decFile (r : Bytes) : Option (View × Bytes) :=
  match splitNul r with
  | some (n, m :: r1) =>
    if m = 0 then some (.file n (r1.take STATLEN), r1.drop STATLEN)
    else
      match splitNul (r1.drop STATLEN) with
      | some (_, _ :: r3) => some (.link n (r1.take STATLEN) (r3.take STATLEN), r3.drop STATLEN)
      | _ => none
  | _ => none

/-- a decoder: the left inverse of `enc` -/
def dec : Bytes → Option (View × Bytes)
  | 0 :: 0 :: 0 :: 0 :: r => some (.none, r)
  | 2 :: 0 :: 0 :: 0 :: r => (splitNul r).map (fun p => (.value p.1, p.2))
  | 1 :: 0 :: 0 :: 0 :: r => decFile r
  | _ => none

def decCfg : Nat → Bytes → Option (List View × Bytes)
  | 0, r => some ([], r)
  | k + 1, r =>
    match dec r with
    | some (v, r') => (decCfg k r').map (fun p => (v :: p.1, p.2))
    | none => none

end XcmModel.CtxKey
