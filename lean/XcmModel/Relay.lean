import XcmModel.Basic
import XcmModel.Generated.Consts
/-
  Model of tools/xcmrelay/xrelay.c: a relay is two forwarders (`xfwd`) over the same pair of connections, one per
  direction.  A forwarder holds at most one message (or, on byte streams, one chunk): it awaits input on its source
  while empty, output on its destination while full.  Every fd event runs `xfwd_active`, which makes exactly one XCM
  call whose answer is the environment's.
-/
namespace XcmModel.Relay
open XcmModel

def RECEIVABLE := Generated.XCM_SO_RECEIVABLE
def SENDABLE := Generated.XCM_SO_SENDABLE

/-- the answer of the one XCM call an event triggers -/
inductive Ans where
  | ok (n : Nat)            -- xcm_send: accepted (n bytes on a byte stream); xcm_finish: 0
  | data (bs : Bytes)       -- xcm_receive: a message / some bytes (non-empty)
  | eof                     -- xcm_receive: 0
  | err (e : Nat)           -- -1 / errno
  deriving DecidableEq, Repr

structure Fwd where
  src : Nat                  -- connection numbers (1 or 2)
  dst : Nat
  buf : Bytes := []          -- relay->data[0..data_len)
  -- ghost
  received : List Bytes := []   -- what xcm_receive(src) returned, in order
  passed : List Bytes := []     -- the ranges xcm_send(dst) accepted, in order
  deriving DecidableEq, Repr

inductive Call where
  | send (conn : Nat) (data : Bytes)
  | receive (conn : Nat)
  | finish (conn : Nat)
  | close (conn : Nat)
  | term (reason : Int)
  deriving DecidableEq, Repr

structure Relay where
  bytestream : Bool
  f0 : Fwd := { src := 1, dst := 2 }
  f1 : Fwd := { src := 2, dst := 1 }
  cond1 : Nat := 0
  cond2 : Nat := 0
  terminated : Option Int := none
  /-- a source was closed by its peer: the relay only waits for this connection to be flushed -/
  draining : Option Nat := none
  deriving DecidableEq, Repr

def setBit (c bit : Nat) : Nat := c ||| bit
def clrBit (c bit : Nat) : Nat := c &&& (3 - bit)

def addCond (r : Relay) (conn bit : Nat) : Relay :=
  if conn = 1 then { r with cond1 := setBit r.cond1 bit } else { r with cond2 := setBit r.cond2 bit }
def delCond (r : Relay) (conn bit : Nat) : Relay :=
  if conn = 1 then { r with cond1 := clrBit r.cond1 bit } else { r with cond2 := clrBit r.cond2 bit }

def awaitInput (r : Relay) (f : Fwd) : Relay := delCond (addCond r f.src RECEIVABLE) f.dst SENDABLE
def awaitOutput (r : Relay) (f : Fwd) : Relay := delCond (addCond r f.dst SENDABLE) f.src RECEIVABLE

/-- `xrelay_start` -/
def start (bs : Bool) : Relay :=
  let r : Relay := { bytestream := bs }
  awaitInput (awaitInput r r.f0) r.f1

def EAGAIN := Generated.EAGAIN
def EPIPE := Generated.EPIPE
def ECONNRESET := Generated.ECONNRESET

/-- `xfwd_active` on forwarder `f` for an event on connection `conn`: new forwarder, relay (conditions, termination), calls.
An end of stream on the source is reported as `terminated := some 0` here; `step` turns it into draining. -/
def active (r : Relay) (f : Fwd) (conn : Nat) (a : Ans) : Fwd × Relay × List Call :=
  if f.buf.isEmpty then
    if conn = f.src then
      -- xfwd_receive
      match a with
      | .data bs => ({ f with buf := bs, received := f.received ++ [bs] }, awaitOutput r f, [.receive f.src])
      | .eof => (f, { r with terminated := some 0, draining := some f.dst }, [.receive f.src])
      | .err e => if e = EAGAIN then (f, r, [.receive f.src]) else (f, { r with terminated := some (-1) }, [.receive f.src, .term (-1)])
      | .ok _ => (f, r, [.receive f.src])       -- not an answer of xcm_receive (never generated)
    else
      match a with
      | .err e => if e = EAGAIN then (f, r, [.finish f.dst]) else (f, { r with terminated := some (-1) }, [.finish f.dst, .term (-1)])
      | _ => (f, r, [.finish f.dst])
  else
    if conn = f.dst then
      -- xfwd_send
      match a with
      | .ok n =>
        let k := if r.bytestream then max 1 (min n f.buf.length) else f.buf.length
        let rest := f.buf.drop k
        let f' := { f with buf := rest, passed := f.passed ++ [f.buf.take k] }
        (f', if rest.isEmpty then awaitInput r f else r, [.send f.dst f.buf])
      | .err e =>
        if e = EPIPE ∨ e = ECONNRESET then (f, { r with terminated := some 0 }, [.send f.dst f.buf, .term 0])
        else if e = EAGAIN then (f, r, [.send f.dst f.buf])
        else (f, { r with terminated := some (-1) }, [.send f.dst f.buf, .term (-1)])
      | _ => (f, r, [.send f.dst f.buf])
    else
      match a with
      | .err e => if e = EAGAIN then (f, r, [.finish f.src]) else (f, { r with terminated := some (-1) }, [.finish f.src, .term (-1)])
      | _ => (f, r, [.finish f.src])

/-- `xfwd_stop` of both forwarders -/
def stopAll (r : Relay) : Relay :=
  let r1 := delCond (delCond r r.f0.src RECEIVABLE) r.f0.dst SENDABLE
  delCond (delCond r1 r.f1.src RECEIVABLE) r.f1.dst SENDABLE

/-- `xrelay_try_finish_drain`: the relay ends (reason 0) as soon as xcm_finish on the draining connection does not say EAGAIN -/
def drainTry (r : Relay) (c : Nat) (a : Ans) : Relay × List Call :=
  match a with
  | .err e => if e = EAGAIN then (r, [.finish c]) else ({ r with terminated := some 0, draining := none }, [.finish c, .term 0])
  | _ => ({ r with terminated := some 0, draining := none }, [.finish c, .term 0])

/-- one event: forwarder number, connection whose fd is active, the environment's answer, and the answer to the xcm_finish
that follows at once if the event turns out to be the source's end of stream -/
structure Ev where
  fwd : Nat
  conn : Nat
  ans : Ans
  ans2 : Ans := .ok 0
  deriving DecidableEq, Repr

/-- `xrelay_fwd_term` after a source's end of stream: both forwarders stop, the destination is drained -/
def afterActive (r' : Relay) (a2 : Ans) (cs : List Call) : Relay × List Call :=
  match r'.terminated, r'.draining with
  | some 0, some c =>
    let r2 := stopAll { r' with terminated := none }
    let (r3, cs2) := drainTry r2 c a2
    (r3, cs ++ cs2)
  | _, _ => (r', cs)

def step (r : Relay) (e : Ev) : Relay × List Call :=
  if r.terminated.isSome then (r, [])
  else
    match r.draining with
    | some c => if e.conn = c then drainTry r c e.ans else (r, [])
    | none =>
      if e.fwd = 0 then
        let (f, r', cs) := active r r.f0 e.conn e.ans
        afterActive { r' with f0 := f } e.ans2 cs
      else
        let (f, r', cs) := active r r.f1 e.conn e.ans
        afterActive { r' with f1 := f } e.ans2 cs

def run (bs : Bool) (es : List Ev) : Relay := es.foldl (fun r e => (step r e).1) (start bs)

end XcmModel.Relay
