import XcmModel.Framing
/-
  Model of libxcm/tp/ux/xcm_tp_ux.c (ux and uxf transports): messages over an AF_UNIX
  SOCK_SEQPACKET socket.  The transport keeps no protocol state of its own besides the eight
  counters; the kernel's record-preserving socket is the environment (K-seqpacket, DESIGN §3.1):
  `send(..., MSG_EOR)` is all-or-nothing, `recv(..., MSG_TRUNC)` consumes exactly one record and
  reports its full length.
-/
namespace XcmModel.Ux
open XcmModel
abbrev Cnts := Framing.Cnts

structure St where
  cnt : Cnts := {}
  deriving DecidableEq, Repr

/-- answer of the kernel to `send(fd, buf, len, MSG_NOSIGNAL|MSG_EOR)` -/
inductive KSend where
  | ok                 -- the whole record was queued (returns len)
  | err (e : Nat)
  deriving DecidableEq, Repr

/-- answer of the kernel to `recv(fd, buf, capacity, MSG_TRUNC)` -/
inductive KRecv where
  | record (m : Bytes)    -- one record of |m| bytes is consumed; min |m| capacity bytes are copied
  | eof
  | err (e : Nat)
  deriving DecidableEq, Repr

inductive Res where
  | ok
  | msg (payload : Bytes) (full : Bytes)
  | closed
  | err (e : Nat)
  deriving DecidableEq, Repr

/-- `ux_send`; third component: the record handed to the kernel, if any.  The kernel is not
consulted at all when the size check fails. -/
def send (s : St) (m : Bytes) (k : KSend) : St × Res × Option Bytes :=
  if m.length > Generated.UX_MAX_MSG then (s, .err Framing.EMSGSIZE, none)
  else if m.length = 0 then (s, .err Framing.EINVAL, none)
  else match k with
    | .err e => (s, .err e, none)
    | .ok =>
      ({ s with cnt := { s.cnt with fromAppB := s.cnt.fromAppB + m.length, fromAppM := s.cnt.fromAppM + 1,
                                    toLowerB := s.cnt.toLowerB + m.length, toLowerM := s.cnt.toLowerM + 1 } },
       .ok, some m)

/-- `ux_receive` -/
def receive (s : St) (cap : Nat) (k : KRecv) : St × Res :=
  match k with
  | .eof => (s, .closed)
  | .err e => (s, .err e)
  | .record m =>
    if m.length = 0 then (s, .closed)       -- a zero-length record is indistinguishable from EOF
    else
      let user := min m.length cap
      ({ s with cnt := { s.cnt with fromLowerB := s.cnt.fromLowerB + m.length, fromLowerM := s.cnt.fromLowerM + 1,
                                    toAppB := s.cnt.toAppB + user, toAppM := s.cnt.toAppM + 1 } },
       if user = 0 then .closed else .msg (m.take cap) m)

/-- `ux_finish` -/
def finish (s : St) : St × Res := (s, .ok)

def EPOLLIN : Nat := 1
def EPOLLOUT : Nat := 4

/-- `conn_event` -/
def connEvent (cond : Nat) : Nat :=
  (if cond &&& Generated.XCM_SO_RECEIVABLE ≠ 0 then EPOLLIN else 0) |||
  (if cond &&& Generated.XCM_SO_SENDABLE ≠ 0 then EPOLLOUT else 0)

/-- `server_event` -/
def serverEvent (cond : Nat) : Nat :=
  if cond = Generated.XCM_SO_ACCEPTABLE then EPOLLIN else 0

/-! ### Two endpoints over a K-seqpacket channel -/

/-- One direction of a connection: sender `a`, receiver `b`, the kernel's record queue, and
ghost history. -/
structure Link where
  a : St := {}
  b : St := {}
  chan : List Bytes := []         -- records queued in the kernel, oldest first
  accepted : List Bytes := []     -- messages whose xcm_send returned 0
  returned : List Bytes := []     -- payloads returned by successful xcm_receive
  fulls : List Bytes := []        -- the records those receives consumed
  caps : List Nat := []           -- their capacities
  deriving Repr

inductive Step where
  | send (m : Bytes) (kernelAccepts : Option Nat)   -- `some e`: the kernel refuses with errno e
  | recv (cap : Nat) (again : Option Nat)            -- `some e`: recv fails with e (EAGAIN, ...) consuming nothing
  | finishA
  | finishB
  deriving Repr

def Link.step (l : Link) : Step → Link
  | .send m ke =>
    let (a', r, handed) := send l.a m (match ke with | none => .ok | some e => .err e)
    let l' := { l with a := a' }
    let l' := match handed with | some rcd => { l' with chan := l'.chan ++ [rcd] } | none => l'
    match r with
    | .ok => { l' with accepted := l'.accepted ++ [m] }
    | _ => l'
  | .recv cap ag =>
    match ag with
    | some e => { l with b := (receive l.b cap (.err e)).1 }
    | none =>
      match l.chan with
      | [] => { l with b := (receive l.b cap (.err Framing.EAGAIN)).1 }
      | rcd :: rest =>
        let (b', r) := receive l.b cap (.record rcd)
        let l' := { l with b := b', chan := rest }
        match r with
        | .msg p f => { l' with returned := l'.returned ++ [p], fulls := l'.fulls ++ [f], caps := l'.caps ++ [cap] }
        | _ => { l' with fulls := l'.fulls ++ [rcd], caps := l'.caps ++ [cap], returned := l'.returned ++ [rcd.take cap] }
  | .finishA => { l with a := (finish l.a).1 }
  | .finishB => { l with b := (finish l.b).1 }

def Link.run (l : Link) (steps : List Step) : Link := steps.foldl Link.step l

end XcmModel.Ux
