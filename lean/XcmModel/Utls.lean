import XcmModel.Basic
import XcmModel.Generated.Consts
/-
  Model of libxcm/tp/tls/xcm_tp_utls.c: a UTLS socket is a pair of sub-sockets (UX and TLS) of which a connection
  keeps exactly one.  Everything the sub-sockets do is the environment: each call to a sub-socket that can fail
  consumes one scripted answer.  The model records the trace of sub-socket calls and which of the two pointers
  are non-NULL.

  Contract of the sub-transports (xcm_tp.h, as xcm.c uses it): a sub-socket that was initialised must be closed (or
  cleaned up) before it is destroyed; one whose connect / server / accept failed has released its own resources and must
  only be destroyed.
-/
namespace XcmModel.Utls
open XcmModel

inductive Sub where
  | ux | tls
  deriving DecidableEq, Repr

inductive Call where
  | create (s : Sub)
  -- the four calls after which a sub-socket either holds its resources (`ok`) or has released them itself
  | init (s : Sub) (ok : Bool) | connect (s : Sub) (ok : Bool) | server (s : Sub) (ok : Bool) | accept (s : Sub) (ok : Bool)
  | close (s : Sub) | cleanup (s : Sub) | destroy (s : Sub)
  | send (s : Sub) | receive (s : Sub) | update (s : Sub) (cond : Nat) | finish (s : Sub) | getCnt (s : Sub)
  | updateSrv (s : Sub) (cond : Nat)      -- update of a *server's* sub-socket
  | localAddr (s : Sub)
  deriving DecidableEq, Repr

inductive Ans where
  | ok
  | err (e : Nat)
  deriving DecidableEq, Repr

structure St where
  isConn : Bool := true
  ux : Bool := false      -- us->ux_socket != NULL
  tls : Bool := false     -- us->tls_socket != NULL
  deriving DecidableEq, Repr

def ECONNREFUSED := Generated.ECONNREFUSED

def pop (a : List Ans) : Ans × List Ans :=
  match a with
  | [] => (.ok, [])
  | x :: t => (x, t)

/-- result of a utls operation: 0 or -1 with the errno of the failing sub-socket call -/
abbrev Res := Ans

/-- `create_sub_socket`: xcm_tp_socket_create cannot fail (memory exhaustion aborts); init may -/
def createSub (sub : Sub) (a : List Ans) : Bool × List Call × List Ans :=
  let (r, a1) := pop a
  match r with
  | .ok => (true, [.create sub, .init sub true], a1)
  | .err _ => (false, [.create sub, .init sub false, .destroy sub], a1)

/-- `utls_init` -/
def init (isConn : Bool) (a : List Ans) : St × Res × List Call × List Ans :=
  let (u, t1, a1) := createSub .ux a
  let (t, t2, a2) := createSub .tls a1
  if u && t then ({ isConn := isConn, ux := true, tls := true }, .ok, t1 ++ t2, a2)
  else
    -- xcm_tp_socket_destroy(us->ux_socket) only: an initialised TLS sub-socket would be dropped here (ux_init cannot fail
    -- and holds nothing, so in this code base the branch is reached with ux initialised and tls NULL only)
    ({ isConn := isConn, ux := false, tls := t }, .err 0, t1 ++ t2 ++ (if u then [.destroy .ux] else []), a2)

/-- `deinit`: destroys whatever is left -/
def deinitCalls (s : St) : List Call :=
  (if s.ux then [.destroy .ux] else []) ++ (if s.tls then [.destroy .tls] else [])

/-- `utls_connect` (the address conversion succeeded) -/
def connect (s : St) (a : List Ans) : St × Res × List Call × List Ans :=
  let (r1, a1) := pop a
  match r1 with
  | .ok => ({ s with tls := false }, .ok, [.connect .ux true, .close .tls, .destroy .tls], a1)
  | .err e =>
    if e ≠ ECONNREFUSED then
      ({ s with ux := false, tls := false }, .err e, [.connect .ux false, .close .tls] ++ deinitCalls s, a1)
    else
      let (r2, a2) := pop a1
      match r2 with
      | .ok => ({ s with ux := false }, .ok, [.connect .ux false, .connect .tls true, .destroy .ux], a2)
      | .err e2 => ({ s with ux := false, tls := false }, .err e2, [.connect .ux false, .connect .tls false] ++ deinitCalls s, a2)

/-- `utls_connect` when the address does not parse: both sub-sockets are closed and destroyed -/
def connectBadAddr (s : St) : St × List Call :=
  ({ s with ux := false, tls := false }, [.close .ux, .close .tls] ++ deinitCalls s)

/-- `utls_server` (address parsed); `dyn`: port 0 was asked for, the TLS sub-server's address is read back -/
def server (s : St) (dyn : Bool) (a : List Ans) : St × Res × List Call × List Ans :=
  let (r1, a1) := pop a
  match r1 with
  | .err e =>
    -- bind_sub_server destroyed and cleared the TLS sub-socket; the UX one is closed, then deinit
    ({ s with ux := false, tls := false }, .err e, [.server .tls false, .destroy .tls, .close .ux, .destroy .ux], a1)
  | .ok =>
    let la : List Call := if dyn then [.localAddr .tls] else []
    let (r2, a2) := pop a1
    match r2 with
    | .ok => (s, .ok, [.server .tls true] ++ la ++ [.server .ux true], a2)
    | .err e =>
      ({ s with ux := false, tls := false }, .err e,
       [.server .tls true] ++ la ++ [.server .ux false, .destroy .ux, .close .tls, .destroy .tls], a2)   -- close(NULL) of the UX pointer is a no-op

/-- `utls_accept`: conn socket `c` (both sub-sockets initialised); `srvCond`: the condition last synchronised to the
server's sub-sockets - the dispatch layer (`xcm_tp_socket_accept`) re-evaluates the server sub-socket after every attempt -/
def accept (c : St) (srvCond : Nat) (a : List Ans) : St × Res × List Call × List Ans :=
  let (r1, a1) := pop a
  match r1 with
  | .ok => ({ c with tls := false }, .ok, [.accept .ux true, .updateSrv .ux srvCond, .close .tls, .destroy .tls], a1)
  | .err _ =>
    let (r2, a2) := pop a1
    match r2 with
    | .ok => ({ c with ux := false }, .ok, [.accept .ux false, .updateSrv .ux srvCond, .accept .tls true, .updateSrv .tls srvCond, .destroy .ux], a2)
    | .err e2 => ({ c with ux := false, tls := false }, .err e2,
                   [.accept .ux false, .updateSrv .ux srvCond, .accept .tls false, .updateSrv .tls srvCond] ++ deinitCalls c, a2)

/-- `active_sub_conn` -/
def active (s : St) : Sub := if s.ux then .ux else .tls

/-- `utls_close` / `utls_cleanup` -/
def close (s : St) (cleanup : Bool) : St × List Call :=
  let f : Sub → Call := if cleanup then .cleanup else .close
  ({ s with ux := false, tls := false },
   (if s.ux then [f .ux] else []) ++ (if s.tls then [f .tls] else []) ++ deinitCalls s)

/-- `utls_send`, `utls_receive`, `utls_get_cnt` on a connection: pure delegation, the sub-socket's answer is the result -/
def send (s : St) (a : List Ans) : Res × List Call × List Ans :=
  let (r, a1) := pop a; (r, [.send (active s)], a1)
def receive (s : St) (a : List Ans) : Res × List Call × List Ans :=
  let (r, a1) := pop a; (r, [.receive (active s)], a1)
def getCnt (s : St) : List Call := [.getCnt (active s)]

/-- `utls_update` -/
def update (s : St) (cond : Nat) : List Call :=
  if s.isConn then [.update (active s) cond] else [.updateSrv .ux cond, .updateSrv .tls cond]

/-- `utls_finish` -/
def finish (s : St) (a : List Ans) : Res × List Call × List Ans :=
  if s.isConn then
    let (r, a1) := pop a; (r, [.finish (active s)], a1)
  else
    let (r1, a1) := pop a
    match r1 with
    | .err e => (.err e, [.finish .ux], a1)
    | .ok =>
      let (r2, a2) := pop a1
      (r2, [.finish .ux, .finish .tls], a2)

end XcmModel.Utls
