import XcmModel.Basic
/-
  Model of libxcm/core/xcm_attr_map.c.  The C keeps a singly linked list with
  `LIST_INSERT_HEAD`; the model keeps the same list, head first, so iteration
  order (`xcm_attr_map_foreach`) is part of the model and is compared with the
  implementation.
-/
namespace XcmModel.AttrMap
open XcmModel

/-- `enum xcm_attr_type` in source order (checked by the extractor). -/
inductive Ty where
  | bool | int64 | str | bin | double
  deriving DecidableEq, Repr

structure Attr where
  name : Bytes
  ty : Ty
  val : Bytes
  deriving DecidableEq, Repr

abbrev Map := List Attr

/-- `assert_valid_len` -/
def validLen (t : Ty) (len : Nat) : Bool :=
  match t with
  | .bool => len == 1
  | .int64 => len == 8
  | .double => len == 8
  | .str => true
  | .bin => true

def lookup (m : Map) (n : Bytes) : Option Attr := m.find? (fun a => a.name == n)

/-- `xcm_attr_map_del`: removes the first entry with that name. -/
def del (m : Map) (n : Bytes) : Map := m.eraseP (fun a => a.name == n)

/-- `xcm_attr_map_add` (valid length assumed; see `addChecked`). -/
def add (m : Map) (a : Attr) : Map := a :: del m a.name

/-- `xcm_attr_map_add` including the `ut_assert` on the value length. -/
def addChecked (m : Map) (a : Attr) : Outcome Map :=
  if validLen a.ty a.val.length then .ok (add m a) else .abort "assert_valid_len"

def size (m : Map) : Nat := m.length

def get (m : Map) (n : Bytes) : Option (Ty × Bytes) := (lookup m n).map fun a => (a.ty, a.val)

/-- `lookup_value_with_type` -/
def getTyped (m : Map) (n : Bytes) (t : Ty) : Option Bytes :=
  match lookup m n with
  | some a => if a.ty = t then some a.val else none
  | none => none

def «exists» (m : Map) (n : Bytes) : Bool := (lookup m n).isSome

/-- `xcm_attr_map_foreach` visits in list order. -/
def foreach (m : Map) : List Attr := m

/-- `xcm_attr_map_add_all` when `dst != src` -/
def addAll (dst src : Map) : Map := src.foldl add dst

/-- `xcm_attr_map_clone` = create + foreach(add) -/
def clone (m : Map) : Map := addAll [] m

/-- `xcm_attr_map_equal` -/
def equal (a b : Map) : Bool :=
  a.length == b.length &&
  a.all fun x =>
    match lookup b x.name with
    | some y => decide (y.ty = x.ty) && y.val == x.val
    | none => false

end XcmModel.AttrMap
