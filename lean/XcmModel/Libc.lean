import XcmModel.Basic
/-
  Models of the few glibc functions XCM's parsers and printers rely on.
  They are validated against the real libc by the `unit_libc` correspondence
  (see DESIGN.md §3.1); nothing here is assumed without being run against libc.
-/
namespace XcmModel.Libc

/-- `isspace` in the "C" locale. -/
def isSpace (c : UInt8) : Bool := c == 32 || (9 ≤ c && c ≤ 13)

def isDigit (c : UInt8) : Bool := 48 ≤ c && c ≤ 57

def digitVal (c : UInt8) : Nat := c.toNat - 48

/-- Value of a string of decimal digits (most significant first). -/
def digitsVal (ds : Bytes) : Nat := ds.foldl (fun a d => a * 10 + digitVal d) 0

def LONG_MAX : Nat := 2 ^ 63 - 1

/-- optional sign of `strtol`: (negative?, rest, characters used) -/
def strtolSign (r : Bytes) : Bool × Bytes × Nat :=
  match r with
  | 45 :: t => (true, t, 1)
  | 43 :: t => (false, t, 1)
  | _ => (false, r, 0)

/-- clamping of `strtol` to `LONG_MIN..LONG_MAX` -/
def strtolVal (neg : Bool) (v : Nat) : Int :=
  if neg then (if v > LONG_MAX + 1 then -((LONG_MAX + 1 : Nat) : Int) else -(v : Int))
  else (if v > LONG_MAX then (LONG_MAX : Int) else (v : Int))

/-- `strtol(s, &end, 10)`: returns the (clamped) value and `end - s`.
`end - s = 0` when no digits were found, as in C. -/
def strtol (s : Bytes) : Int × Nat :=
  let sg := strtolSign (s.dropWhile isSpace)
  let ds := sg.2.1.takeWhile isDigit
  if ds.isEmpty then (0, 0)
  else (strtolVal sg.1 (digitsVal ds), (s.takeWhile isSpace).length + sg.2.2 + ds.length)

/-- Decimal digits of `n`, least significant first, with fuel. -/
def decRev : Nat → Nat → Bytes
  | 0, _ => []
  | fuel + 1, n =>
    if n < 10 then [UInt8.ofNat (48 + n)]
    else UInt8.ofNat (48 + n % 10) :: decRev fuel (n / 10)

/-- `printf("%zd"/"%d", n)` for a non-negative `n`. -/
def natToDec (n : Nat) : Bytes := (decRev (n + 1) n).reverse

end XcmModel.Libc
