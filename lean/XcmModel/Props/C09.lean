import XcmModel.Lemmas.Btls
/-!
# C09 — TLS never fails open (connection machine of xcm_tp_btls.c)

OpenSSL performs the chain, validity, CRL, key-usage and name checks that `set_verify` /
`enable_hostname_validation` configure (see the policy matrix run by `sys_tls`, which observes real
OpenSSL against generated credentials).  What XCM itself decides - and what these theorems settle
for every history of calls and every answer OpenSSL can give - is what happens with the verdict:

* a connection is `ready` (xcm_finish succeeds, SSL_write/SSL_read are called at all, bytes reach
  the application or are accepted from it) only if the handshake call has returned success AND,
  with tls.auth on, a certificate was presented and `SSL_get_verify_result` was X509_V_OK;
* otherwise the call that completes the handshake turns the connection `bad(EPROTO)`, reports
  EPROTO itself, and nothing is ever written or delivered afterwards.
-/
namespace XcmModel.C09
open XcmModel XcmModel.Btls

/-- every reachable state, for every sequence of calls and every OpenSSL answer: usable ⇒ verified,
and any byte accepted from or delivered to the application ⇒ verified -/
theorem C09_usable_only_if_verified (auth : Bool) (ops : List Op) :
    let s := run { auth := auth } ops
    (s.state = .ready → Verified s) ∧ (s.written ≠ [] → Verified s) ∧ (s.delivered ≠ [] → Verified s) := by
  have h := run_inv ops (init_inv auth)
  exact ⟨h.readyVerified, fun x => h.ioVerified (Or.inl x), fun x => h.ioVerified (Or.inr x)⟩

/-- `xcm_finish` returns 0 only on a verified connection -/
theorem C09_finish_success_only_if_verified {s : St} (hi : Inv s) (h : HAns) (l : Option Nat) (k : Nat) (p : Bytes)
    (hr : (finish s h l).2 = .n k p) : Verified (finish s h l).1 := by
  have h1 := tfh_inv hi h
  unfold finish at hr ⊢
  generalize tryFinishHandshake s h = s1 at h1 hr
  simp only at hr ⊢
  split at hr
  · cases hr
  · rename_i hs; split <;> first | exact h1.readyVerified hs | simp_all
  · cases hr
  · cases hr

/-- OpenSSL is asked to encrypt application data (`SSL_write` is called at all) only on a verified connection -/
theorem C09_no_write_unless_verified {s : St} (hi : Inv s) (buf : Bytes) (h : HAns) (w : WAns)
    (hc : (send s buf h w).2.2 = true) : Verified (tryFinishHandshake s h) ∧ (tryFinishHandshake s h).state = .ready := by
  have h1 := tfh_inv hi h
  unfold send at hc
  generalize tryFinishHandshake s h = s1 at h1 hc ⊢
  simp only at hc
  split at hc
  · cases hc
  · cases hc
  · cases hc
  · rename_i hs; exact ⟨h1.readyVerified hs, hs⟩

/-- `SSL_read` is called - and so received plaintext can reach the application - only on a verified connection -/
theorem C09_no_read_unless_verified {s : St} (hi : Inv s) (cap : Nat) (h : HAns) (r : RAns)
    (hc : (receive s cap h r).2.2 = true) : Verified (tryFinishHandshake s h) ∧ (tryFinishHandshake s h).state = .ready := by
  have h1 := tfh_inv hi h
  unfold receive at hc
  generalize tryFinishHandshake s h = s1 at h1 hc ⊢
  simp only at hc
  split at hc
  · cases hc
  · cases hc
  · cases hc
  · rename_i hs; exact ⟨h1.readyVerified hs, hs⟩

/-- policy not met: the step that completes the handshake makes the connection `bad(EPROTO)` -/
theorem C09_policy_failure_bad (s : St) (cert : CertRes) (hs : s.state = .handshaking) (ha : s.auth = true)
    (hc : cert ≠ .ok) : (tryFinishHandshake s (.done cert)).state = .bad EPROTO := by
  unfold tryFinishHandshake
  rw [if_neg (by simp [hs])]
  simp only [ha, if_true]

/-- ... and whichever API call performed that step reports EPROTO itself, without any SSL I/O and without
accepting or delivering a byte -/
theorem C09_policy_failure_reports_EPROTO (s : St) (cert : CertRes) (hs : s.state = .handshaking) (ha : s.auth = true)
    (hc : cert ≠ .ok) :
    (∀ buf w, (send s buf (.done cert) w).2 = (.err EPROTO, false) ∧ (send s buf (.done cert) w).1.written = s.written) ∧
    (∀ cap r, (receive s cap (.done cert) r).2 = (.err EPROTO, false) ∧ (receive s cap (.done cert) r).1.delivered = s.delivered) ∧
    (∀ l, (finish s (.done cert) l).2 = .err EPROTO) := by
  have hb := C09_policy_failure_bad s cert hs ha hc
  have hw : (tryFinishHandshake s (.done cert)).written = s.written ∧ (tryFinishHandshake s (.done cert)).delivered = s.delivered := by
    unfold tryFinishHandshake
    rw [if_neg (by simp [hs])]
    simp only [ha, if_true]
    cases cert <;> simp_all
  refine ⟨fun buf w => ?_, fun cap r => ?_, fun l => ?_⟩
  · unfold send
    generalize tryFinishHandshake s (.done cert) = s1 at hb hw
    simp only [hb]; exact ⟨trivial, hw.1⟩
  · unfold receive
    generalize tryFinishHandshake s (.done cert) = s1 at hb hw
    simp only [hb]; exact ⟨trivial, hw.2⟩
  · unfold finish
    generalize tryFinishHandshake s (.done cert) = s1 at hb hw
    simp only [hb]

/-- with tls.auth on, a connection whose peer was not accepted never transmits or delivers anything and never
becomes usable, in any continuation -/
theorem C09_rejected_peer_never_served (cert : CertRes) (hc : cert ≠ .ok) (pre post : List Op)
    (hpre : (run { auth := true } pre).state = .handshaking) (hauth : (run { auth := true } pre).auth = true) :
    let s := run (tryFinishHandshake (run { auth := true } pre) (.done cert)) post
    s.written = [] ∧ s.delivered = [] ∧ s.state = .bad EPROTO := by
  intro s
  have hi0 := run_inv pre (init_inv true)
  have hb := C09_policy_failure_bad _ cert hpre hauth hc
  have hs : s = tryFinishHandshake (run { auth := true } pre) (.done cert) := run_terminal post (Or.inr ⟨_, hb⟩)
  rw [hs]
  have hd := tfh_data (run { auth := true } pre) (.done cert)
  have h0 := hi0.hsOnce hpre
  exact ⟨hd.1.trans h0.2.1, hd.2.1.trans h0.2.2, hb⟩

/-- non-vacuity: an accepted certificate does make the connection usable, with and without authentication -/
example : (tryFinishHandshake { auth := true } (.done .ok)).state = .ready ∧
          (tryFinishHandshake { auth := false } (.done .none)).state = .ready ∧
          (tryFinishHandshake { auth := true } (.done .rejected)).state = .bad EPROTO ∧
          (tryFinishHandshake { auth := true } (.done .none)).state = .bad EPROTO := by decide

end XcmModel.C09
