import XcmModel.TlsPolicy
import XcmModel.Lemmas.Btls
/-!
# C09 — TLS never fails open (connection machine of xcm_tp_btls.c)

OpenSSL performs the chain, validity, CRL, key-usage and name checks that `set_verify` /
`enable_hostname_validation` configure (see the policy matrix run by `sys_tls`, which observes real
OpenSSL against generated credentials).  What XCM itself decides - and what these theorems settle
for every history of calls and every answer OpenSSL can give - is what happens with the verdict:

* a connection is `ready` (xcm_finish succeeds, SSL_write/SSL_read are called at all, bytes reach
  the application or are accepted from it) only if the handshake call has returned success AND,
  with tls.auth on, a certificate was presented and `SSL_get_verify_result` was X509_V_OK;
* otherwise the call that completes the handshake turns the connection `bad(EPROTO)`, reports
  EPROTO itself, and nothing is ever written or delivered afterwards.
-/
namespace XcmModel.C09
open XcmModel XcmModel.Btls

/-- every reachable state, for every sequence of calls and every OpenSSL answer: usable ⇒ verified,
and any byte accepted from or delivered to the application ⇒ verified -/
theorem C09_usable_only_if_verified (auth : Bool) (ops : List Op) :
    let s := run { auth := auth } ops
    (s.state = .ready → Verified s) ∧ (s.written ≠ [] → Verified s) ∧ (s.delivered ≠ [] → Verified s) ∧
    (s.accepted ≠ [] → Verified s) := by
  have h := run_inv ops (init_inv auth)
  exact ⟨h.readyVerified, fun x => h.ioVerified (Or.inl x), fun x => h.ioVerified (Or.inr (Or.inl x)),
    fun x => h.ioVerified (Or.inr (Or.inr x))⟩

/-- `xcm_finish` returns 0 only on a verified connection -/
theorem C09_finish_success_only_if_verified {s : St} (hi : Inv s) (h : HAns) (ws : List WAns) (l : Option Nat) (k : Nat) (p : Bytes)
    (hr : (finish s h ws l).2.1 = .n k p) : Verified (finish s h ws l).1 := by
  have h1 := tfh_inv hi h
  revert hr
  unfold finish
  generalize tryFinishHandshake s h = s1 at h1
  simp only
  split
  · intro hr; cases hr
  · rename_i hs
    have fc := flush_core (s1.pend.length + 1) s1 ws
    cases hf : flushPending (s1.pend.length + 1) s1 ws with
    | mk sf rest3 =>
      obtain ⟨fr, rest, nf⟩ := rest3
      rw [hf] at fc
      simp only
      cases fr with
      | some r => intro _; exact verified_of_fields fc.1.auth fc.1.hd fc.1.verdict (h1.readyVerified hs)
      | none => intro _; exact verified_of_fields fc.1.auth fc.1.hd fc.1.verdict (h1.readyVerified hs)
  · intro hr; cases hr
  · intro hr; cases hr

/-- OpenSSL is asked to encrypt application data (`SSL_write` is called at all) only on a verified connection -/
theorem C09_no_write_unless_verified {s : St} (hi : Inv s) (buf : Bytes) (h : HAns) (ws : List WAns)
    (hc : (send s buf h ws).2.2 ≠ 0) : Verified (tryFinishHandshake s h) ∧ (tryFinishHandshake s h).state = .ready := by
  have h1 := tfh_inv hi h
  unfold send at hc
  generalize tryFinishHandshake s h = s1 at h1 hc ⊢
  simp only at hc
  split at hc
  · exact absurd rfl hc
  · exact absurd rfl hc
  · exact absurd rfl hc
  · rename_i hs; exact ⟨h1.readyVerified hs, hs⟩

/-- `SSL_read` or (for retained output) `SSL_write` is called from xcm_receive - and so plaintext can move - only on a
verified connection -/
theorem C09_no_read_unless_verified {s : St} (hi : Inv s) (cap : Nat) (h : HAns) (ws : List WAns) (r : RAns)
    (hc : (receive s cap h ws r).2.2.1 = true ∨ (receive s cap h ws r).2.2.2 ≠ 0) :
    Verified (tryFinishHandshake s h) ∧ (tryFinishHandshake s h).state = .ready := by
  have h1 := tfh_inv hi h
  unfold receive at hc
  generalize tryFinishHandshake s h = s1 at h1 hc ⊢
  simp only at hc
  split at hc
  · rcases hc with hc | hc; cases hc; exact absurd rfl hc
  · rcases hc with hc | hc; cases hc; exact absurd rfl hc
  · rcases hc with hc | hc; cases hc; exact absurd rfl hc
  · rename_i hs; exact ⟨h1.readyVerified hs, hs⟩

/-- policy not met: the step that completes the handshake makes the connection `bad(EPROTO)` -/
theorem C09_policy_failure_bad (s : St) (cert : CertRes) (hs : s.state = .handshaking) (ha : s.auth = true)
    (hc : cert ≠ .ok) : (tryFinishHandshake s (.done cert)).state = .bad EPROTO := by
  unfold tryFinishHandshake
  rw [if_neg (by simp [hs])]
  simp only [ha, if_true]

/-- ... and whichever API call performed that step reports EPROTO itself, without any SSL I/O and without
accepting or delivering a byte -/
theorem C09_policy_failure_reports_EPROTO (s : St) (cert : CertRes) (hs : s.state = .handshaking) (ha : s.auth = true)
    (hc : cert ≠ .ok) :
    (∀ buf ws, (send s buf (.done cert) ws).2 = (.err EPROTO, 0) ∧ (send s buf (.done cert) ws).1.accepted = s.accepted) ∧
    (∀ cap ws r, (receive s cap (.done cert) ws r).2 = (.err EPROTO, false, 0) ∧ (receive s cap (.done cert) ws r).1.delivered = s.delivered) ∧
    (∀ ws l, (finish s (.done cert) ws l).2 = (.err EPROTO, 0)) := by
  have hb := C09_policy_failure_bad s cert hs ha hc
  have hw := tfh_data s (.done cert)
  refine ⟨fun buf w => ?_, fun cap w r => ?_, fun w l => ?_⟩
  · unfold send
    generalize tryFinishHandshake s (.done cert) = s1 at hb hw
    simp only [hb]; exact ⟨trivial, hw.2.2.2.1⟩
  · unfold receive
    generalize tryFinishHandshake s (.done cert) = s1 at hb hw
    simp only [hb]; exact ⟨trivial, hw.2.1⟩
  · unfold finish
    generalize tryFinishHandshake s (.done cert) = s1 at hb hw
    simp only [hb]

/-- with tls.auth on, a connection whose peer was not accepted never transmits or delivers anything and never
becomes usable, in any continuation -/
theorem C09_rejected_peer_never_served (cert : CertRes) (hc : cert ≠ .ok) (pre post : List Op)
    (hpre : (run { auth := true } pre).state = .handshaking) (hauth : (run { auth := true } pre).auth = true) :
    let s := run (tryFinishHandshake (run { auth := true } pre) (.done cert)) post
    s.written = [] ∧ s.delivered = [] ∧ s.accepted = [] ∧ s.state = .bad EPROTO := by
  intro s
  have hi0 := run_inv pre (init_inv true)
  have hb := C09_policy_failure_bad _ cert hpre hauth hc
  have hs : s = tryFinishHandshake (run { auth := true } pre) (.done cert) := run_terminal post (Or.inr ⟨_, hb⟩)
  rw [hs]
  have hd := tfh_data (run { auth := true } pre) (.done cert)
  have h0 := hi0.hsOnce hpre
  exact ⟨hd.1.trans h0.2.1, hd.2.1.trans h0.2.2.1, hd.2.2.2.1.trans h0.2.2.2.2, hb⟩

/-- non-vacuity: an accepted certificate does make the connection usable, with and without authentication -/
example : (tryFinishHandshake { auth := true } (.done .ok)).state = .ready ∧
          (tryFinishHandshake { auth := false } (.done .none)).state = .ready ∧
          (tryFinishHandshake { auth := true } (.done .rejected)).state = .bad EPROTO ∧
          (tryFinishHandshake { auth := true } (.done .none)).state = .bad EPROTO := by decide

end XcmModel.C09

/-! ## the policy configuration: inheritance, overrides, invalid combinations, and what the configured verification decides -/
namespace XcmModel.C09pol
open XcmModel XcmModel.TlsPolicy

theorem isSet_orDflt (s : Src) : isSet (orDflt s) = true := by
  cases s <;> simp [orDflt, isSet]

theorem finTc_spec (a : Bool) (tc : Src) (st : Bool) (tc' : Src) (h : finTc a tc st = some tc') : a = isSet tc' := by
  unfold finTc at h
  cases a <;> cases hs : isSet tc <;> cases st <;> simp [hs] at h <;> subst h <;>
    first | rfl | exact hs.symm | exact (isSet_orDflt _).symm

theorem finCrl_spec (a cc : Bool) (crl : Src) (st : Bool) (crl' : Src) (h : finCrl a cc crl st = some crl') :
    cc = isSet crl' ∧ (cc = true → a = true) := by
  unfold finCrl at h
  cases a <;> cases cc <;> cases hs : isSet crl <;> cases st <;> simp [hs] at h <;> subst h <;>
    first | exact ⟨rfl, fun x => by cases x⟩ | exact ⟨hs.symm, fun x => by cases x⟩ | exact ⟨(isSet_orDflt _).symm, fun _ => rfl⟩ | exact ⟨rfl, fun _ => rfl⟩ | exact ⟨hs.symm, fun _ => rfl⟩

theorem finNames_spec (vn : Bool) (ns : Option (List String)) (st : Bool) (ns' : Option (List String))
    (h : finNames vn ns st = some ns') : ns'.isSome = true → vn = true := by
  unfold finNames at h
  cases vn <;> cases hs : ns.isSome <;> cases st <;> simp [hs] at h <;> subst h <;> simp [hs]

/-- a finalized configuration is consistent - exactly what the `ut_assert`s after `finalize_tls_conf` demand (they cannot
fire) - and complete: certificate and key designated, trust anchors iff authentication, CRLs iff CRL checking, CRL
checking only with authentication, expected names only with name verification; the switches are unchanged -/
theorem C09_finalize_sound (c c' : Conf) (h : finalize c = some c') :
    c'.auth = isSet c'.tc ∧ c'.checkCrl = isSet c'.crl ∧ isSet c'.cert = true ∧ isSet c'.key = true ∧
    (c'.checkCrl = true → c'.auth = true) ∧ (c'.names.isSome = true → c'.verifyName = true) ∧
    c'.auth = c.auth ∧ c'.checkCrl = c.checkCrl ∧ c'.checkTime = c.checkTime ∧ c'.verifyName = c.verifyName ∧
    c'.tlsClient = c.tlsClient := by
  unfold finalize at h
  cases h1 : finTc c.auth c.tc c.tcSet with
  | none => simp [h1] at h
  | some tc =>
    cases h2 : finCrl c.auth c.checkCrl c.crl c.crlSet with
    | none => simp [h1, h2] at h
    | some crl =>
      cases h3 : finNames c.verifyName c.names c.namesSet with
      | none => simp [h1, h2, h3] at h
      | some names =>
        simp only [h1, h2, h3, Option.some.injEq] at h
        subst h
        have a := finTc_spec _ _ _ _ h1
        have b := finCrl_spec _ _ _ _ _ h2
        have d := finNames_spec _ _ _ _ h3
        exact ⟨a, b.1, isSet_orDflt _, isSet_orDflt _, b.2, d, rfl, rfl, rfl, rfl, rfl⟩

/-- invalid combinations are refused (EINVAL): trusted CAs set explicitly without authentication, CRL checking without
authentication, CRLs set explicitly without CRL checking, expected names set explicitly without name verification -/
theorem C09_invalid_combinations_refused (c : Conf) :
    (c.auth = false ∧ isSet c.tc = true ∧ c.tcSet = true → finalize c = none) ∧
    (c.auth = false ∧ c.checkCrl = true → finalize c = none) ∧
    (c.checkCrl = false ∧ isSet c.crl = true ∧ c.crlSet = true → finalize c = none) ∧
    (c.verifyName = false ∧ c.names.isSome = true ∧ c.namesSet = true → finalize c = none) := by
  refine ⟨fun h => ?_, fun h => ?_, fun h => ?_, fun h => ?_⟩
  · have : finTc c.auth c.tc c.tcSet = none := by simp [finTc, h.1, h.2.1, h.2.2]
    simp [finalize, this]
  · have : finCrl c.auth c.checkCrl c.crl c.crlSet = none := by simp [finCrl, h.1, h.2]
    unfold finalize; rw [this]; split <;> simp_all
  · have : finCrl c.auth c.checkCrl c.crl c.crlSet = none := by
      cases ha : c.auth <;> simp [finCrl, h.1, h.2.1, h.2.2]
    unfold finalize; rw [this]; split <;> simp_all
  · have : finNames c.verifyName c.names c.namesSet = none := by simp [finNames, h.1, h.2.1, h.2.2]
    unfold finalize; rw [this]; split <;> simp_all

/-- name verification without authentication, or without any name to compare with, is refused (EINVAL) -/
theorem C09_name_verification_needs_auth_and_names (c : Conf) (a : Option String) (hv : c.verifyName = true) :
    (c.auth = false → hostnameOk c a = none) ∧ (c.names = none → a = none → hostnameOk c a = none) := by
  refine ⟨fun h => ?_, fun h1 h2 => ?_⟩
  · simp only [hostnameOk, hv]
    cases hn : c.names <;> cases a <;> simp [h]
  · simp [hostnameOk, hv, h1, h2]

theorem setAttrs_nil (c : Conf) : setAttrs c [] = c := rfl

/-- policy attributes of a server socket govern its accepted connections unless overridden in xcm_accept_a: a switch
that no accept attribute mentions has the server socket's value -/
theorem C09_inherited_policy_governs (p : Conf) (as : List Attr) :
    ((∀ b, Attr.auth b ∉ as) → (setAttrs (inherit p) as).auth = p.auth) ∧
    ((∀ b, Attr.checkCrl b ∉ as) → (setAttrs (inherit p) as).checkCrl = p.checkCrl) ∧
    ((∀ b, Attr.checkTime b ∉ as) → (setAttrs (inherit p) as).checkTime = p.checkTime) ∧
    ((∀ b, Attr.verifyName b ∉ as) → (setAttrs (inherit p) as).verifyName = p.verifyName) ∧
    ((∀ b, Attr.client b ∉ as) → (setAttrs (inherit p) as).tlsClient = p.tlsClient) ∧
    ((∀ x, Attr.tc x ∉ as) → (setAttrs (inherit p) as).tc = p.tc ∧ (setAttrs (inherit p) as).tcSet = false) ∧
    ((∀ x, Attr.names x ∉ as) → (setAttrs (inherit p) as).names = p.names) := by
  have gen : ∀ (as : List Attr) (c : Conf),
      ((∀ b, Attr.auth b ∉ as) → (setAttrs c as).auth = c.auth) ∧
      ((∀ b, Attr.checkCrl b ∉ as) → (setAttrs c as).checkCrl = c.checkCrl) ∧
      ((∀ b, Attr.checkTime b ∉ as) → (setAttrs c as).checkTime = c.checkTime) ∧
      ((∀ b, Attr.verifyName b ∉ as) → (setAttrs c as).verifyName = c.verifyName) ∧
      ((∀ b, Attr.client b ∉ as) → (setAttrs c as).tlsClient = c.tlsClient) ∧
      ((∀ x, Attr.tc x ∉ as) → (setAttrs c as).tc = c.tc ∧ (setAttrs c as).tcSet = c.tcSet) ∧
      ((∀ x, Attr.names x ∉ as) → (setAttrs c as).names = c.names) := by
    intro as
    induction as with
    | nil => intro c; simp [setAttrs]
    | cons a t ih =>
      intro c
      have h := ih (setAttr c a)
      simp only [setAttrs, List.foldl_cons] at h ⊢
      refine ⟨fun hn => ?_, fun hn => ?_, fun hn => ?_, fun hn => ?_, fun hn => ?_, fun hn => ?_, fun hn => ?_⟩
      · rw [h.1 (fun b hb => hn b (List.mem_cons_of_mem _ hb))]
        cases a <;> simp [setAttr]; rename_i b; exact absurd List.mem_cons_self (hn b)
      · rw [h.2.1 (fun b hb => hn b (List.mem_cons_of_mem _ hb))]
        cases a <;> simp [setAttr]; rename_i b; exact absurd List.mem_cons_self (hn b)
      · rw [h.2.2.1 (fun b hb => hn b (List.mem_cons_of_mem _ hb))]
        cases a <;> simp [setAttr]; rename_i b; exact absurd List.mem_cons_self (hn b)
      · rw [h.2.2.2.1 (fun b hb => hn b (List.mem_cons_of_mem _ hb))]
        cases a <;> simp [setAttr]; rename_i b; exact absurd List.mem_cons_self (hn b)
      · rw [h.2.2.2.2.1 (fun b hb => hn b (List.mem_cons_of_mem _ hb))]
        cases a <;> simp [setAttr]; rename_i b; exact absurd List.mem_cons_self (hn b)
      · have := h.2.2.2.2.2.1 (fun b hb => hn b (List.mem_cons_of_mem _ hb))
        rw [this.1, this.2]
        cases a <;> simp [setAttr]; rename_i b; exact absurd List.mem_cons_self (hn b)
      · rw [h.2.2.2.2.2.2 (fun b hb => hn b (List.mem_cons_of_mem _ hb))]
        cases a <;> simp [setAttr]; rename_i b; exact absurd List.mem_cons_self (hn b)
  have g := gen as (inherit p)
  exact ⟨g.1, g.2.1, g.2.2.1, g.2.2.2.1, g.2.2.2.2.1, g.2.2.2.2.2.1, g.2.2.2.2.2.2⟩

/-- with authentication on, a peer is accepted only if every configured check passes -/
theorem C09_accepts_only_if_policy_met (c : Conf) (t : Trust) (p : Cred) (ha : c.auth = true) (h : accepts c t p = true) :
    chainTrusted c t p = true ∧ (c.checkTime = true → p.validity = .ok) ∧ (c.checkCrl = true → crlOk t p = true) ∧
    ekuOk c p = true ∧ nameOk c p = true := by
  simp only [accepts, ha, Bool.not_true, Bool.false_eq_true, if_false, Bool.and_eq_true] at h
  obtain ⟨⟨⟨⟨h1, h2⟩, h3⟩, h4⟩, h5⟩ := h
  refine ⟨h1, fun ht => ?_, fun hc => ?_, h4, h5⟩
  · simpa [ht] using h2
  · simpa [hc] using h3

/-- ... in particular: an untrusted issuer, an expired or not yet valid certificate (unless tls.check_time is off), a revoked
leaf or intermediate or a missing CRL (when tls.check_crl is on), a key usage not permitting the peer's role and a name
that is not expected (when tls.verify_peer_name is on) each lead to rejection -/
theorem C09_each_failure_rejects (c : Conf) (t : Trust) (p : Cred) (ha : c.auth = true) :
    (chainTrusted c t p = false → accepts c t p = false) ∧
    (c.checkTime = true → p.validity ≠ .ok → accepts c t p = false) ∧
    (c.checkCrl = true → crlOk t p = false → accepts c t p = false) ∧
    (ekuOk c p = false → accepts c t p = false) ∧
    (nameOk c p = false → accepts c t p = false) := by
  refine ⟨fun h => ?_, fun h1 h2 => ?_, fun h1 h2 => ?_, fun h => ?_, fun h => ?_⟩ <;>
    simp only [accepts, ha, Bool.not_true, Bool.false_eq_true, if_false]
  · simp [h]
  · cases hv : p.validity <;> simp_all
  · simp [h1, h2]
  · simp [h]
  · simp [h]

/-- revocation of the leaf or of an intermediate, and a missing CRL for any issuer, make `crlOk` false -/
theorem C09_revocation_cases (t : Trust) (p : Cred) :
    (t.revoked.contains p.leaf = true → crlOk t p = false) ∧
    (∀ i, p.inter = some i → t.revoked.contains i = true → crlOk t p = false) ∧
    (t.crlsFor.contains p.root = false → crlOk t p = false) ∧
    (∀ i, p.inter = some i → t.crlsFor.contains i = false → crlOk t p = false) := by
  refine ⟨fun h => ?_, fun i hi h => ?_, fun h => ?_, fun i hi h => ?_⟩
  · unfold crlOk; cases p.inter <;> simp only [h, Bool.not_true, Bool.and_false, Bool.false_and]
  · unfold crlOk; simp only [hi, h, Bool.not_true, Bool.and_false]
  · unfold crlOk; cases p.inter <;> simp only [h, Bool.false_and]
  · unfold crlOk; simp only [hi, h, Bool.and_false, Bool.false_and]

theorem chainTrusted_crl_mono (c : Conf) (t : Trust) (p : Cred)
    (h : chainTrusted { c with checkCrl := true } t p = true) : chainTrusted { c with checkCrl := false } t p = true := by
  unfold chainTrusted at h ⊢
  simp only [if_true, Bool.and_eq_true] at h
  simp only [Bool.false_eq_true, if_false]
  cases hi : p.inter with
  | none => simp only [h.2, Bool.or_true]
  | some i =>
    simp only [hi] at h
    simp only [h.1, h.2, Bool.or_true, Bool.and_true, Bool.true_and]

theorem chainTrusted_indep (c : Conf) (t : Trust) (p : Cred) (c2 : Conf) (h : c2.checkCrl = c.checkCrl) :
    chainTrusted c2 t p = chainTrusted c t p := by
  unfold chainTrusted; rw [h]

/-- switching a check on never makes a rejected peer acceptable -/
theorem C09_checks_only_restrict (c : Conf) (t : Trust) (p : Cred) :
    (accepts { c with checkTime := true } t p = true → accepts { c with checkTime := false } t p = true) ∧
    (accepts { c with checkCrl := true } t p = true → accepts { c with checkCrl := false } t p = true) ∧
    (accepts { c with verifyName := true } t p = true → accepts { c with verifyName := false } t p = true) ∧
    (accepts { c with auth := true } t p = true → accepts { c with auth := false } t p = true) := by
  refine ⟨fun h => ?_, fun h => ?_, fun h => ?_, fun _ => ?_⟩
  · cases ha : c.auth
    · simp [accepts, ha]
    · have := C09_accepts_only_if_policy_met _ t p (by simpa using ha) h
      simp only [accepts, ha, Bool.not_true, Bool.false_eq_true, if_false, Bool.and_eq_true, Bool.and_true]
      refine ⟨⟨⟨?_, ?_⟩, this.2.2.2.1⟩, this.2.2.2.2⟩
      · exact (chainTrusted_indep c t p _ rfl).trans ((chainTrusted_indep c t p _ rfl).symm.trans this.1)
      · have := this.2.2.1
        cases hc : c.checkCrl
        · rfl
        · exact this hc
  · cases ha : c.auth
    · simp [accepts, ha]
    · have := C09_accepts_only_if_policy_met _ t p (by simpa using ha) h
      simp only [accepts, ha, Bool.not_true, Bool.false_eq_true, if_false, Bool.and_eq_true, Bool.and_true]
      refine ⟨⟨⟨chainTrusted_crl_mono c t p this.1, ?_⟩, this.2.2.2.1⟩, this.2.2.2.2⟩
      have := this.2.1
      cases hc : c.checkTime
      · rfl
      · simpa using this hc
  · cases ha : c.auth
    · simp [accepts, ha]
    · have := C09_accepts_only_if_policy_met _ t p (by simpa using ha) h
      simp only [accepts, ha, Bool.not_true, Bool.false_eq_true, if_false, Bool.and_eq_true]
      refine ⟨⟨⟨⟨?_, ?_⟩, ?_⟩, this.2.2.2.1⟩, ?_⟩
      · exact (chainTrusted_indep c t p _ rfl).trans ((chainTrusted_indep c t p _ rfl).symm.trans this.1)
      · have := this.2.1
        cases hc : c.checkTime
        · rfl
        · simpa using this hc
      · have := this.2.2.1
        cases hc : c.checkCrl
        · rfl
        · exact this hc
      · simp [nameOk]
  · simp [accepts]

/-- non-vacuity: the standard credential is accepted under the default policy with its issuer trusted, and rejected
as soon as the issuer is not -/
example : accepts {} { cas := ["verif-rootA"] } { root := "verif-rootA", leaf := "a1", names := ["a1"] } = true ∧
          accepts {} { cas := ["verif-rootB"] } { root := "verif-rootA", leaf := "a1", names := ["a1"] } = false := by decide

end XcmModel.C09pol
