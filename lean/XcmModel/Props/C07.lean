import XcmModel.Lemmas.Btls
import XcmModel.Props.C01
/-!
# C07 — hostile or corrupt wire input cannot harm or mislead the receiver

Same model and invariants as C01; here the *arrived byte stream is arbitrary* (any bytes, any
segmentation — `Op.arrive seg` for arbitrary `seg`), the peer is not assumed to be XCM.
The TLS handshake part of the property (garbage before/during the handshake) is outside this
file: it concerns `xcm_tp_btls.c`/OpenSSL and is covered by C06/C09 models and the system
harness.  C-level memory safety is covered only as far as the model's explicit `abort`
outcome (the `assert`s of `mbuf.h`) and the ASan/UBSan correspondence runs go.
-/
namespace XcmModel.C07
open XcmModel XcmModel.Wire XcmModel.Framing XcmModel.C01

def Res.isAbort : Res → Bool
  | .abort _ => true
  | _ => false

theorem send_not_abort (s : St) (env : Env) (m : Bytes) (ans : List SAns) :
    Res.isAbort (send s env m ans).2.2.1 = false := by
  simp only [send]
  split; · rfl
  split; · rfl
  split; · rfl
  generalize tryFinishSend s env ans = r1
  obtain ⟨s1, env1, res1, ans1⟩ := r1
  cases res1 with
  | some e => rfl
  | none =>
    simp only
    split
    · rfl
    · split <;> rfl

theorem finish_not_abort (s : St) (env : Env) (ans : List SAns) (fin : Option Nat) :
    Res.isAbort (finish s env ans fin).2.2.1 = false := by
  simp only [finish]
  split; · rfl
  generalize tryFinishSend s env ans = r1
  obtain ⟨s1, env1, res1, ans1⟩ := r1
  cases fin with
  | some e => rfl
  | none => cases res1 <;> rfl

/-- the `assert`s of `mbuf_wire_ensure_capacity` / `mbuf_wire_appended` cannot fire -/
theorem receive_not_abort {e : Ep} (h : RecvInv e) (cap : Nat) (ans : List SAns) :
    Res.isAbort (receive e.s e.env cap ans).2.2.1 = false := by
  cases hb : e.s.bad with
  | some eb =>
    have hval : receive e.s e.env cap ans = (e.s, e.env, .err eb, ans) := by simp [receive, hb]
    rw [hval]; rfl
  | none =>
    have t1 := tfs_recvside ans e.s e.env
    generalize hr1 : tryFinishSendAux ans e.s e.env = r1 at t1
    obtain ⟨s1, env1, res1, ans1⟩ := r1
    simp only at t1
    by_cases hgo : res1 = none ∨ res1 = some EAGAIN
    · have hbad1 : s1.bad = none := t1.2.1.trans hb
      have bm := bufferMsg_spec s1 env1 hbad1 (by rw [t1.1, hbad1, ← hb]; exact h.rbuf)
        (by rw [t1.2.2.1]; exact h.segs)
      rw [receive_go e.s e.env cap ans hb s1 env1 res1 ans1 hr1 hgo]
      generalize bufferMsg s1 env1 = b at bm
      obtain ⟨s2, env2, r2⟩ := b
      cases r2 with
      | abort => exact absurd rfl bm.noAbort
      | _ => rfl
    · cases res1 with
      | none => exact absurd (Or.inl rfl) hgo
      | some e1 =>
        have h1 : ¬ e1 = EAGAIN := fun h' => hgo (Or.inr (by rw [h']))
        have hpe : ¬ (EPIPE = EAGAIN) := by decide
        by_cases h2 : e1 = EPIPE
        · have hval : receive e.s e.env cap ans = (s1, env1, .closed, ans1) := by
            subst h2; simp [receive, hb, tryFinishSend, hr1, hpe]
          rw [hval]; rfl
        · have hval : receive e.s e.env cap ans = (s1, env1, .err e1, ans1) := by
            simp [receive, hb, tryFinishSend, hr1, h1, h2]
          rw [hval]; rfl

structure SafeInv (e : Ep) : Prop where
  recv : RecvInv e
  noAbort : ∀ r ∈ e.results, Res.isAbort r = false

theorem safeInv_step {e : Ep} (h : SafeInv e) (op : Op) : SafeInv (e.step op) := by
  refine ⟨recvInv_step h.recv op, ?_⟩
  cases op with
  | send m ans =>
    have := send_not_abort e.s e.env m ans
    simp only [Ep.step]
    generalize send e.s e.env m ans = r at this
    obtain ⟨s', env', res, ans'⟩ := r
    intro r hr
    simp only [List.mem_append, List.mem_singleton] at hr
    rcases hr with hr | rfl
    · exact h.noAbort r hr
    · exact this
  | receive cap ans =>
    have := receive_not_abort h.recv cap ans
    simp only [Ep.step]
    generalize receive e.s e.env cap ans = r at this
    obtain ⟨s', env', res, ans'⟩ := r
    intro r hr
    cases res <;>
      (simp only [List.mem_append, List.mem_singleton] at hr
       rcases hr with hr | rfl
       · exact h.noAbort r hr
       · exact this)
  | finish ans fin =>
    have := finish_not_abort e.s e.env ans fin
    simp only [Ep.step]
    generalize finish e.s e.env ans fin = r at this
    obtain ⟨s', env', res, ans'⟩ := r
    intro r hr
    simp only [List.mem_append, List.mem_singleton] at hr
    rcases hr with hr | rfl
    · exact h.noAbort r hr
    · exact this
  | arrive seg =>
    simp only [Ep.step]
    split <;> exact h.noAbort
  | eof => exact h.noAbort
  | rxErr err => exact h.noAbort

theorem safeInv_run (ops : List Op) {e : Ep} (h : SafeInv e) : SafeInv (e.run ops) := by
  induction ops generalizing e with
  | nil => exact h
  | cons op ops ih => exact ih (safeInv_step h op)

/-- **C07 (bounded buffer, no abort)**: whatever bytes arrive and however they are
fragmented, the receive buffer never holds more than one maximum-size frame
(`MBUF_HDR_LEN + MBUF_MSG_MAX` bytes) and no call ever trips one of `mbuf.h`'s assertions. -/
theorem C07_bounded_buffer (ops : List Op) :
    (Ep.init.run ops).s.rbuf.length ≤ Generated.MBUF_HDR_LEN + Generated.MBUF_MSG_MAX ∧
    ∀ r ∈ (Ep.init.run ops).results, Res.isAbort r = false := by
  have h := safeInv_run ops (e := Ep.init) ⟨recvInv_init, by simp [Ep.init]⟩
  exact ⟨by have := h.recv.bound; simp only [Generated.MBUF_WIRE_MAX, Generated.MBUF_HDR_LEN,
    Generated.MBUF_MSG_MAX] at *; omega, h.noAbort⟩

/-! ### the reference decoder -/

/-- the well-formed frames at the head of a byte stream, up to the first malformed header
or incomplete frame -/
def refDecode : Nat → Bytes → List Bytes
  | 0, _ => []
  | fuel + 1, b =>
    if b.length < 4 then []
    else if !hdrValid (rd32 b) then []
    else if b.length < 4 + rd32 b then []
    else (b.drop 4).take (rd32 b) :: refDecode fuel (b.drop (4 + rd32 b))

theorem refDecode_frames (ms : List Bytes) (r : Bytes) (hv : ∀ m ∈ ms, Valid m) (fuel : Nat)
    (hf : ms.length ≤ fuel) : ms <+: refDecode fuel (frames ms ++ r) := by
  induction ms generalizing fuel with
  | nil => exact List.nil_prefix
  | cons m ms ih =>
    cases fuel with
    | zero => simp at hf
    | succ f =>
      have hm := hv m (by simp)
      have hlt := valid_lt hm
      simp only [frames_cons, List.append_assoc, refDecode]
      have e1 : rd32 (frame m ++ (frames ms ++ r)) = m.length := rd32_frame_append m hlt _
      have c1 : ¬ (frame m ++ (frames ms ++ r)).length < 4 := by simp; omega
      have c2 : hdrValid m.length = true := by
        simp only [hdrValid, Bool.and_eq_true, decide_eq_true_eq]; exact ⟨hm.1, hm.2⟩
      have c3 : ¬ (frame m ++ (frames ms ++ r)).length < 4 + m.length := by simp
      simp only [c1, e1, c2, c3, if_false, Bool.not_true, Bool.false_eq_true]
      have e2 : ((frame m ++ (frames ms ++ r)).drop 4).take m.length = m := by
        simp [frame, List.drop_append, List.take_append]
      have e3 : (frame m ++ (frames ms ++ r)).drop (4 + m.length) = frames ms ++ r := by
        have : (frame m).length = 4 + m.length := frame_length m
        rw [← this]; exact List.drop_left' rfl
      rw [e2, e3]
      exact (List.prefix_cons_inj m).mpr
        (ih (fun x hx => hv x (List.mem_cons_of_mem _ hx)) f (by simp at hf; omega))

/-- **C07 (reference decoder)**: the messages delivered are exactly the leading well-formed
frames of the arrived byte stream, in order (a prefix of the reference decoding: the receiver
may not have consumed everything yet), every one of them has a legal length 1..max, and
what was returned is the leading `capacity` bytes of each. -/
theorem C07_reference_decoder (ops : List Op) :
    let B := Ep.init.run ops
    B.fulls <+: refDecode B.arrived.length B.arrived ∧
    (∀ m ∈ B.fulls, 1 ≤ m.length ∧ m.length ≤ Generated.MBUF_MSG_MAX) ∧
    B.returned = List.zipWith (fun m c => m.take c) B.fulls B.caps := by
  intro B
  have h := recvInv_run ops recvInv_init
  refine ⟨?_, fun m hm => h.valid m hm, h.ret⟩
  show (Ep.run {} ops).fulls <+: _
  have hs := h.stream
  show (Ep.run {} ops).fulls <+: refDecode (Ep.run {} ops).arrived.length (Ep.run {} ops).arrived
  rw [hs, List.append_assoc]
  apply refDecode_frames _ _ h.valid
  -- each frame is at least 5 bytes long, so there are fewer frames than bytes
  have : ∀ (ms : List Bytes), (∀ m ∈ ms, Valid m) → ms.length ≤ (frames ms).length := by
    intro ms hv
    induction ms with
    | nil => simp
    | cons m ms ih =>
      simp only [frames_cons, List.length_cons, List.length_append, frame_length]
      have := ih (fun x hx => hv x (List.mem_cons_of_mem _ hx)); omega
  have := this _ h.valid
  simp only [List.length_append]; omega

/-! ### EPROTO -/

/-- a complete header announcing an illegal length (0 or more than the maximum) makes the
next receive fail with EPROTO and marks the connection bad -/
theorem C07_illegal_length_eproto (s : St) (env : Env) (cap : Nat)
    (hb : s.bad = none) (hs : s.sbuf = []) (h4 : s.rbuf.length = 4) (hinv : hdrValid (rd32 s.rbuf) = false) :
    (receive s env cap []).2.2.1 = .err EPROTO ∧ (receive s env cap []).1.bad = some EPROTO := by
  have hz : Generated.MBUF_HDR_LEN - min Generated.MBUF_HDR_LEN s.rbuf.length = 0 := by
    simp only [Generated.MBUF_HDR_LEN]; omega
  have : receive s env cap [] = ({ s with bad := some EPROTO }, env, .err EPROTO, []) := by
    simp [receive, hb, tryFinishSend, tryFinishSendAux, hs, bufferMsg, bufferHdr, hz, bufferPayload, hinv]
  rw [this]; exact ⟨rfl, rfl⟩

/-- **C07/C06 (sticky)**: once the connection is bad (EPROTO), every later call reports that
errno (a send of illegal size still reports its size error) and the state never changes again -/
theorem C07_eproto_sticky (s : St) (env : Env) (e : Nat) (hb : s.bad = some e) :
    (∀ cap ans, receive s env cap ans = (s, env, .err e, ans)) ∧
    (∀ ans fin, finish s env ans fin = (s, env, .err e, ans)) ∧
    (∀ m ans, (send s env m ans).1 = s ∧ (send s env m ans).2.1 = env ∧
      ((send s env m ans).2.2.1 = .err e ∨ (send s env m ans).2.2.1 = .err EMSGSIZE ∨
       (send s env m ans).2.2.1 = .err EINVAL)) := by
  refine ⟨fun cap ans => by simp [receive, hb], fun ans fin => by simp [finish, hb], fun m ans => ?_⟩
  simp only [send]
  split; · exact ⟨rfl, rfl, Or.inr (Or.inl rfl)⟩
  split; · exact ⟨rfl, rfl, Or.inr (Or.inr rfl)⟩
  simp [hb]

/-- non-vacuity: a valid frame, then a zero-length header, then another valid frame: the
first is delivered, then EPROTO, forever; the last frame is never delivered -/
example :
    let B := Ep.init.run [.arrive [0, 0, 0, 1, 65, 0, 0], .arrive [0, 0, 0, 0, 0, 1, 66],
      .receive 9 [], .receive 9 [], .receive 9 [], .send [1] [.ok 9]]
    B.results = [.msg [65] [65], .err EAGAIN, .err EPROTO, .err EPROTO] ∧
      refDecode B.arrived.length B.arrived = [[65]] := by
  decide

end XcmModel.C07

/-! ## btls: garbage during or instead of the TLS handshake, or inside the record stream -/
namespace XcmModel.C07btls
open XcmModel XcmModel.Btls

/-- what OpenSSL reports for undecodable input: SSL_ERROR_SSL, or SSL_ERROR_SYSCALL with a queued error -/
def ProtoErr : SslEv → Prop
  | .sslErr => True
  | .syscall _ q => q = true
  | _ => False

theorem pse_proto (s : St) (c : Nat) (e : SslEv) (h : ProtoErr e) : (processSslEvent s c e).state = .bad EPROTO := by
  cases e <;> simp [ProtoErr] at h <;> simp [processSslEvent, h]

/-- garbage during (or instead of) the handshake: whichever call drives the handshake reports EPROTO, the
connection is bad(EPROTO), no application data moved -/
theorem C07_btls_handshake_garbage (s : St) (e : SslEv) (hs : s.state = .handshaking) (he : ProtoErr e) :
    (tryFinishHandshake s (.ev e)).state = .bad EPROTO ∧
    (∀ buf w, (send s buf (.ev e) w).2 = (.err EPROTO, 0)) ∧
    (∀ cap w r, (receive s cap (.ev e) w r).2 = (.err EPROTO, false, 0)) ∧
    (∀ w l, (finish s (.ev e) w l).2 = (.err EPROTO, 0)) := by
  have hb : (tryFinishHandshake s (.ev e)).state = .bad EPROTO := by
    unfold tryFinishHandshake
    rw [if_neg (by simp [hs])]
    exact pse_proto _ _ _ he
  refine ⟨hb, fun buf w => ?_, fun cap w r => ?_, fun w l => ?_⟩
  · unfold send; generalize tryFinishHandshake s (.ev e) = s1 at hb; simp only [hb]
  · unfold receive; generalize tryFinishHandshake s (.ev e) = s1 at hb; simp only [hb]
  · unfold finish; generalize tryFinishHandshake s (.ev e) = s1 at hb; simp only [hb]

/-- garbage inside the record stream of an established connection: the receive that meets it reports EPROTO
and delivers nothing (the flush of retained output that precedes the read is assumed not to have ended the
connection itself - if it did, that terminal condition is what is reported, see C06) -/
theorem C07_btls_record_garbage (s : St) (cap : Nat) (h : HAns) (ws : List WAns) (e : SslEv) (hs : s.state = .ready)
    (hf : (flushPending (s.pend.length + 1) s ws).1.state = .ready) (he : ProtoErr e) :
    (receive s cap h ws (.ev e)).2.1 = .err EPROTO ∧ (receive s cap h ws (.ev e)).1.state = .bad EPROTO ∧
    (receive s cap h ws (.ev e)).1.delivered = s.delivered := by
  have ht : tryFinishHandshake s h = s := by unfold tryFinishHandshake; simp [hs]
  have fc := flush_core (s.pend.length + 1) s ws
  unfold receive
  rw [ht]
  simp only [hs]
  cases hfp : flushPending (s.pend.length + 1) s ws with
  | mk sf rest3 =>
    obtain ⟨fr, rest, nf⟩ := rest3
    rw [hfp] at fc hf
    simp only at hf ⊢
    simp only [hf]
    have hb := pse_proto { sf with sslCondition := 0, sslWants := 0 } RECEIVABLE e he
    have f := frame_pse { sf with sslCondition := 0, sslWants := 0 } RECEIVABLE e
    unfold readStep
    simp only
    generalize processSslEvent { sf with sslCondition := 0, sslWants := 0 } RECEIVABLE e = s3 at hb f
    exact ⟨by simp only [hb], by simp only [hb], by simp only [hb]; exact f.delivered.trans fc.1.delivered⟩

example : (flushPending 1 ({ state := .ready } : St) []).1.state = .ready := by decide

/-- no assertion of the TLS layer fires, whatever OpenSSL answers (under K-openssl-eagain) -/
theorem C07_btls_no_abort (auth : Bool) (h0 : HAns) (ops : List Op) (hh : HOk h0) (ho : ∀ op ∈ ops, OpOk op) :
    (run (tryFinishHandshake { auth := auth } h0) ops).aborted = false :=
  (run_winv ops (entered_winv auth h0 hh) ho).noAbort

end XcmModel.C07btls
