import XcmModel.Lemmas.Btls
import XcmModel.Lemmas.Xpoll
import XcmModel.Btcp
import XcmModel.Ux
import XcmModel.Framing
import XcmModel.Props.C13
/-
  C16 - readiness is sound: one stable descriptor that is quiet when idle.

  `Reach x`: the xpoll instance was driven by any sequence of the operations the library performs:
  registrations of its own kernel descriptors (never the pool's eventfd, whose registration id is
  internal to xpoll.c) and bell operations with valid ids.

  K-epoll (assumption): an epoll fd is readable iff an entry of its interest list has a true event;
  the pool's eventfd(1) is never read and hence always readable.
-/
namespace XcmModel.C16
open XcmModel XcmModel.Xpoll

inductive Reach : X → Prop where
  | init : Reach {}
  | fdAdd {x} (fd ev : Nat) : Reach x → fd ≠ ACTIVE → hasFd x fd = false → Reach (fdRegAdd x fd ev).1
  | fdMod {x} (idx ev fd old : Nat) : Reach x → x.slots[idx]? = some (some (fd, old)) → fd ≠ ACTIVE → Reach (fdRegMod x idx ev)
  | fdDel {x} (idx fd old : Nat) : Reach x → x.slots[idx]? = some (some (fd, old)) → fd ≠ ACTIVE → Reach (fdRegDel x idx)
  | bellAdd {x} (r : Bool) : Reach x → Reach (bellAdd x r).1
  | bellMod {x} (i : Nat) (r : Bool) : Reach x → (bellMod x i r).aborted = false → Reach (bellMod x i r)
  | bellDel {x} (i : Nat) : Reach x → (bellDel x i).aborted = false → Reach (bellDel x i)

theorem reach_good {x : X} (h : Reach x) : Good x := by
  induction h with
  | init => exact good_init
  | fdAdd fd ev _ hfd hf ih => exact good_fdRegAdd_user _ fd ev ih hfd hf
  | fdMod idx ev fd old _ hs hfd ih => exact good_fdRegMod_user _ idx ev fd old ih hs hfd
  | fdDel idx fd old _ hs hfd ih => exact good_fdRegDel_user _ idx fd old ih hs hfd
  | bellAdd r _ ih => exact good_bellAdd _ r ih
  | bellMod i r _ hna ih => exact good_bellMod _ i r ih hna
  | bellDel i _ hna ih => exact good_bellDel _ i ih hna

/-- **the kernel's interest list is exactly the registrations with a non-zero event mask** - the
ADD/MOD/DEL decisions of reg_epoll_mod never leave a stale or missing entry, for any history -/
theorem C16_kernel_matches_registrations {x : X} (h : Reach x) (fd ev : Nat) :
    (fd, ev) ∈ x.kernel ↔ ev ≠ 0 ∧ ∃ i : Nat, x.slots[i]? = some (some (fd, ev)) := by
  have hk := (reach_good h).kinv
  constructor
  · intro hm; exact hk.sound (fd, ev) hm
  · rintro ⟨hne, i, hi⟩; exact hk.complete i fd ev hi hne

/-- **the always-readable descriptor is watched for input exactly while some bell rings**, and is held
exactly while bells exist (`update_active_fd`) -/
theorem C16_active_fd_iff_bell {x : X} (h : Reach x) :
    ((ACTIVE, EPOLLIN) ∈ x.kernel ↔ anyRinging x = true) ∧ (x.active.isSome = true ↔ x.numBells > 0) := by
  have hg := reach_good h
  refine ⟨?_, hg.held⟩
  constructor
  · intro hm
    obtain ⟨_, i, hi⟩ := hg.kinv.sound _ hm
    cases hact : x.active with
    | none =>
      have := hg.act
      simp only [ActInv, hact] at this
      exact absurd hi (this i EPOLLIN)
    | some reg =>
      have he := hg.event reg hact
      have : reg = i := hg.kinv.distinct reg i ACTIVE _ _ he hi
      subst this
      rw [he] at hi
      by_cases hr : anyRinging x = true
      · exact hr
      · simp [hr, EPOLLIN] at hi
  · intro hr
    have hpos : x.numBells > 0 := by rw [hg.count]; exact anyRinging_live x hr
    have hsome := hg.held.mpr hpos
    cases hact : x.active with
    | none => simp [hact] at hsome
    | some reg =>
      have he := hg.event reg hact
      simp only [hr, if_true] at he
      exact hg.kinv.complete reg ACTIVE EPOLLIN he (by simp [EPOLLIN])

/-- **quiet when idle**: if no bell rings and no registered descriptor of the socket has a requested
event that is currently true, the socket's fd is not readable -/
theorem C16_quiet_when_idle {x : X} (h : Reach x) (ready : Nat → Nat → Bool)
    (hb : anyRinging x = false)
    (hfd : ∀ (i fd ev : Nat), x.slots[i]? = some (some (fd, ev)) → fd ≠ ACTIVE → ev = 0 ∨ ready fd ev = false) :
    readable x ready = false := by
  have hg := reach_good h
  cases hr : readable x ready with
  | false => rfl
  | true =>
    obtain ⟨i, fd, ev, hi, hne, hcond⟩ := (readable_iff x hg.kinv ready).mp hr
    by_cases hf : fd = ACTIVE
    · subst hf
      have hmem : (ACTIVE, ev) ∈ x.kernel := hg.kinv.complete i ACTIVE ev hi hne
      cases hact : x.active with
      | none =>
        have := hg.act
        simp only [ActInv, hact] at this
        exact absurd hi (this i ev)
      | some reg =>
        have he := hg.event reg hact
        have : reg = i := hg.kinv.distinct reg i ACTIVE _ _ he hi
        subst this
        rw [he] at hi
        simp [hb] at hi
        exact absurd hi.symm hne
    · simp only [hf, if_false] at hcond
      rcases hfd i fd ev hi hf with h0 | h0
      · exact absurd h0 hne
      · rw [h0] at hcond; cases hcond

/-- **immediate when met / no lost wake-up at this layer**: a ringing bell, or a registered
descriptor with a requested event that is true, makes the socket's fd readable -/
theorem C16_readable_when_met {x : X} (h : Reach x) (ready : Nat → Nat → Bool) :
    (anyRinging x = true → readable x ready = true)
    ∧ (∀ (i fd ev : Nat), x.slots[i]? = some (some (fd, ev)) → fd ≠ ACTIVE → ev ≠ 0 → ready fd ev = true → readable x ready = true) := by
  have hg := reach_good h
  constructor
  · intro hr
    have hm := (C16_active_fd_iff_bell h).1.mpr hr
    obtain ⟨hne, i, hi⟩ := hg.kinv.sound _ hm
    exact (readable_iff x hg.kinv ready).mpr ⟨i, ACTIVE, EPOLLIN, hi, hne, by simp [EPOLLIN]⟩
  · intro i fd ev hi hf hne hr
    exact (readable_iff x hg.kinv ready).mpr ⟨i, fd, ev, hi, hne, by simp [hf, hr]⟩

/-! ### what the transports ask xpoll for (their `update` operations) -/

/-- btcp, established: no bell, and the data descriptor is registered for exactly the awaited
condition - nothing when the condition is 0, EPOLLIN only for RECEIVABLE -/
theorem C16_btcp_ready_events (cond : Nat) (q : Bool) :
    Btcp.connUpdate .ready cond q =
      (false, some ((if cond &&& Generated.XCM_SO_SENDABLE ≠ 0 then 4 else 0) ||| (if cond &&& Generated.XCM_SO_RECEIVABLE ≠ 0 then 1 else 0)))
    ∧ Btcp.connUpdate .ready 0 q = (false, some 0)
    ∧ Btcp.connUpdate .ready Generated.XCM_SO_RECEIVABLE q = (false, some 1) := by
  refine ⟨rfl, ?_, ?_⟩ <;> simp [Btcp.connUpdate, Generated.XCM_SO_SENDABLE, Generated.XCM_SO_RECEIVABLE]

/-- btcp, terminal states: the bell rings whatever the condition, so the application is told -/
theorem C16_btcp_terminal_rings (cond : Nat) (q : Bool) (e : Nat) :
    (Btcp.connUpdate .closed cond q).1 = true ∧ (Btcp.connUpdate (.bad e) cond q).1 = true := by
  simp [Btcp.connUpdate]

/-- a server socket awaits connections with EPOLLIN on the listening descriptor only, and nothing
when it does not await ACCEPTABLE -/
theorem C16_server_events :
    Btcp.serverUpdate Generated.XCM_SO_ACCEPTABLE = 1 ∧ Btcp.serverUpdate 0 = 0
    ∧ Ux.serverEvent Generated.XCM_SO_ACCEPTABLE = Ux.EPOLLIN ∧ Ux.serverEvent 0 = 0 := by
  simp [Btcp.serverUpdate, Ux.serverEvent, Generated.XCM_SO_ACCEPTABLE]

/-- ux connections: condition 0 asks for nothing, RECEIVABLE for EPOLLIN only -/
theorem C16_ux_events : Ux.connEvent 0 = 0 ∧ Ux.connEvent Generated.XCM_SO_RECEIVABLE = Ux.EPOLLIN := by
  simp [Ux.connEvent, Generated.XCM_SO_RECEIVABLE, Generated.XCM_SO_SENDABLE, Ux.EPOLLIN]

-- "one stable descriptor": no xpoll operation touches the epoll descriptor itself (the model's state has no such
-- field); `xcm_fd` returns `xpoll_get_fd`, set once in `xpoll_create`.  That part of C16 is checked on the
-- implementation only (unit_xpoll and sys_quiet sample the fd after every operation); no theorem is claimed for it.

/-- non-vacuity: a socket with a data descriptor awaiting input and two bells, one ringing then silenced -/
example :
    let x := run [.fdAdd 3 1, .bellAdd false, .bellAdd true, .bellMod 1 false]
    Reach x ∧ readable x (fun _ _ => false) = false ∧ readable (run [.fdAdd 3 1, .bellAdd false, .bellAdd true]) (fun _ _ => false) = true := by
  refine ⟨?_, by decide, by decide⟩
  have h1 : Reach (fdRegAdd {} 3 1).1 := Reach.fdAdd 3 1 Reach.init (by decide) (by decide)
  have h2 := Reach.bellAdd false h1
  have h3 := Reach.bellAdd true h2
  exact Reach.bellMod 1 false h3 (by decide)

end XcmModel.C16

/-! ## btls: `conn_update` of xcm_tp_btls.c does not ring without a reason -/
namespace XcmModel.C16btls
open XcmModel XcmModel.Btls

/-- with no retained output `conn_update` is exactly its core -/
theorem connUpdate_no_pend (s : St) (hp : s.pend = []) (cond : Nat) (p : Bool) :
    connUpdate s cond p = connUpdateCore s cond p := by
  unfold connUpdate; simp [hp]

/-- awaited condition 0 on a ready connection with nothing retained: no bell, nothing asked of the TCP socket below -/
theorem C16_btls_idle_silent (s : St) (hs : s.state = .ready) (hp : s.pend = []) (p : Bool) :
    connUpdate s 0 p = (false, 0, true, false) := by
  rw [connUpdate_no_pend s hp]; unfold connUpdateCore; simp [hs]

/-- awaited condition 0 with retained output: still no bell; the TCP socket below is watched only for what the
flush needs (it becomes readable to the application when the flush can continue, which xcm_finish then does) -/
theorem C16_btls_idle_flush_only (s : St) (hs : s.state = .ready) (hp : s.pend ≠ []) (p : Bool) :
    connUpdate s 0 p = (false, (if s.pendWants ≠ 0 then s.pendWants else SENDABLE), true, false) := by
  have hne : (s.pend.isEmpty = true) = False := by simp [hp]
  unfold connUpdate connUpdateCore
  simp [hs, hne]

/-- RECEIVABLE awaited after xcm_receive has reported EAGAIN (OpenSSL wanted to read) and nothing is retained:
no bell; the TCP socket below is watched for input only -/
theorem C16_btls_quiet_after_eagain (s : St) (cap : Nat) (h : HAns) (ws : List WAns)
    (hs : (tryFinishHandshake s h).state = .ready) (hp : (tryFinishHandshake s h).pend = []) :
    let r := receive s cap h ws (.ev .wantRead)
    r.2.1 = .err EAGAIN ∧ connUpdate r.1 RECEIVABLE false = (false, RECEIVABLE, true, false) := by
  unfold receive
  generalize tryFinishHandshake s h = s1 at hs hp
  have hf : flushPending (s1.pend.length + 1) s1 ws = (s1, none, ws, 0) := by
    simp [hp, flushPending]
  simp only [hs, hf]
  simp [hs, hp, readStep, processSslEvent, connUpdate, connUpdateCore, RECEIVABLE, Generated.XCM_SO_RECEIVABLE]

/-- ... and with retained output whose flush is blocked too: still no bell; the TCP socket below is watched for input
and for what the flush needs - so the application is woken exactly when its receive or the flush can progress, and
the receive it then makes does flush (no wake-up without work: F-16a's spin cannot recur through this path) -/
theorem C16_btls_quiet_after_eagain_retained (s : St) (cap : Nat) (hs : s.state = .ready) (hp : s.pend ≠ [])
    (e : SslEv) (he : e = .wantRead ∨ e = .wantWrite) :
    let r := receive s cap (.done .ok) [.ev e] (.ev .wantRead)
    r.2.1 = .err EAGAIN ∧ r.2.2.2 = 1 ∧ r.1.pend = s.pend ∧
    connUpdate r.1 RECEIVABLE false = (false, RECEIVABLE ||| (if e = .wantRead then RECEIVABLE else SENDABLE), true, false) := by
  have ht : tryFinishHandshake s (.done .ok) = s := by unfold tryFinishHandshake; simp [hs]
  have hne : s.pend.isEmpty = false := by cases hq : s.pend with | nil => exact absurd hq hp | cons a t => rfl
  have hfu : flushPending (s.pend.length + 1) s [.ev e] =
      ({ (processSslEvent { s with sslCondition := 0, sslWants := 0 } SENDABLE e) with
           pendWants := (processSslEvent { s with sslCondition := 0, sslWants := 0 } SENDABLE e).sslWants },
       some (.err EAGAIN), [], 1) := by
    rcases he with he | he <;> subst he <;> simp [flushPending, hne, nextW, processSslEvent, hs]
  unfold receive
  rw [ht]
  simp only [hs, hfu]
  rcases he with he | he <;> subst he <;>
    simp [hs, hne, hp, readStep, processSslEvent, connUpdate, connUpdateCore, RECEIVABLE, SENDABLE,
          Generated.XCM_SO_RECEIVABLE, Generated.XCM_SO_SENDABLE]

/-- SENDABLE awaited after xcm_send was refused outright (EAGAIN from the flush of retained output, or nothing
could be retained): handled in C02; when xcm_send ACCEPTS bytes it could not pass to OpenSSL completely, the
retained bytes keep the TCP socket watched until they are written - the refused-send spin (F-16a) cannot occur
because a blocked SSL_write never leaves the application holding bytes that OpenSSL insists on seeing again -/
theorem C16_btls_blocked_send_is_accepted (s : St) (buf : Bytes) (h : HAns) (ws : List WAns) (e : SslEv)
    (hs : (tryFinishHandshake s h).state = .ready) (hp : (tryFinishHandshake s h).pend = [])
    (hw : nextW ws = (.ev e, [])) (hb : buf ≠ [])
    (hr : (processSslEvent { (tryFinishHandshake s h) with sslCondition := 0, sslWants := 0 } SENDABLE e).state = .ready) :
    (send s buf h ws).2.1 = .n (min buf.length MAX_PENDING) [] ∧
    (send s buf h ws).1.pend = buf.take MAX_PENDING := by
  unfold send
  generalize tryFinishHandshake s h = s1 at hs hp hr
  simp only [hs]
  have hf : flushPending (s1.pend.length + 1) s1 ws = (s1, none, ws, 0) := by
    simp [hp, flushPending]
  rw [hf]
  simp only [hw]
  generalize processSslEvent _ SENDABLE e = s3 at hr ⊢
  simp [hr, hb]
  exact Nat.min_comm _ _

/-- the bell of a ready connection rings only for a stated reason: decrypted data is pending for a RECEIVABLE
waiter, or OpenSSL has not reported a blocked operation of the awaited kind -/
theorem C16_btls_bell_reason (s : St) (hs : s.state = .ready) (cond : Nat) (hp : Bool)
    (hb : (connUpdate s cond hp).1 = true) :
    cond ≠ 0 ∧ ((cond &&& RECEIVABLE ≠ 0 ∧ hp = true) ∨ s.sslCondition = 0 ∨ cond ≠ s.sslCondition) := by
  rw [(connUpdate_core s cond hp).1] at hb
  revert hb
  unfold connUpdateCore
  simp only [hs]
  split
  · intro hb; cases hb
  rename_i hc0
  split
  · rename_i h; intro _; exact ⟨hc0, Or.inl ⟨h.1, h.2⟩⟩
  split
  · rename_i h; intro _; exact ⟨hc0, Or.inr (Or.inl h)⟩
  split
  · intro hb; cases hb
  rename_i hne
  intro _; exact ⟨hc0, Or.inr (Or.inr hne)⟩

end XcmModel.C16btls
