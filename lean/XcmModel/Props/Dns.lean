import XcmModel.DnsQuery
import XcmModel.Props.Timer
/-!
  Theorems about the asynchronous resolver front end (xcm_dns_cares.c) composed with the timer manager
  (timer_mgr.c): for every history of `xcm_dns_query_process` / `xcm_dns_query_result` calls and **every**
  behaviour of c-ares (callback or not, any descriptor set, any timeout),

  * no call trips an assertion or dereferences a missing timer (`process_inv`, `result_safe`),
  * while the query is in progress its overall deadline (dns.timeout) is a live timer of the query's timer
    manager, so the socket's fd becomes readable when the deadline is reached (`C04_dns_deadline_wakes`) and the
    `process` call made then fails the query with ENOENT (`C13_dns_timeout_enoent`) - and not before
    (`C13_dns_no_early_timeout`),
  * a completed query is never changed again and keeps answering the same (`C13_dns_completed_sticky`),
  * completion rings: when a `process` call completes the query the fd is readable, so the owner notices
    (`C04_dns_completion_rings`), and no channel descriptor stays registered (`completed_no_regs`),
  * the fd is readable only for a due timer (`C16_dns_quiet`).
-/
namespace XcmModel.DnsProps
open XcmModel XcmModel.TimerMgr XcmModel.DnsQuery XcmModel.TimerProps

/-- c-ares never reports success without an address (`ut_assert(len >= 1)` relies on it) -/
def CbOk : Cb → Prop
  | .success n => 1 ≤ n
  | _ => True

/-- the part of the invariant that holds between the steps of one call as well -/
def QCore (s : DnsQuery.State) : Prop :=
  TimerProps.Inv s.tm ∧ 1 ≤ s.tm.nextId ∧
  (s.st = .inProgress → s.overallTimer = 0 ∧ ∃ t, find s.tm 0 = some t) ∧
  (s.aresTimer = -1 ∨ 1 ≤ s.aresTimer) ∧
  (s.st = .successful → 1 ≤ s.ipsLen ∧ s.ipsLen ≤ MAX_RESULT)

/-- the invariant between calls: a completed query has no channel descriptor registered -/
def QInv (s : DnsQuery.State) : Prop := QCore s ∧ (s.st ≠ .inProgress → s.regs = [])

theorem applyCb_tm (s : DnsQuery.State) (cb : Cb) : (applyCb s cb).tm = s.tm ∧ (applyCb s cb).aresTimer = s.aresTimer ∧
    (applyCb s cb).overallTimer = s.overallTimer ∧ (applyCb s cb).regs = s.regs := by
  cases cb <;> simp [applyCb]

theorem applyCb_core (s : DnsQuery.State) (cb : Cb) (hcb : CbOk cb) (h : QCore s) (hst : s.st = .inProgress) : QCore (applyCb s cb) := by
  obtain ⟨hi, hn, ho, ha, hs⟩ := h
  cases cb with
  | none => exact ⟨hi, hn, ho, ha, hs⟩
  | cancelled => exact ⟨hi, hn, ho, ha, hs⟩
  | fail => exact ⟨hi, hn, fun h => by simp [applyCb] at h, ha, fun h => by simp [applyCb] at h⟩
  | success n =>
    refine ⟨hi, hn, fun h => by simp [applyCb] at h, ha, fun _ => ?_⟩
    simp only [CbOk] at hcb
    simp only [applyCb, MAX_RESULT, Generated.XCM_DNS_MAX_RESULT_SIZE]
    omega

/-- `reschedule` of the c-ares timer keeps timer 0 (the overall deadline) and returns a fresh id ≥ 1 that denotes the new timer -/
theorem reschedule_keeps_zero (tm : TimerMgr.State) (now : Nat) (rel : Int) (id : Int)
    (hn : 1 ≤ tm.nextId) (hid : id = -1 ∨ 1 ≤ id) :
    find (reschedule tm now rel id).1 0 = find tm 0 ∧ 1 ≤ (reschedule tm now rel id).2 ∧
    (reschedule tm now rel id).1.nextId = tm.nextId + 1 ∧
    find (reschedule tm now rel id).1 (reschedule tm now rel id).2 = some { id := tm.nextId, expiry := now + rel.toNat } := by
  have hnz : ¬ ((tm.nextId : Int) = 0) := by omega
  unfold reschedule
  split
  · rename_i hge
    have hne : (0 : Int) ≠ id := by omega
    simp only [find_schedule, cancel_nextId, schedule_nextId, schedule_id, hnz, if_false, if_true]
    exact ⟨find_cancel_other tm id 0 hne, by omega, trivial, trivial⟩
  · simp only [find_schedule, schedule_nextId, schedule_id, hnz, if_false, if_true]
    exact ⟨trivial, by omega, trivial, trivial⟩

theorem updateXpoll_inv (s : DnsQuery.State) (now : Nat) (socks : List (Bool × Bool)) (to : Option Nat) (h : QCore s) :
    QInv (updateXpoll s now socks to) ∧ (updateXpoll s now socks to).st = s.st := by
  obtain ⟨hi, hn, ho, ha, hs⟩ := h
  unfold updateXpoll
  split
  · rename_i hst
    cases to with
    | none => exact ⟨⟨⟨hi, hn, ho, ha, hs⟩, fun h => absurd hst h⟩, rfl⟩
    | some t =>
      obtain ⟨k0, k1, k2, _⟩ := reschedule_keeps_zero s.tm now t s.aresTimer hn ha
      refine ⟨⟨⟨reschedule_inv _ _ _ _ hi, by simp only; omega, ?_, Or.inr (by simpa using k1), hs⟩, fun h => absurd hst h⟩, rfl⟩
      intro hst'
      obtain ⟨e, t0, ht0⟩ := ho hst'
      exact ⟨e, t0, by simp only; rw [k0]; exact ht0⟩
  · rename_i hst
    obtain ⟨k0, k1, k2, _⟩ := reschedule_keeps_zero s.tm now 0 s.aresTimer hn ha
    exact ⟨⟨⟨reschedule_inv _ _ _ _ hi, by simp only; omega, fun h => absurd h hst, Or.inr (by simpa using k1), hs⟩, fun _ => rfl⟩, rfl⟩

theorem resolve_inv (now : Nat) (timeout : Int) (cb : Cb) (socks : List (Bool × Bool)) (to : Option Nat) (hcb : CbOk cb) :
    QInv (resolve now timeout cb socks to).1 := by
  unfold resolve
  apply (updateXpoll_inv _ now socks to _).1
  apply applyCb_core _ cb hcb _ rfl
  refine ⟨schedule_inv _ _ _ inv_init, by simp, fun _ => ⟨by simp, by rw [find_schedule]; simp⟩, Or.inl rfl, fun h => by simp at h⟩

theorem mid_core (s : DnsQuery.State) (cb : Cb) (h : QInv s) (hst : s.st = .inProgress) (hcb : CbOk cb) :
    QCore (mid s cb) ∧ (mid s cb).overallTimer = 0 ∧ find (mid s cb).tm 0 = find s.tm 0 := by
  obtain ⟨⟨hi, hn, ho, ha, hs⟩, _⟩ := h
  obtain ⟨e0, t0, ht0⟩ := ho hst
  have hne : (0 : Int) ≠ s.aresTimer := by omega
  have hf0 : find (cancel s.tm s.aresTimer).1 0 = find s.tm 0 := find_cancel_other _ _ _ hne
  obtain ⟨e1, _, e3, _⟩ := applyCb_tm { s with tm := (cancel s.tm s.aresTimer).1, aresTimer := (cancel s.tm s.aresTimer).2 } cb
  refine ⟨?_, by unfold mid; rw [e3]; exact e0, by unfold mid; rw [e1]; exact hf0⟩
  unfold mid
  apply applyCb_core _ cb hcb _ (show ({ s with tm := (cancel s.tm s.aresTimer).1, aresTimer := (cancel s.tm s.aresTimer).2 } : DnsQuery.State).st = .inProgress from hst)
  exact ⟨cancel_inv _ _ hi, by simpa using hn, fun _ => ⟨e0, t0, by rw [hf0]; exact ht0⟩, Or.inl rfl, fun h => by simp [hst] at h⟩

theorem failNow_core (m : DnsQuery.State) (h : QCore m) : QCore (failNow m) := by
  obtain ⟨hi, hn, _, ha, _⟩ := h
  refine ⟨cancel_inv _ _ hi, ?_, fun h => ?_, ha, fun h => ?_⟩
  · show 1 ≤ (cancel m.tm m.overallTimer).1.nextId
    simpa using hn
  · exact absurd h (by simp [failNow])
  · exact absurd h (by simp [failNow])

theorem updateXpoll_find0 (s : DnsQuery.State) (now : Nat) (socks : List (Bool × Bool)) (to : Option Nat)
    (hn : 1 ≤ s.tm.nextId) (ha : s.aresTimer = -1 ∨ 1 ≤ s.aresTimer) : find (updateXpoll s now socks to).tm 0 = find s.tm 0 := by
  unfold updateXpoll
  split
  · cases to with
    | none => rfl
    | some t => exact (reschedule_keeps_zero s.tm now t s.aresTimer hn ha).1
  · exact (reschedule_keeps_zero s.tm now 0 s.aresTimer hn ha).1

/-- **no abort, no NULL dereference, invariant kept**: for every behaviour of c-ares -/
theorem process_inv (s : DnsQuery.State) (now : Nat) (cb : Cb) (socks : List (Bool × Bool)) (to : Option Nat)
    (h : QInv s) (hcb : CbOk cb) : ∃ s', process s now cb socks to = .ok s' ∧ QInv s' := by
  unfold process
  split
  · rename_i hst
    obtain ⟨hc, e0, hf⟩ := mid_core s cb h hst hcb
    obtain ⟨t0, ht0⟩ := (h.1.2.2.1 hst).2
    unfold processInProgress; simp only
    split
    · rw [e0]
      simp only [hasExpired, hf, ht0]
      by_cases hx : now > t0.expiry
      · simp only [hx, decide_true]
        exact ⟨_, rfl, (updateXpoll_inv _ now socks to (failNow_core _ hc)).1⟩
      · simp only [hx, decide_false]
        exact ⟨_, rfl, (updateXpoll_inv _ now socks to hc).1⟩
    · exact ⟨_, rfl, (updateXpoll_inv _ now socks to hc).1⟩
  · exact ⟨s, rfl, h⟩

/-- `xcm_dns_query_result` with room for at least one address never trips its assertion, reports 1..capacity addresses
(at most XCM_DNS_MAX_RESULT_SIZE), and keeps the invariant -/
theorem result_safe (s : DnsQuery.State) (cap : Nat) (h : QInv s) (hcap : 1 ≤ cap) :
    QInv (result s cap).2 ∧
    ((result s cap).1 = .err Generated.EAGAIN ∧ s.st = .inProgress ∨
     (result s cap).1 = .err Generated.ENOENT ∧ s.st = .failed ∨
     ∃ n, (result s cap).1 = .ok n ∧ s.st = .successful ∧ 1 ≤ n ∧ n ≤ cap ∧ n ≤ MAX_RESULT) := by
  unfold result
  cases hst : s.st with
  | inProgress => exact ⟨h, Or.inl ⟨rfl, rfl⟩⟩
  | failed => exact ⟨h, Or.inr (Or.inl ⟨rfl, rfl⟩)⟩
  | successful =>
    obtain ⟨⟨hi, hn, ho, ha, hs⟩, hr⟩ := h
    obtain ⟨l1, l2⟩ := hs hst
    have : min cap s.ipsLen ≥ 1 := by omega
    simp only [this, if_true]
    refine ⟨⟨⟨hi, hn, fun h => by simp at h, ha, fun _ => ⟨l1, l2⟩⟩, fun _ => rfl⟩, Or.inr (Or.inr ⟨_, rfl, by first | rfl | trivial, this, Nat.min_le_left _ _, ?_⟩)⟩
    exact Nat.le_trans (Nat.min_le_right _ _) l2

/-! ### histories -/

inductive Op where
  | process (now : Nat) (cb : Cb) (socks : List (Bool × Bool)) (to : Option Nat)
  | result (cap : Nat)
  deriving Repr

def OpOk : Op → Prop
  | .process _ cb _ _ => CbOk cb
  | .result cap => 1 ≤ cap

def step (s : DnsQuery.State) : Op → Option DnsQuery.State
  | .process now cb socks to => match process s now cb socks to with | .ok s' => some s' | _ => none
  | .result cap => match (result s cap).1 with | .abort _ => none | _ => some (result s cap).2

def run (s : DnsQuery.State) : List Op → Option DnsQuery.State
  | [] => some s
  | o :: os => match step s o with | some s' => run s' os | none => none

/-- **every history** of process / result calls on a query returned by `xcm_dns_resolve` runs to its end (nothing aborts)
and ends in a state that satisfies the invariant -/
theorem dns_inv_run (ops : List Op) (hops : ∀ o ∈ ops, OpOk o) (s : DnsQuery.State) (h : QInv s) :
    ∃ s', run s ops = some s' ∧ QInv s' := by
  induction ops generalizing s with
  | nil => exact ⟨s, rfl, h⟩
  | cons o os ih =>
    have ho := hops o (by simp)
    have hos : ∀ o ∈ os, OpOk o := fun o' h' => hops o' (by simp [h'])
    cases o with
    | process now cb socks to =>
      obtain ⟨s1, e1, h1⟩ := process_inv s now cb socks to h ho
      simp only [run, step, e1]; exact ih hos s1 h1
    | result cap =>
      obtain ⟨hq, hr⟩ := result_safe s cap h ho
      have : step s (.result cap) = some (result s cap).2 := by
        simp only [step]
        rcases hr with ⟨e, _⟩ | ⟨e, _⟩ | ⟨n, e, _⟩ <;> rw [e]
      simp only [run, this]; exact ih hos _ hq

/-! ### C13: dns.timeout -/

/-- a completed query is never changed by further processing, whatever c-ares would do -/
theorem C13_dns_completed_sticky (s : DnsQuery.State) (now : Nat) (cb : Cb) (socks : List (Bool × Bool)) (to : Option Nat)
    (h : s.st ≠ .inProgress) : process s now cb socks to = .ok s := by
  simp [process, h]

/-- the `process` call made after the overall deadline fails the query unless c-ares delivers the answer in that very
call; from then on the result is ENOENT -/
theorem C13_dns_timeout_enoent (s : DnsQuery.State) (now : Nat) (cb : Cb) (socks : List (Bool × Bool)) (to : Option Nat)
    (h : QInv s) (hst : s.st = .inProgress) (t0 : Timer) (ht0 : find s.tm 0 = some t0) (hlate : now > t0.expiry)
    (hcb : ∀ n, cb ≠ .success n) (cap : Nat) :
    ∃ s', process s now cb socks to = .ok s' ∧ s'.st = .failed ∧ (result s' cap).1 = .err Generated.ENOENT := by
  have hcbok : CbOk cb := by cases cb <;> simp [CbOk]; exact absurd rfl (hcb _)
  obtain ⟨hc, e0, hf⟩ := mid_core s cb h hst hcbok
  have hns : (mid s cb).st ≠ .successful := by
    unfold mid; cases cb with
    | success n => exact absurd rfl (hcb n)
    | none => simp [applyCb, hst]
    | cancelled => simp [applyCb, hst]
    | fail => simp [applyCb]
  simp only [process, hst, if_true, processInProgress, hns, ne_eq, not_false_eq_true, e0, hasExpired, hf, ht0, hlate, decide_true]
  refine ⟨_, rfl, ?_⟩
  have := (updateXpoll_inv (failNow (mid s cb)) now socks to (failNow_core _ hc)).2
  have e : (updateXpoll (failNow (mid s cb)) now socks to).st = .failed := by rw [this]; rfl
  exact ⟨e, by simp [result, e]⟩

/-- ... and not before: as long as the deadline has not passed and c-ares has not called back, the query stays in progress -/
theorem C13_dns_no_early_timeout (s : DnsQuery.State) (now : Nat) (socks : List (Bool × Bool)) (to : Option Nat)
    (h : QInv s) (hst : s.st = .inProgress) (t0 : Timer) (ht0 : find s.tm 0 = some t0) (hearly : now ≤ t0.expiry) :
    ∃ s', process s now .none socks to = .ok s' ∧ s'.st = .inProgress := by
  obtain ⟨hc, e0, hf⟩ := mid_core s .none h hst trivial
  have hns : (mid s .none).st ≠ .successful := by simp [mid, applyCb, hst]
  have hx : ¬ now > t0.expiry := by omega
  simp only [process, hst, if_true, processInProgress, hns, ne_eq, not_false_eq_true, e0, hasExpired, hf, ht0, hx, decide_false]
  refine ⟨_, rfl, ?_⟩
  rw [(updateXpoll_inv _ now socks to hc).2]; simp [mid, applyCb, hst]

/-- the overall deadline is `now + dns.timeout` (the default when the attribute is not positive) -/
theorem C13_dns_deadline_value (now : Nat) (timeout : Int) (cb : Cb) (socks : List (Bool × Bool)) (to : Option Nat) :
    find (resolve now timeout cb socks to).1.tm 0 =
      some { id := 0, expiry := now + (if timeout ≤ 0 then DEFAULT_OVERALL_TIMEOUT else timeout.toNat) } := by
  unfold resolve
  simp only
  rw [updateXpoll_find0, (applyCb_tm _ cb).1, find_schedule]
  · simp
  · rw [(applyCb_tm _ cb).1]; simp
  · rw [(applyCb_tm _ cb).2.1]; exact Or.inl rfl

/-- a process call that leaves the query in progress leaves its overall deadline as it was -/
theorem process_keeps_deadline (s s' : DnsQuery.State) (now : Nat) (cb : Cb) (socks : List (Bool × Bool)) (to : Option Nat)
    (h : QInv s) (hcb : CbOk cb) (hst : s.st = .inProgress) (hp : process s now cb socks to = .ok s')
    (hst' : s'.st = .inProgress) : find s'.tm 0 = find s.tm 0 := by
  obtain ⟨hc, e0, hf⟩ := mid_core s cb h hst hcb
  obtain ⟨t0, ht0⟩ := (h.1.2.2.1 hst).2
  have keep : ∀ u : DnsQuery.State, QCore u → find (updateXpoll u now socks to).tm 0 = find u.tm 0 :=
    fun u hu => updateXpoll_find0 u now socks to hu.2.1 hu.2.2.2.1
  simp only [process, hst, if_true, processInProgress] at hp
  split at hp
  · rw [e0] at hp
    simp only [hasExpired, hf, ht0] at hp
    by_cases hx : now > t0.expiry
    · simp only [hx, decide_true, Outcome.ok.injEq] at hp
      -- the query failed in this call: it is not in progress afterwards
      have := (updateXpoll_inv (failNow (mid s cb)) now socks to (failNow_core _ hc)).2
      rw [hp] at this; rw [this] at hst'; simp [failNow] at hst'
    · simp only [hx, decide_false, Outcome.ok.injEq] at hp
      rw [← hp, keep _ hc, hf]
  · simp only [Outcome.ok.injEq] at hp
    rw [← hp, keep _ hc, hf]

/-- one wake-up before the deadline without an answer from c-ares: (time, descriptor set, c-ares timeout) -/
abbrev Quiet := Nat × List (Bool × Bool) × Option Nat

def runQuiet (s : DnsQuery.State) : List Quiet → Outcome DnsQuery.State
  | [] => .ok s
  | (now, socks, to) :: rest =>
    match process s now .none socks to with
    | .ok s' => runQuiet s' rest
    | o => o

/-- **dns.timeout over whole histories**: however often and whenever the owner is woken before the deadline (c-ares' own
retransmission timers, descriptor events that bring no answer), the query is still in progress with the same deadline;
the first processing after the deadline fails it, and the result is ENOENT from then on. -/
theorem C13_dns_times_out_in_every_history (s : DnsQuery.State) (h : QInv s) (hst : s.st = .inProgress)
    (t0 : Timer) (ht0 : find s.tm 0 = some t0) (qs : List Quiet) (hq : ∀ q ∈ qs, q.1 ≤ t0.expiry)
    (late : Nat) (hlate : late > t0.expiry) (socks : List (Bool × Bool)) (to : Option Nat) (cap : Nat) :
    ∃ s1, runQuiet s qs = .ok s1 ∧ s1.st = .inProgress ∧ find s1.tm 0 = some t0 ∧
      ∃ s2, process s1 late .none socks to = .ok s2 ∧ s2.st = .failed ∧ (result s2 cap).1 = .err Generated.ENOENT ∧
        ∀ now' cb' socks' to', process s2 now' cb' socks' to' = .ok s2 := by
  induction qs generalizing s with
  | nil =>
    refine ⟨s, rfl, hst, ht0, ?_⟩
    obtain ⟨s2, e2, f2, r2⟩ := C13_dns_timeout_enoent s late .none socks to h hst t0 ht0 hlate (by intro n; simp) cap
    exact ⟨s2, e2, f2, r2, fun _ _ _ _ => C13_dns_completed_sticky s2 _ _ _ _ (by rw [f2]; simp)⟩
  | cons q rest ih =>
    obtain ⟨now, sk, tmo⟩ := q
    have hnow : now ≤ t0.expiry := hq (now, sk, tmo) (by simp)
    obtain ⟨s', e', st'⟩ := C13_dns_no_early_timeout s now sk tmo h hst t0 ht0 hnow
    obtain ⟨s'', e'', hq''⟩ := process_inv s now .none sk tmo h trivial
    rw [e'] at e''; cases e''
    have hd := process_keeps_deadline s s' now .none sk tmo h trivial hst e' st'
    obtain ⟨s1, r1, rest1⟩ := ih s' hq'' st' (by rw [hd]; exact ht0) (fun q hq' => hq q (by simp [hq']))
    exact ⟨s1, by simp only [runQuiet, e']; exact r1, rest1⟩

/-! ### C04: the event loop is told -/

/-- while the query is in progress its overall deadline is a live timer, so from the deadline on the timerfd - hence the
socket's fd - is readable: the owner is woken and its `process` call (C13_dns_timeout_enoent) ends the wait -/
theorem C04_dns_deadline_wakes (s : DnsQuery.State) (h : QInv s) (hst : s.st = .inProgress) :
    ∃ t0, find s.tm 0 = some t0 ∧ ∀ now, armValue t0.expiry ≤ now → readable s.tm now = true := by
  obtain ⟨t0, ht0⟩ := (h.1.2.2.1 hst).2
  exact ⟨t0, ht0, fun now hn => wakes_of_inv s.tm h.1.1 t0 (List.mem_of_find?_eq_some ht0) now hn⟩

/-- completion rings: when a `process` call completes the query (answer, failure or deadline), the fd is readable from
that moment on, so the owner comes back for the result; and no c-ares descriptor stays registered -/
theorem C04_dns_completion_rings (s s' : DnsQuery.State) (now : Nat) (cb : Cb) (socks : List (Bool × Bool)) (to : Option Nat)
    (h : QInv s) (hcb : CbOk cb) (hst : s.st = .inProgress) (hp : process s now cb socks to = .ok s')
    (hdone : s'.st ≠ .inProgress) : (∀ now', now ≤ now' → 1 ≤ now' → readable s'.tm now' = true) ∧ s'.regs = [] := by
  obtain ⟨s2, e2, hq⟩ := process_inv s now cb socks to h hcb
  rw [hp] at e2; cases e2
  refine ⟨?_, hq.2 hdone⟩
  -- s' is updateXpoll of some core state u with the same (completed) st: the c-ares timer was rescheduled at now + 0
  have key : ∀ u : DnsQuery.State, QCore u → u.st ≠ .inProgress → s' = updateXpoll u now socks to →
      ∀ now', now ≤ now' → 1 ≤ now' → readable s'.tm now' = true := by
    intro u hu hun e now' h1 h2
    obtain ⟨hi, hn, _, ha, _⟩ := hu
    obtain ⟨_, _, _, k3⟩ := reschedule_keeps_zero u.tm now 0 u.aresTimer hn ha
    have hinv : TimerProps.Inv s'.tm := hq.1.1
    have hlive : find s'.tm s'.aresTimer = some { id := u.tm.nextId, expiry := now + (0 : Int).toNat } := by
      rw [e]; simp only [updateXpoll, hun, if_false]; exact k3
    apply wakes_of_inv s'.tm hinv _ (List.mem_of_find?_eq_some hlive) now'
    simp only [armValue]; split <;> simp at * <;> omega
  obtain ⟨hc, e0, hf⟩ := mid_core s cb h hst hcb
  obtain ⟨t0, ht0⟩ := (h.1.2.2.1 hst).2
  simp only [process, hst, if_true, processInProgress] at hp
  split at hp
  · rw [e0] at hp
    simp only [hasExpired, hf, ht0] at hp
    by_cases hx : now > t0.expiry
    · simp only [hx, decide_true, Outcome.ok.injEq] at hp
      exact key _ (failNow_core _ hc) (by simp [failNow]) hp.symm
    · simp only [hx, decide_false, Outcome.ok.injEq] at hp
      refine key _ hc ?_ hp.symm
      intro hmid; apply hdone; rw [← hp, (updateXpoll_inv _ now socks to hc).2]; exact hmid
  · simp only [Outcome.ok.injEq] at hp
    refine key _ hc ?_ hp.symm
    intro hmid; apply hdone; rw [← hp, (updateXpoll_inv _ now socks to hc).2]; exact hmid

/-! ### C16: quiet unless a timer is due -/

theorem C16_dns_quiet (s : DnsQuery.State) (h : QInv s) (now : Nat) (hrd : readable s.tm now = true) :
    ∃ t ∈ s.tm.timers, t.expiry ≤ now :=
  quiet_of_inv s.tm h.1.1 now hrd

/-! ### non-vacuity -/

/-- a query with dns.timeout 2 s created at t = 5 s: c-ares wants to read on slot 0 and to be called in 1 s; nothing
arrives; the process call at 7 s + 1 ns fails it, and the result is ENOENT -/
example :
    let s0 := (resolve (5 * SEC) (2 * SEC) .none [(true, false)] (some SEC)).1
    s0.st = .inProgress ∧ s0.regs = [(0, EPOLLIN)] ∧ s0.tm.armed = some (6 * SEC) ∧
    (∃ s1, process s0 (6 * SEC) .none [(true, false)] (some SEC) = .ok s1 ∧ s1.st = .inProgress ∧ s1.tm.armed = some (7 * SEC) ∧
      ∃ s2, process s1 (7 * SEC + 1) .none [] none = .ok s2 ∧ s2.st = .failed ∧ s2.regs = [] ∧
        (result s2 32).1 = .err Generated.ENOENT ∧ readable s2.tm (7 * SEC + 1) = true) := by
  refine ⟨by decide, by decide, by decide, _, rfl, by decide, by decide, _, rfl, by decide, by decide, by decide, by decide⟩

example : QInv (resolve (5 * SEC) (2 * SEC) .none [(true, false)] (some SEC)).1 := resolve_inv _ _ _ _ _ trivial

end XcmModel.DnsProps
