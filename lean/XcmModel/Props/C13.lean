import XcmModel.Lemmas.Tconnect
import XcmModel.DnsSync
/-
  C13 - name resolution and multi-address connect follow the selected algorithm.

  A run of a track is a list of environment scripts, one per call of `tconnect_get_connected_fd`
  (any number of calls, any timing, any per-address behaviour).  The ghost field `tried` records
  what became of the attempt on each address.

  Environment assumption: the tokens stand for what the kernel reports for the *current* attempt
  (K-connect); that the kernel's report reflects what the remote address does is outside XCM.
-/
namespace XcmModel.C13
open XcmModel XcmModel.Tconnect

/-- a track after creation and any number of polls with any scripts -/
def runTrack (t0 : Track) (scripts : List (List Tok)) : Track :=
  scripts.foldl (fun t s => (trackGetFd t s []).1) t0

theorem runTrack_good (t0 : Track) (h : Good t0) (scripts : List (List Tok)) :
    Good (runTrack t0 scripts) ∧ Same (runTrack t0 scripts) t0 := by
  induction scripts generalizing t0 with
  | nil => exact ⟨h, Same.refl _⟩
  | cons s rest ih =>
    have h1 := trackGetFd_good t0 s [] h
    have h2 := ih (trackGetFd t0 s []).1 h1.1
    exact ⟨h2.1, Same.trans h2.2 h1.2⟩

/-- every track that `tconnect_connect` creates and any later poll leaves is `Good` -/
theorem reachable_good (addrs : List Fam) (fd4 fd6 hl delay : Bool) (s0 : List Tok) (scripts : List (List Tok)) :
    Good (runTrack (trackCreate addrs fd4 fd6 hl delay s0 []).1 scripts) :=
  (runTrack_good _ (trackCreate_good addrs fd4 fd6 hl delay s0 []).1 scripts).1

/-- **"sequential" ends up connected to the first address in list order that accepts.**
If a track is connected (to address number `i`), then the attempt on `i` succeeded, every attempt
before it failed, and every earlier address of a family the track may use was attempted - so no
accepting address was skipped or overtaken, for any timing and any errno of the failures. -/
theorem C13_sequential_first_accepting (t : Track) (hg : Good t)
    (hc : t.state = .connected ∨ t.state = .finished) :
    ∃ init i, t.tried = init ++ [(i, .ok)] ∧ t.cur = some i ∧ AllFailed init
      ∧ (∀ j, j < i → j < t.addrs.length → supports t (famAt t j) = true → j ∈ init.map (·.1)) := by
  have hsh := hg.shape
  have key : ∃ init i, t.tried = init ++ [(i, .ok)] ∧ AllFailed init ∧ t.cur = some i := by
    rcases hc with hc | hc <;> simpa [Shape, hc] using hsh
  obtain ⟨init, i, htr, hfail, hcur⟩ := key
  refine ⟨init, i, htr, hcur, hfail, ?_⟩
  intro j hj1 hj2 hj3
  have hi : i < t.next := (hg.sound (i, .ok) (by rw [htr]; simp)).1
  have := hg.complete j (by omega) hj2 hj3
  rw [htr] at this
  simp at this
  rcases this with ⟨a, ha⟩ | h
  · exact List.mem_map.mpr ⟨(j, a), ha, rfl⟩
  · omega

/-- **the errno of a failed connect is that of the last failed attempt, ENOENT when nothing could be
attempted**, and failure is only reported after every usable address has been attempted and failed -/
theorem C13_errno_of_last_failure (t : Track) (hg : Good t) (hb : t.state = .bad) :
    AllFailed t.tried ∧ t.bad = (if lastErr t.tried = 0 then ENOENT else lastErr t.tried)
    ∧ (∀ j, j < t.addrs.length → supports t (famAt t j) = true → j ∈ t.tried.map (·.1)) := by
  have hsh := hg.shape
  simp only [Shape, hb] at hsh
  exact ⟨hsh.1, hsh.2.1, fun j h1 h2 => hsh.2.2.1 j h1 h1 h2⟩

/-- a timed-out attempt counts as a failure with ETIMEDOUT (`tcp.connect_timeout`): the timer token
`x` while connecting makes the current attempt `failed ETIMEDOUT` -/
theorem C13_timeout_is_etimedout (t : Track) (s : List Tok) (tr : List String) (init : List (Nat × Att)) (i : Nat)
    (hs : t.state = .connecting) (htr : t.tried = init ++ [(i, .pending)]) (hx : (pop s).1 = .x) (hn : t.next ≥ t.addrs.length) :
    (procConnecting t s tr).1.state = .bad ∧ (procConnecting t s tr).1.bad = ETIMEDOUT := by
  unfold procConnecting
  rw [if_pos hs]
  simp only [hx, if_true, abort_fields]
  have hf : findNext { t with bad := ETIMEDOUT, tried := setLast t.tried (.failed ETIMEDOUT), reg := false, timer := false }
      (t.addrs.length + 1) t.next = none := by
    cases hfn : findNext { t with bad := ETIMEDOUT, tried := setLast t.tried (.failed ETIMEDOUT), reg := false, timer := false }
        (t.addrs.length + 1) t.next with
    | none => rfl
    | some j =>
      have := findNext_some _ _ _ _ hfn
      simp at this
      omega
  simp only [connectNext, hf]
  constructor
  · trivial
  · simp [ETIMEDOUT, Generated.ETIMEDOUT]

/-- **"single" tries only the first address** -/
theorem C13_single_first_only (addrs : List Fam) (hl : Bool) (s0 : List Tok) (scripts : List (List Tok)) :
    let tc := (tcConnect .single addrs hl s0).1
    ∀ t ∈ tc.tracks, ∀ p ∈ (runTrack t scripts).tried, p.1 = 0 := by
  intro tc t ht p hp
  simp only [tc, tcConnect, List.mem_singleton] at ht
  subst ht
  have hg := runTrack_good _ (trackCreate_good (addrs.take 1) true true hl false s0 []).1 scripts
  have hs := hg.1.sound p hp
  have hlen : (runTrack (trackCreate (addrs.take 1) true true hl false s0 []).1 scripts).addrs.length ≤ 1 := by
    rw [hg.2.1, (trackCreate_good (addrs.take 1) true true hl false s0 []).2.1]
    simp [List.length_take]; omega
  omega

/-- **no lost wake-up while connecting (used by C04/C16)**: whenever a track waits for a connection
attempt its descriptor is registered for EPOLLOUT and the attempt's timer is armed; while it waits
for the Happy Eyeballs delay the delay timer is armed -/
theorem C13_waiting_is_watched (t : Track) (hg : Good t) :
    (t.state = .connecting → t.reg = true ∧ t.timer = true) ∧ (t.state = .initialDelay → t.timer = true) := by
  have hsh := hg.shape
  constructor
  · intro hs
    simp only [Shape, hs] at hsh
    obtain ⟨_, _, _, _, _, htm, hreg, _⟩ := hsh
    exact ⟨hreg, htm⟩
  · intro hs
    simp only [Shape, hs] at hsh
    exact hsh.2.1

/-- **xcm_server / a named local address on an unresolvable name fails instead of hanging**: the
synchronous resolution loop ends at the first answer that is not EAGAIN, with that errno (ENOENT for
a failed or timed-out lookup), after exactly that many iterations.  (Before fix f8bb4f5, F-13a, the
loop tested the wrong variable and never ended on failure.) -/
theorem C13_resolve_sync_terminates (pre : List DnsSync.QAns) (e : Nat) (rest : List DnsSync.QAns)
    (hpre : ∀ a ∈ pre, a = .again ∨ a = .fail DnsSync.EAGAIN) (he : e ≠ DnsSync.EAGAIN) :
    DnsSync.resolveSync false (pre ++ .fail e :: rest) = (.err e, pre.length + 1)
    ∧ DnsSync.resolveSync false (pre ++ .resolved :: rest) = (.ok, pre.length + 1) := by
  have key : ∀ (n : Nat) (tail : List DnsSync.QAns), DnsSync.loop (pre ++ tail) n = DnsSync.loop tail (n + pre.length) := by
    induction pre with
    | nil => intro n tail; simp
    | cons a t ih =>
      intro n tail
      have ha := hpre a (by simp)
      have ih' := ih (fun b hb => hpre b (by simp [hb]))
      rcases ha with ha | ha <;> subst ha <;> simp [DnsSync.loop, ih', Nat.add_assoc, Nat.add_comm 1]
  simp [DnsSync.resolveSync, key, DnsSync.loop, he, Nat.add_comm]

/-- non-vacuity: three addresses, the first refuses at once, the second times out, the third accepts -/
example :
    let t := runTrack (trackCreate [.v4, .v4, .v4] true true true false [.ip, .err 111, .ip, .ip] []).1
      [[.ip, .ip], [.x, .ip, .ip], [.ip, .ok]]
    t.state = .finished ∧ t.tried = [(0, .failed 111), (1, .failed ETIMEDOUT), (2, .ok)] := by decide

end XcmModel.C13

/-! ## the whole tconnect instance: Happy Eyeballs runs one track per address family -/
namespace XcmModel.C13tc
open XcmModel XcmModel.Tconnect

theorem loop_inprog_mono (ts : List Track) : ∀ (s : List Tok) (tr : List String) (fa : Nat),
    (tcGetFdLoop ts s tr true fa).2.2.2.2.1 = true ∨ (tcGetFdLoop ts s tr true fa).2.1 ≠ none ∨ (tcGetFdLoop ts s tr true fa).2.2.2.2.2.2 = true := by
  induction ts with
  | nil => intro s tr fa; left; rfl
  | cons t rest ih =>
    intro s tr fa
    unfold tcGetFdLoop
    rcases hp : trackGetFd t s tr with ⟨t1, r, s1, tr1⟩
    cases r with
    | fd f => right; left; simp
    | abort => right; right; simp
    | err e =>
      simp only
      by_cases he : e = EAGAIN
      · simp only [he, if_true]
        rcases ih s1 tr1 fa with h | h | h
        · left; exact h
        · right; left; exact h
        · right; right; exact h
      · simp only [he, if_false]
        rcases ih s1 tr1 e with h | h | h
        · left; exact h
        · right; left; exact h
        · right; right; exact h

/-- the loop over the tracks ends without a descriptor, without a track in progress and without an assertion only if
every track has failed -/
theorem loop_all_failed (ts : List Track) : ∀ (s : List Tok) (tr : List String) (fa : Nat),
    (tcGetFdLoop ts s tr false fa).2.1 = none → (tcGetFdLoop ts s tr false fa).2.2.2.2.1 = false →
    (tcGetFdLoop ts s tr false fa).2.2.2.2.2.2 = false → ∀ t ∈ (tcGetFdLoop ts s tr false fa).1, t.state = .bad := by
  induction ts with
  | nil => intro s tr fa _ _ _ t ht; cases ht
  | cons t rest ih =>
    intro s tr fa
    unfold tcGetFdLoop
    rcases hp : trackGetFd t s tr with ⟨t1, r, s1, tr1⟩
    have hst : (r = .err t1.bad ∧ t1.state = .bad) ∨ r = .err EAGAIN ∨ (∃ f, r = .fd f) ∨ r = .abort := by
      unfold trackGetFd at hp
      rcases hq : process t s tr with ⟨t0, s0, tr0⟩
      rw [hq] at hp
      simp only at hp
      cases hs : t0.state <;> simp only [hs, Prod.mk.injEq] at hp <;> obtain ⟨h1, h2, _, _⟩ := hp <;> subst h1 <;> subst h2
      all_goals first
        | exact Or.inl ⟨rfl, hs⟩
        | exact Or.inr (Or.inl rfl)
        | exact Or.inr (Or.inr (Or.inl ⟨_, rfl⟩))
        | exact Or.inr (Or.inr (Or.inr rfl))
    rcases hst with ⟨hr, hb⟩ | hr | ⟨f, hr⟩ | hr
    · subst hr
      simp only
      by_cases he : t1.bad = EAGAIN
      · simp only [he, if_true]
        intro hn hi ha
        rcases loop_inprog_mono rest s1 tr1 fa with h | h | h
        · rw [h] at hi; cases hi
        · exact absurd hn h
        · rw [h] at ha; cases ha
      · simp only [he, if_false]
        intro hn hi ha t' ht'
        rcases List.mem_cons.mp ht' with h | h
        · rw [h]; exact hb
        · exact ih s1 tr1 t1.bad hn hi ha t' h
    · subst hr
      simp only [if_true]
      intro hn hi ha
      rcases loop_inprog_mono rest s1 tr1 fa with h | h | h
      · rw [h] at hi; cases hi
      · exact absurd hn h
      · rw [h] at ha; cases ha
    · subst hr; intro hn; simp at hn
    · subst hr; intro _ _ ha; simp at ha

/-- **tconnect_get_connected_fd reports a failure only when every track has failed**: as long as a track of either
family is still connecting (or waiting out its head-start delay) the answer is EAGAIN, and a track that got connected
is handed out - so with Happy Eyeballs an accepting address of either family is not masked by the other family's failure -/
theorem C13_tc_fails_only_when_all_tracks_failed (tc : TC) (s : List Tok) (e : Nat)
    (h : (tcGetFd tc s).2.1 = .err e) (he : e ≠ EAGAIN) : ∀ t ∈ (tcGetFd tc s).1.tracks, t.state = .bad := by
  unfold tcGetFd at h ⊢
  rcases hl : tcGetFdLoop tc.tracks s [] false ENOENT with ⟨ts, f, s', tr, inprog, fatal, ab⟩
  rw [hl] at h
  simp only at h ⊢
  have key := loop_all_failed tc.tracks s [] ENOENT
  rw [hl] at key
  simp only at key
  cases ab with
  | true => simp at h
  | false =>
    cases f with
    | some fam => simp at h
    | none =>
      cases inprog with
      | true => simp at h; exact absurd h.symm he
      | false => exact key rfl rfl rfl

/-- Happy Eyeballs: one track per address family present in the answer, each confined to its own family's descriptor;
the IPv4 track starts after the head-start delay exactly when there are IPv6 addresses -/
theorem C13_happy_one_track_per_family (addrs : List Fam) (hl : Bool) (s : List Tok) :
    let tc := (tcConnect .happy addrs hl s).1
    tc.tracks.length = (if addrs.any (· == .v4) then 1 else 0) + (if addrs.any (· == .v6) then 1 else 0) ∧
    (∀ t ∈ tc.tracks, (t.fd4 = true ∧ t.fd6 = false) ∨ (t.fd4 = false ∧ t.fd6 = true)) := by
  intro tc
  have fdOf : ∀ (a : List Fam) (f4 f6 h d : Bool) (s : List Tok) (tr : List String),
      (trackCreate a f4 f6 h d s tr).1.fd4 = f4 ∧ (trackCreate a f4 f6 h d s tr).1.fd6 = f6 := by
    intro a f4 f6 h d s tr
    have g := trackCreate_good a f4 f6 h d s tr
    exact ⟨g.2.2.1, g.2.2.2.1⟩
  show (tcConnect .happy addrs hl s).1.tracks.length = _ ∧ ∀ t ∈ (tcConnect .happy addrs hl s).1.tracks, _
  unfold tcConnect
  simp only
  cases h4 : addrs.any (· == .v4) <;> cases h6 : addrs.any (· == .v6) <;> simp only [if_true, if_false, Bool.false_eq_true]
  · exact ⟨rfl, fun t ht => by cases ht⟩
  · refine ⟨rfl, fun t ht => ?_⟩
    simp only [List.nil_append, List.mem_singleton] at ht
    subst ht
    exact Or.inr (fdOf _ _ _ _ _ _ _)
  · refine ⟨rfl, fun t ht => ?_⟩
    simp only [List.append_nil, List.mem_singleton] at ht
    subst ht
    exact Or.inl (fdOf _ _ _ _ _ _ _)
  · refine ⟨rfl, fun t ht => ?_⟩
    simp only [List.cons_append, List.nil_append, List.mem_cons, List.mem_singleton, List.not_mem_nil, or_false] at ht
    rcases ht with ht | ht <;> subst ht
    · exact Or.inl (fdOf _ _ _ _ _ _ _)
    · exact Or.inr (fdOf _ _ _ _ _ _ _)

end XcmModel.C13tc
