import XcmModel.Lemmas.Tconnect
import XcmModel.DnsSync
/-
  C13 - name resolution and multi-address connect follow the selected algorithm.

  A run of a track is a list of environment scripts, one per call of `tconnect_get_connected_fd`
  (any number of calls, any timing, any per-address behaviour).  The ghost field `tried` records
  what became of the attempt on each address.

  Environment assumption: the tokens stand for what the kernel reports for the *current* attempt
  (K-connect); that the kernel's report reflects what the remote address does is outside XCM.
-/
namespace XcmModel.C13
open XcmModel XcmModel.Tconnect

/-- a track after creation and any number of polls with any scripts -/
def runTrack (t0 : Track) (scripts : List (List Tok)) : Track :=
  scripts.foldl (fun t s => (trackGetFd t s []).1) t0

theorem runTrack_good (t0 : Track) (h : Good t0) (scripts : List (List Tok)) :
    Good (runTrack t0 scripts) ∧ Same (runTrack t0 scripts) t0 := by
  induction scripts generalizing t0 with
  | nil => exact ⟨h, Same.refl _⟩
  | cons s rest ih =>
    have h1 := trackGetFd_good t0 s [] h
    have h2 := ih (trackGetFd t0 s []).1 h1.1
    exact ⟨h2.1, Same.trans h2.2 h1.2⟩

/-- every track that `tconnect_connect` creates and any later poll leaves is `Good` -/
theorem reachable_good (addrs : List Fam) (fd4 fd6 hl delay : Bool) (s0 : List Tok) (scripts : List (List Tok)) :
    Good (runTrack (trackCreate addrs fd4 fd6 hl delay s0 []).1 scripts) :=
  (runTrack_good _ (trackCreate_good addrs fd4 fd6 hl delay s0 []).1 scripts).1

/-- **"sequential" ends up connected to the first address in list order that accepts.**
If a track is connected (to address number `i`), then the attempt on `i` succeeded, every attempt
before it failed, and every earlier address of a family the track may use was attempted - so no
accepting address was skipped or overtaken, for any timing and any errno of the failures. -/
theorem C13_sequential_first_accepting (t : Track) (hg : Good t)
    (hc : t.state = .connected ∨ t.state = .finished) :
    ∃ init i, t.tried = init ++ [(i, .ok)] ∧ t.cur = some i ∧ AllFailed init
      ∧ (∀ j, j < i → j < t.addrs.length → supports t (famAt t j) = true → j ∈ init.map (·.1)) := by
  have hsh := hg.shape
  have key : ∃ init i, t.tried = init ++ [(i, .ok)] ∧ AllFailed init ∧ t.cur = some i := by
    rcases hc with hc | hc <;> simpa [Shape, hc] using hsh
  obtain ⟨init, i, htr, hfail, hcur⟩ := key
  refine ⟨init, i, htr, hcur, hfail, ?_⟩
  intro j hj1 hj2 hj3
  have hi : i < t.next := (hg.sound (i, .ok) (by rw [htr]; simp)).1
  have := hg.complete j (by omega) hj2 hj3
  rw [htr] at this
  simp at this
  rcases this with ⟨a, ha⟩ | h
  · exact List.mem_map.mpr ⟨(j, a), ha, rfl⟩
  · omega

/-- **the errno of a failed connect is that of the last failed attempt, ENOENT when nothing could be
attempted**, and failure is only reported after every usable address has been attempted and failed -/
theorem C13_errno_of_last_failure (t : Track) (hg : Good t) (hb : t.state = .bad) :
    AllFailed t.tried ∧ t.bad = (if lastErr t.tried = 0 then ENOENT else lastErr t.tried)
    ∧ (∀ j, j < t.addrs.length → supports t (famAt t j) = true → j ∈ t.tried.map (·.1)) := by
  have hsh := hg.shape
  simp only [Shape, hb] at hsh
  exact ⟨hsh.1, hsh.2.1, fun j h1 h2 => hsh.2.2.1 j h1 h1 h2⟩

/-- a timed-out attempt counts as a failure with ETIMEDOUT (`tcp.connect_timeout`): the timer token
`x` while connecting makes the current attempt `failed ETIMEDOUT` -/
theorem C13_timeout_is_etimedout (t : Track) (s : List Tok) (tr : List String) (init : List (Nat × Att)) (i : Nat)
    (hs : t.state = .connecting) (htr : t.tried = init ++ [(i, .pending)]) (hx : (pop s).1 = .x) (hn : t.next ≥ t.addrs.length) :
    (procConnecting t s tr).1.state = .bad ∧ (procConnecting t s tr).1.bad = ETIMEDOUT := by
  unfold procConnecting
  rw [if_pos hs]
  simp only [hx, if_true, abort_fields]
  have hf : findNext { t with bad := ETIMEDOUT, tried := setLast t.tried (.failed ETIMEDOUT), reg := false, timer := false }
      (t.addrs.length + 1) t.next = none := by
    cases hfn : findNext { t with bad := ETIMEDOUT, tried := setLast t.tried (.failed ETIMEDOUT), reg := false, timer := false }
        (t.addrs.length + 1) t.next with
    | none => rfl
    | some j =>
      have := findNext_some _ _ _ _ hfn
      simp at this
      omega
  simp only [connectNext, hf]
  constructor
  · trivial
  · simp [ETIMEDOUT, Generated.ETIMEDOUT]

/-- **"single" tries only the first address** -/
theorem C13_single_first_only (addrs : List Fam) (hl : Bool) (s0 : List Tok) (scripts : List (List Tok)) :
    let tc := (tcConnect .single addrs hl s0).1
    ∀ t ∈ tc.tracks, ∀ p ∈ (runTrack t scripts).tried, p.1 = 0 := by
  intro tc t ht p hp
  simp only [tc, tcConnect, List.mem_singleton] at ht
  subst ht
  have hg := runTrack_good _ (trackCreate_good (addrs.take 1) true true hl false s0 []).1 scripts
  have hs := hg.1.sound p hp
  have hlen : (runTrack (trackCreate (addrs.take 1) true true hl false s0 []).1 scripts).addrs.length ≤ 1 := by
    rw [hg.2.1, (trackCreate_good (addrs.take 1) true true hl false s0 []).2.1]
    simp [List.length_take]; omega
  omega

/-- **no lost wake-up while connecting (used by C04/C16)**: whenever a track waits for a connection
attempt its descriptor is registered for EPOLLOUT and the attempt's timer is armed; while it waits
for the Happy Eyeballs delay the delay timer is armed -/
theorem C13_waiting_is_watched (t : Track) (hg : Good t) :
    (t.state = .connecting → t.reg = true ∧ t.timer = true) ∧ (t.state = .initialDelay → t.timer = true) := by
  have hsh := hg.shape
  constructor
  · intro hs
    simp only [Shape, hs] at hsh
    obtain ⟨_, _, _, _, _, htm, hreg, _⟩ := hsh
    exact ⟨hreg, htm⟩
  · intro hs
    simp only [Shape, hs] at hsh
    exact hsh.2.1

/-- **xcm_server / a named local address on an unresolvable name fails instead of hanging**: the
synchronous resolution loop ends at the first answer that is not EAGAIN, with that errno (ENOENT for
a failed or timed-out lookup), after exactly that many iterations.  (Before fix f8bb4f5, F-13a, the
loop tested the wrong variable and never ended on failure.) -/
theorem C13_resolve_sync_terminates (pre : List DnsSync.QAns) (e : Nat) (rest : List DnsSync.QAns)
    (hpre : ∀ a ∈ pre, a = .again ∨ a = .fail DnsSync.EAGAIN) (he : e ≠ DnsSync.EAGAIN) :
    DnsSync.resolveSync false (pre ++ .fail e :: rest) = (.err e, pre.length + 1)
    ∧ DnsSync.resolveSync false (pre ++ .resolved :: rest) = (.ok, pre.length + 1) := by
  have key : ∀ (n : Nat) (tail : List DnsSync.QAns), DnsSync.loop (pre ++ tail) n = DnsSync.loop tail (n + pre.length) := by
    induction pre with
    | nil => intro n tail; simp
    | cons a t ih =>
      intro n tail
      have ha := hpre a (by simp)
      have ih' := ih (fun b hb => hpre b (by simp [hb]))
      rcases ha with ha | ha <;> subst ha <;> simp [DnsSync.loop, ih', Nat.add_assoc, Nat.add_comm 1]
  simp [DnsSync.resolveSync, key, DnsSync.loop, he, Nat.add_comm]

/-- non-vacuity: three addresses, the first refuses at once, the second times out, the third accepts -/
example :
    let t := runTrack (trackCreate [.v4, .v4, .v4] true true true false [.ip, .err 111, .ip, .ip] []).1
      [[.ip, .ip], [.x, .ip, .ip], [.ip, .ok]]
    t.state = .finished ∧ t.tried = [(0, .failed 111), (1, .failed ETIMEDOUT), (2, .ok)] := by decide

end XcmModel.C13
