import XcmModel.Framing
import XcmModel.Lemmas.Framing
import XcmModel.Lemmas.Ux
/-!
# C01 — messaging transports deliver exactly the accepted messages, whole, in order

The model is `XcmModel.Framing` (the program text shared by `xcm_tp_tcp.c` and
`xcm_tp_tls.c`).  An endpoint `Ep` runs *any* sequence of API calls (`send`, `receive`,
`finish`) and environment events (bytes arriving in arbitrary segments, end of stream,
errors; the lower layer accepting any number of bytes per write, refusing with EAGAIN or
failing) — `Ep.run Ep.init ops` for an arbitrary `ops : List Op`, no bound on length,
message size or schedule.

Environment contract (hypotheses, DESIGN §3.1 K-stream, for the socket *below* the framing
layer, i.e. the conclusion of C02/C06 for btcp/btls):
* bytes accepted below on one side arrive on the other side in order, unmodified, at most
  once: `B.arrived <+: A.env.tx`  (hypothesis `hfifo` of the delivery theorem);
* a lower-layer send failure other than EAGAIN is terminal (`Env.txErr`, built into the
  model of the lower layer).
Since the two endpoints share nothing but that channel, quantifying over one arbitrary op
list per endpoint covers every interleaving of the two ends.
-/
namespace XcmModel.C01
open XcmModel XcmModel.Wire XcmModel.Framing

/-! ## Sender side: the wire carries exactly the frames of the accepted messages -/

/-- total payload size of a list of messages -/
def sumLen (l : List Bytes) : Nat := (l.map List.length).sum

theorem sumLen_append (a b : List Bytes) : sumLen (a ++ b) = sumLen a + sumLen b := by
  simp [sumLen]

/-- `extra` is the message of a `send` that failed with a connection error *after* having
been buffered; the lower layer is then dead, so its frame is never completed on the wire.
The invariant also pins the four send-side counters (used by C17). -/
structure SendInv (e : Ep) : Prop where
  wf : SWf e.s
  wire : ∃ extra, wirePending e.s e.env = frames (e.accepted ++ extra) ∧
    (extra = [] ∨ ∃ m, extra = [m] ∧ e.env.txErr ≠ none ∧ e.s.sbuf ≠ []) ∧
    (∀ m ∈ e.accepted ++ extra, Valid m) ∧
    e.s.cnt.fromAppM = (e.accepted ++ extra).length ∧ e.s.cnt.fromAppB = sumLen (e.accepted ++ extra)
  s1 : e.s.cnt.fromAppM = e.s.cnt.toLowerM + (if e.s.sbuf = [] then 0 else 1)
  s2 : e.s.cnt.fromAppB = e.s.cnt.toLowerB + (if e.s.sbuf = [] then 0 else rd32 e.s.sbuf)

theorem sendInv_init : SendInv {} :=
  ⟨Or.inl ⟨rfl, rfl⟩, ⟨[], rfl, Or.inl rfl, (by simp), rfl, rfl⟩, rfl, rfl⟩

/-- the four send-side counters of `s'` are those of `s` -/
def CntSame (s' s : St) : Prop :=
  s'.cnt.fromAppM = s.cnt.fromAppM ∧ s'.cnt.fromAppB = s.cnt.fromAppB ∧
  s'.cnt.toLowerM = s.cnt.toLowerM ∧ s'.cnt.toLowerB = s.cnt.toLowerB

/-- counter bookkeeping of one flush -/
theorem flush_counters {s : St} {env : Env} {r : St × Env × Option Nat × List SAns}
    (sp : TfsSpec s env r)
    (h1 : s.cnt.fromAppM = s.cnt.toLowerM + (if s.sbuf = [] then 0 else 1))
    (h2 : s.cnt.fromAppB = s.cnt.toLowerB + (if s.sbuf = [] then 0 else rd32 s.sbuf)) :
    r.1.cnt.fromAppM = s.cnt.fromAppM ∧ r.1.cnt.fromAppB = s.cnt.fromAppB ∧
    r.1.cnt.fromAppM = r.1.cnt.toLowerM + (if r.1.sbuf = [] then 0 else 1) ∧
    r.1.cnt.fromAppB = r.1.cnt.toLowerB + (if r.1.sbuf = [] then 0 else rd32 r.1.sbuf) := by
  cases hr : r.2.2.1 with
  | none =>
    obtain ⟨hs, _⟩ := sp.done hr
    by_cases he : s.sbuf = []
    · have hc := sp.cntSame (Or.inl he)
      rw [hc, hs]; simp only [he, if_true] at h1 h2; simp [h1, h2]
    · have hc := sp.cntDone he hr
      rw [hc, hs]; simp only [he, if_false] at h1 h2
      simp only [if_true]
      refine ⟨trivial, trivial, ?_, ?_⟩ <;> omega
  | some e0 =>
    obtain ⟨hs, hne, _⟩ := sp.fail e0 hr
    have hc := sp.cntSame (Or.inr (by rw [hr]; simp))
    rw [hc, hs]; exact ⟨rfl, rfl, h1, h2⟩

/-- a flush (`try_finish_send`) preserves the sender invariant whatever the lower layer answers -/
theorem sendInv_flush {e : Ep} (h : SendInv e) (ans : List SAns) {e' : Ep}
    (hs : e'.s.sbuf = (tryFinishSend e.s e.env ans).1.sbuf ∧ e'.s.sent = (tryFinishSend e.s e.env ans).1.sent)
    (henv : e'.env.tx = (tryFinishSend e.s e.env ans).2.1.tx ∧
      e'.env.txErr = (tryFinishSend e.s e.env ans).2.1.txErr)
    (hcnt : CntSame e'.s (tryFinishSend e.s e.env ans).1)
    (hacc : e'.accepted = e.accepted) : SendInv e' := by
  have sp := tfs_spec ans e.s e.env h.wf
  simp only [tryFinishSend] at hs henv hcnt
  generalize tryFinishSendAux ans e.s e.env = r at sp hs henv hcnt
  obtain ⟨extra, hw, hex, hv, hc1, hc2⟩ := h.wire
  obtain ⟨f1, f2, f3, f4⟩ := flush_counters sp h.s1 h.s2
  have hwp : wirePending e'.s e'.env = wirePending r.1 r.2.1 := by
    simp only [wirePending, hs.1, hs.2, henv.1]
  refine ⟨?_, ⟨extra, (by rw [hacc, hwp, sp.wire, hw]), ?_, (by rw [hacc]; exact hv), ?_, ?_⟩, ?_, ?_⟩
  · rcases sp.wf with ⟨a, b⟩ | a
    · exact Or.inl ⟨hs.1.trans a, hs.2.trans b⟩
    · exact Or.inr (by rw [hs.1, hs.2]; exact a)
  · rcases hex with hex | ⟨m, hm, hte, hne⟩
    · exact Or.inl hex
    · right
      cases hte' : e.env.txErr with
      | none => exact absurd hte' hte
      | some e0 =>
        obtain ⟨s1, s2, _⟩ := sp.sticky e0 hte'
        refine ⟨m, hm, ?_, ?_⟩
        · rw [henv.2, s1, hte']; simp
        · rw [hs.1, s2]; exact hne
  · rw [hcnt.1, f1, hacc]; exact hc1
  · rw [hcnt.2.1, f2, hacc]; exact hc2
  · rw [hcnt.1, hcnt.2.2.1, hs.1]; exact f3
  · rw [hcnt.2.1, hcnt.2.2.2, hs.1]; exact f4

/-- when a flush completes although `extra` is pending … it cannot: the lower layer is dead -/
theorem extra_nil_of_flush_ok {e : Ep} (h : SendInv e) (ans : List SAns)
    (hok : (tryFinishSendAux ans e.s e.env).2.2.1 = none) :
    wirePending e.s e.env = frames e.accepted ∧ e.s.cnt.fromAppM = e.accepted.length ∧
      e.s.cnt.fromAppB = sumLen e.accepted := by
  obtain ⟨extra, hw, hex, _, hc1, hc2⟩ := h.wire
  rcases hex with rfl | ⟨m, _, hte, hne⟩
  · simp only [List.append_nil] at hw hc1 hc2; exact ⟨hw, hc1, hc2⟩
  · cases hte' : e.env.txErr with
    | none => exact absurd hte' hte
    | some e0 =>
      have := (tfs_spec ans e.s e.env h.wf).sticky e0 hte'
      rw [this.2.2 hne] at hok; cases hok

theorem frame_ne_nil (m : Bytes) : frame m ≠ [] := by simp [frame, be32]

theorem sendInv_send {e : Ep} (h : SendInv e) (m : Bytes) (ans : List SAns) :
    SendInv (e.step (.send m ans)) := by
  simp only [Ep.step]
  by_cases h1 : m.length > Generated.MBUF_MSG_MAX
  · have hval : send e.s e.env m ans = (e.s, e.env, .err EMSGSIZE, ans) := by simp [send, h1]
    rw [hval]; exact ⟨h.wf, h.wire, h.s1, h.s2⟩
  by_cases h2 : m.length = 0
  · have hval : send e.s e.env m ans = (e.s, e.env, .err EINVAL, ans) := by simp [send, h1, h2]
    rw [hval]; exact ⟨h.wf, h.wire, h.s1, h.s2⟩
  cases hb : e.s.bad with
  | some eb =>
    have hval : send e.s e.env m ans = (e.s, e.env, .err eb, ans) := by simp [send, h1, h2, hb]
    rw [hval]; exact ⟨h.wf, h.wire, h.s1, h.s2⟩
  | none =>
    have sp1 := tfs_spec ans e.s e.env h.wf
    generalize hr1 : tryFinishSendAux ans e.s e.env = r1 at sp1
    cases hres1 : r1.2.2.1 with
    | some e1 =>
      have hval : send e.s e.env m ans = (r1.1, r1.2.1, .err e1, r1.2.2.2) := by
        simp [send, h1, h2, hb, tryFinishSend, hr1, hres1]
      rw [hval]
      exact sendInv_flush h ans (by simp [tryFinishSend, hr1]) (by simp [tryFinishSend, hr1])
        (by simp [tryFinishSend, hr1, CntSame]) (by simp)
    | none =>
      -- the previous frame (if any) is flushed; the new message is buffered
      obtain ⟨hsb, hse⟩ := sp1.done hres1
      obtain ⟨f1, f2, f3, f4⟩ := flush_counters sp1 h.s1 h.s2
      obtain ⟨hpend0, hcm0, hcb0⟩ := extra_nil_of_flush_ok h ans (by rw [hr1]; exact hres1)
      have hpend : wirePending r1.1 r1.2.1 = frames e.accepted := by rw [sp1.wire]; exact hpend0
      have hvalidm : Valid m := ⟨by omega, by omega⟩
      have hmlt := valid_lt hvalidm
      have hvacc : ∀ x ∈ e.accepted, Valid x := by
        obtain ⟨extra, _, _, hv, _⟩ := h.wire
        exact fun x hx => hv x (List.mem_append_left _ hx)
      let s2 : St := { r1.1 with sbuf := frame m, sent := 0,
                                 cnt := { r1.1.cnt with fromAppB := r1.1.cnt.fromAppB + m.length,
                                                        fromAppM := r1.1.cnt.fromAppM + 1 } }
      have hw2 : SWf s2 := Or.inr (by simp [s2]; omega)
      have hp2 : wirePending s2 r1.2.1 = frames (e.accepted ++ [m]) := by
        have : r1.2.1.tx = frames e.accepted := by
          simpa [wirePending, hsb] using hpend
        simp [wirePending, s2, this, frames_append, frames_cons, frames_nil]
      have hrdm : rd32 (frame m) = m.length := by
        have := rd32_frame_append m hmlt []; simpa using this
      have h21 : s2.cnt.fromAppM = s2.cnt.toLowerM + (if s2.sbuf = [] then 0 else 1) := by
        simp only [s2, frame_ne_nil, if_false]; rw [hsb] at f3; simp only [if_true] at f3; omega
      have h22 : s2.cnt.fromAppB = s2.cnt.toLowerB + (if s2.sbuf = [] then 0 else rd32 s2.sbuf) := by
        simp only [s2, frame_ne_nil, if_false, hrdm]; rw [hsb] at f4; simp only [if_true] at f4; omega
      have sp2 := tfs_spec r1.2.2.2 s2 r1.2.1 hw2
      generalize hr3 : tryFinishSendAux r1.2.2.2 s2 r1.2.1 = r3 at sp2
      obtain ⟨g1, g2, g3, g4⟩ := flush_counters sp2 h21 h22
      have hok_or : ∀ (res : Res) (acc' : List Bytes) (extra : List Bytes),
          acc' ++ extra = e.accepted ++ [m] →
          (extra = [] ∨ ∃ m', extra = [m'] ∧ r3.2.1.txErr ≠ none ∧ r3.1.sbuf ≠ []) →
          SendInv { e with s := r3.1, env := r3.2.1, results := e.results ++ [res], accepted := acc' } := by
        intro res acc' extra hacc hex
        refine ⟨sp2.wf, ⟨extra, ?_, hex, ?_, ?_, ?_⟩, g3, g4⟩
        · show wirePending r3.1 r3.2.1 = frames (acc' ++ extra)
          rw [sp2.wire, hp2, hacc]
        · show ∀ x ∈ acc' ++ extra, Valid x
          rw [hacc]
          intro x hx
          rcases List.mem_append.mp hx with hx | hx
          · exact hvacc x hx
          · simp only [List.mem_singleton] at hx; subst hx; exact hvalidm
        · show r3.1.cnt.fromAppM = (acc' ++ extra).length
          rw [hacc, g1]; simp only [s2, List.length_append, List.length_singleton]; omega
        · show r3.1.cnt.fromAppB = sumLen (acc' ++ extra)
          rw [hacc, g2, sumLen_append]; simp only [s2, sumLen, List.map_cons, List.map_nil, List.sum_cons,
            List.sum_nil] at *; omega
      cases hres3 : r3.2.2.1 with
      | none =>
        have hval : send e.s e.env m ans = (r3.1, r3.2.1, .ok, r3.2.2.2) := by
          simp [send, h1, h2, hb, tryFinishSend, hr1, hres1, s2, hr3, hres3]
        rw [hval]
        simpa using hok_or .ok (e.accepted ++ [m]) [] (by simp) (Or.inl rfl)
      | some e3 =>
        by_cases hea : e3 = EAGAIN
        · have hval : send e.s e.env m ans = (r3.1, r3.2.1, .ok, r3.2.2.2) := by
            simp [send, h1, h2, hb, tryFinishSend, hr1, hres1, s2, hr3, hres3, hea]
          rw [hval]
          simpa using hok_or .ok (e.accepted ++ [m]) [] (by simp) (Or.inl rfl)
        · have hval : send e.s e.env m ans = (r3.1, r3.2.1, .err e3, r3.2.2.2) := by
            simp [send, h1, h2, hb, tryFinishSend, hr1, hres1, s2, hr3, hres3, hea]
          rw [hval]
          obtain ⟨f1', _, f3'⟩ := sp2.fail e3 hres3
          have := hok_or (.err e3) e.accepted [m] rfl
            (Or.inr ⟨m, rfl, (by rw [f3' hea]; simp), (by rw [f1']; exact frame_ne_nil m)⟩)
          simpa using this

theorem receive_sendside (s : St) (env : Env) (cap : Nat) (ans : List SAns) :
    ((receive s env cap ans).1 = s ∧ (receive s env cap ans).2.1 = env) ∨
    SendSide (tryFinishSend s env ans).1 (tryFinishSend s env ans).2.1
      (receive s env cap ans).1 (receive s env cap ans).2.1 := by
  simp only [receive]
  cases hb : s.bad with
  | some e => left; exact ⟨rfl, rfl⟩
  | none =>
    right
    simp only
    generalize tryFinishSend s env ans = r1
    obtain ⟨s1, env1, res1, ans1⟩ := r1
    simp only
    have hbm := bufferMsg_sendside s1 env1
    generalize bufferMsg s1 env1 = bm at hbm
    obtain ⟨s2, env2, r2⟩ := bm
    have hfull : ∀ (c : Cnts) (hc : c.fromAppM = s2.cnt.fromAppM ∧ c.fromAppB = s2.cnt.fromAppB ∧
        c.toLowerM = s2.cnt.toLowerM ∧ c.toLowerB = s2.cnt.toLowerB),
        SendSide s1 env1 { s2 with rbuf := [], cnt := c } env2 := fun c hc =>
      ⟨hbm.1, hbm.2.1, hbm.2.2.1, hbm.2.2.2.1, hc.1.trans hbm.2.2.2.2.1, hc.2.1.trans hbm.2.2.2.2.2.1,
        hc.2.2.1.trans hbm.2.2.2.2.2.2.1, hc.2.2.2.trans hbm.2.2.2.2.2.2.2⟩
    cases res1 with
    | none =>
      simp only
      cases r2 <;> simp only <;> first | exact hbm | exact hfull _ ⟨rfl, rfl, rfl, rfl⟩
    | some e1 =>
      simp only
      by_cases h1 : e1 = EAGAIN
      · simp only [h1, if_true]
        cases r2 <;> simp only <;> first | exact hbm | exact hfull _ ⟨rfl, rfl, rfl, rfl⟩
      · simp only [h1, if_false]
        by_cases h2 : e1 = EPIPE
        · simp only [h2, if_true]; exact SendSide.refl _ _
        · simp only [h2, if_false]; exact SendSide.refl _ _

theorem finish_sendside (s : St) (env : Env) (ans : List SAns) (fin : Option Nat) :
    ((finish s env ans fin).1 = s ∧ (finish s env ans fin).2.1 = env) ∨
    SendSide (tryFinishSend s env ans).1 (tryFinishSend s env ans).2.1
      (finish s env ans fin).1 (finish s env ans fin).2.1 := by
  simp only [finish]
  cases hb : s.bad with
  | some e => left; exact ⟨rfl, rfl⟩
  | none =>
    right
    simp only
    generalize tryFinishSend s env ans = r1
    obtain ⟨s1, env1, res1, ans1⟩ := r1
    cases fin with
    | some e => exact SendSide.refl _ _
    | none => cases res1 <;> exact SendSide.refl _ _

theorem sendInv_of_same {e e' : Ep} (h : SendInv e) (hs : e'.s.sbuf = e.s.sbuf ∧ e'.s.sent = e.s.sent)
    (henv : e'.env.tx = e.env.tx ∧ e'.env.txErr = e.env.txErr) (hcnt : CntSame e'.s e.s)
    (hacc : e'.accepted = e.accepted) : SendInv e' := by
  obtain ⟨extra, hw, hex, hv, hc1, hc2⟩ := h.wire
  refine ⟨?_, ⟨extra, ?_, ?_, (by rw [hacc]; exact hv), (by rw [hcnt.1, hacc]; exact hc1),
    (by rw [hcnt.2.1, hacc]; exact hc2)⟩, ?_, ?_⟩
  · rcases h.wf with ⟨a, b⟩ | a
    · exact Or.inl ⟨hs.1.trans a, hs.2.trans b⟩
    · exact Or.inr (by rw [hs.1, hs.2]; exact a)
  · rw [hacc, ← hw]; simp only [wirePending, hs.1, hs.2, henv.1]
  · rcases hex with hex | ⟨m, hm, hte, hne⟩
    · exact Or.inl hex
    · exact Or.inr ⟨m, hm, (by rw [henv.2]; exact hte), (by rw [hs.1]; exact hne)⟩
  · rw [hcnt.1, hcnt.2.2.1, hs.1]; exact h.s1
  · rw [hcnt.2.1, hcnt.2.2.2, hs.1]; exact h.s2

theorem CntSame.refl (s : St) : CntSame s s := ⟨rfl, rfl, rfl, rfl⟩

theorem sendInv_receive {e : Ep} (h : SendInv e) (cap : Nat) (ans : List SAns) :
    SendInv (e.step (.receive cap ans)) := by
  have hss := receive_sendside e.s e.env cap ans
  simp only [Ep.step]
  generalize hr : receive e.s e.env cap ans = r at hss
  obtain ⟨s', env', res, ans'⟩ := r
  have key : ∀ e' : Ep, e'.s = s' → e'.env = env' → e'.accepted = e.accepted → SendInv e' := by
    intro e' h1 h2 h3
    rcases hss with ⟨a, b⟩ | hss
    · simp only at a b
      exact sendInv_of_same h (by rw [h1, a]; exact ⟨rfl, rfl⟩) (by rw [h2, b]; exact ⟨rfl, rfl⟩)
        (by rw [h1, a]; exact CntSame.refl _) h3
    · exact sendInv_flush h ans (by rw [h1]; exact ⟨hss.1, hss.2.1⟩)
        (by rw [h2]; exact ⟨hss.2.2.1, hss.2.2.2.1⟩)
        (by rw [h1]; exact ⟨hss.2.2.2.2.1, hss.2.2.2.2.2.1, hss.2.2.2.2.2.2.1, hss.2.2.2.2.2.2.2⟩) h3
  cases res <;> exact key _ rfl rfl rfl

theorem sendInv_finish {e : Ep} (h : SendInv e) (ans : List SAns) (fin : Option Nat) :
    SendInv (e.step (.finish ans fin)) := by
  have hss := finish_sendside e.s e.env ans fin
  simp only [Ep.step]
  generalize hr : finish e.s e.env ans fin = r at hss
  obtain ⟨s', env', res, ans'⟩ := r
  rcases hss with ⟨a, b⟩ | hss
  · simp only at a b
    exact sendInv_of_same h (by rw [a]; exact ⟨rfl, rfl⟩) (by rw [b]; exact ⟨rfl, rfl⟩)
      (by rw [a]; exact CntSame.refl _) rfl
  · exact sendInv_flush h ans ⟨hss.1, hss.2.1⟩ ⟨hss.2.2.1, hss.2.2.2.1⟩
      ⟨hss.2.2.2.2.1, hss.2.2.2.2.2.1, hss.2.2.2.2.2.2.1, hss.2.2.2.2.2.2.2⟩ rfl

theorem sendInv_step {e : Ep} (h : SendInv e) (op : Op) : SendInv (e.step op) := by
  cases op with
  | send m ans => exact sendInv_send h m ans
  | receive cap ans => exact sendInv_receive h cap ans
  | finish ans fin => exact sendInv_finish h ans fin
  | arrive seg =>
    simp only [Ep.step]
    split
    · exact h
    · exact sendInv_of_same h ⟨rfl, rfl⟩ ⟨rfl, rfl⟩ (CntSame.refl _) rfl
  | eof => exact sendInv_of_same h ⟨rfl, rfl⟩ ⟨rfl, rfl⟩ (CntSame.refl _) rfl
  | rxErr err => exact sendInv_of_same h ⟨rfl, rfl⟩ ⟨rfl, rfl⟩ (CntSame.refl _) rfl

theorem sendInv_run (ops : List Op) {e : Ep} (h : SendInv e) : SendInv (e.run ops) := by
  induction ops generalizing e with
  | nil => exact h
  | cons op ops ih => exact ih (sendInv_step h op)

/-! ## Receiver side: the arrived stream is consumed frame by frame -/

structure RecvInv (e : Ep) : Prop where
  stream : e.arrived = frames e.fulls ++ e.s.rbuf ++ e.env.rx.flatten
  valid : ∀ m ∈ e.fulls, Valid m
  ret : e.returned = List.zipWith (fun m c => m.take c) e.fulls e.caps
  lens : e.caps.length = e.fulls.length
  rbuf : RbufOk e.s.bad e.s.rbuf
  segs : ∀ g ∈ e.env.rx, g ≠ []
  bound : e.s.rbuf.length ≤ Generated.MBUF_WIRE_MAX
  badv : e.s.bad = none ∨ e.s.bad = some EPROTO

theorem recvInv_init : RecvInv {} :=
  ⟨rfl, by simp, rfl, rfl, Or.inl (by simp), by simp, by simp, Or.inl rfl⟩

/-- a step that leaves the receive side alone -/
theorem recvInv_of_same {e e' : Ep} (h : RecvInv e) (h1 : e'.s.rbuf = e.s.rbuf) (h2 : e'.s.bad = e.s.bad)
    (h3 : e'.env.rx = e.env.rx) (h4 : e'.arrived = e.arrived) (h5 : e'.fulls = e.fulls)
    (h6 : e'.caps = e.caps) (h7 : e'.returned = e.returned) : RecvInv e' := by
  refine ⟨by rw [h4, h5, h1, h3]; exact h.stream, by rw [h5]; exact h.valid, by rw [h7, h5, h6]; exact h.ret,
    by rw [h6, h5]; exact h.lens, by rw [h1, h2]; exact h.rbuf, by rw [h3]; exact h.segs,
    by rw [h1]; exact h.bound, by rw [h2]; exact h.badv⟩

theorem send_recvside (s : St) (env : Env) (m : Bytes) (ans : List SAns) :
    (send s env m ans).1.rbuf = s.rbuf ∧ (send s env m ans).1.bad = s.bad ∧
    (send s env m ans).2.1.rx = env.rx := by
  simp only [send]
  split; · exact ⟨rfl, rfl, rfl⟩
  split; · exact ⟨rfl, rfl, rfl⟩
  split; · exact ⟨rfl, rfl, rfl⟩
  simp only [tryFinishSend]
  have t1 := tfs_recvside ans s env
  generalize tryFinishSendAux ans s env = r1 at t1
  obtain ⟨s1, env1, res1, ans1⟩ := r1
  simp only at t1 ⊢
  cases res1 with
  | some e1 => exact ⟨t1.1, t1.2.1, t1.2.2.1⟩
  | none =>
    simp only
    have t2 := fun s2 => tfs_recvside ans1 s2 env1
    split
    · exact ⟨(t2 _).1.trans t1.1, (t2 _).2.1.trans t1.2.1, (t2 _).2.2.1.trans t1.2.2.1⟩
    · split <;> exact ⟨(t2 _).1.trans t1.1, (t2 _).2.1.trans t1.2.1, (t2 _).2.2.1.trans t1.2.2.1⟩

theorem finish_recvside (s : St) (env : Env) (ans : List SAns) (fin : Option Nat) :
    (finish s env ans fin).1.rbuf = s.rbuf ∧ (finish s env ans fin).1.bad = s.bad ∧
    (finish s env ans fin).2.1.rx = env.rx := by
  simp only [finish]
  split; · exact ⟨rfl, rfl, rfl⟩
  simp only [tryFinishSend]
  have t1 := tfs_recvside ans s env
  generalize tryFinishSendAux ans s env = r1 at t1
  obtain ⟨s1, env1, res1, ans1⟩ := r1
  simp only at t1 ⊢
  cases fin with
  | some e => exact ⟨t1.1, t1.2.1, t1.2.2.1⟩
  | none => cases res1 <;> exact ⟨t1.1, t1.2.1, t1.2.2.1⟩

theorem zipWith_snoc {α β γ : Type} (f : α → β → γ) (as : List α) (bs : List β) (a : α) (b : β)
    (h : bs.length = as.length) :
    List.zipWith f (as ++ [a]) (bs ++ [b]) = List.zipWith f as bs ++ [f a b] := by
  rw [List.zipWith_append h.symm]; rfl

/-- the tail of `tcp_receive` after the flush -/
def recvResult (s2 : St) (env2 : Env) (cap : Nat) (ans1 : List SAns) : BufRes → St × Env × Res × List SAns
  | .closed => (s2, env2, Res.closed, ans1)
  | .err e => (s2, env2, .err e, ans1)
  | .abort => (s2, env2, .abort "mbuf_wire_ensure_capacity", ans1)
  | .full =>
    ({ s2 with rbuf := [],
               cnt := { s2.cnt with toAppB := s2.cnt.toAppB + min (rd32 s2.rbuf) cap,
                                    toAppM := s2.cnt.toAppM + 1 } },
     env2, .msg ((s2.rbuf.drop Generated.MBUF_HDR_LEN).take (min (rd32 s2.rbuf) cap))
       (s2.rbuf.drop Generated.MBUF_HDR_LEN), ans1)

theorem receive_go (s : St) (env : Env) (cap : Nat) (ans : List SAns) (hb : s.bad = none)
    (s1 : St) (env1 : Env) (res1 : Option Nat) (ans1 : List SAns)
    (hr1 : tryFinishSendAux ans s env = (s1, env1, res1, ans1))
    (hgo : res1 = none ∨ res1 = some EAGAIN) :
    receive s env cap ans =
      recvResult (bufferMsg s1 env1).1 (bufferMsg s1 env1).2.1 cap ans1 (bufferMsg s1 env1).2.2 := by
  generalize hbm : bufferMsg s1 env1 = b
  obtain ⟨s2, env2, r2⟩ := b
  rcases hgo with hgo | hgo <;> subst hgo <;> cases r2 <;>
    simp [receive, hb, tryFinishSend, hr1, hbm, recvResult]

theorem recvInv_receive {e : Ep} (h : RecvInv e) (cap : Nat) (ans : List SAns) :
    RecvInv (e.step (.receive cap ans)) := by
  simp only [Ep.step]
  cases hb : e.s.bad with
  | some eb =>
    have hval : receive e.s e.env cap ans = (e.s, e.env, .err eb, ans) := by simp [receive, hb]
    rw [hval]
    exact recvInv_of_same h rfl rfl rfl rfl rfl rfl rfl
  | none =>
    have t1 := tfs_recvside ans e.s e.env
    generalize hr1 : tryFinishSendAux ans e.s e.env = r1 at t1
    obtain ⟨s1, env1, res1, ans1⟩ := r1
    simp only at t1
    -- does the flush stop the call?
    have hcont : (res1 = none ∨ res1 = some EAGAIN) ∨
        (∃ r, (∀ p f, r ≠ .msg p f) ∧ receive e.s e.env cap ans = (s1, env1, r, ans1)) := by
      cases res1 with
      | none => exact Or.inl (Or.inl rfl)
      | some e1 =>
        by_cases h1 : e1 = EAGAIN
        · exact Or.inl (Or.inr (by rw [h1]))
        · right
          have hpe : ¬ (EPIPE = EAGAIN) := by decide
          by_cases h2 : e1 = EPIPE
          · exact ⟨.closed, (by intro p f hh; cases hh), (by subst h2; simp [receive, hb, tryFinishSend, hr1, hpe])⟩
          · exact ⟨.err e1, (by intro p f hh; cases hh), (by simp [receive, hb, tryFinishSend, hr1, h1, h2])⟩
    rcases hcont with hgo | ⟨r, hr, hval⟩
    · -- buffer_msg runs
      have hbad1 : s1.bad = none := t1.2.1.trans hb
      have bm := bufferMsg_spec s1 env1 hbad1 (by rw [t1.1, hbad1, ← hb]; exact h.rbuf)
        (by rw [t1.2.2.1]; exact h.segs)
      generalize hbmv : bufferMsg s1 env1 = b at bm
      obtain ⟨s2, env2, r2⟩ := b
      have hstream2 : e.arrived = frames e.fulls ++ s2.rbuf ++ env2.rx.flatten := by
        rw [h.stream, List.append_assoc, List.append_assoc, bm.stream, t1.1, t1.2.2.1]
      have hrecv := receive_go e.s e.env cap ans hb s1 env1 res1 ans1 hr1 hgo
      rw [hbmv] at hrecv
      rw [hrecv]
      cases r2 with
      | full =>
        simp only [recvResult]
        obtain ⟨f1, f2, f3, f4, _⟩ := bm.full rfl
        dsimp only at f1 f2 f3 f4
        have hfr : s2.rbuf = frame (s2.rbuf.drop 4) := eq_frame_of_complete s2.rbuf f1 f3
        have hfl : (s2.rbuf.drop 4).length = rd32 s2.rbuf := by simp; omega
        have hb2 := hdrValid_bounds f2
        refine ⟨?_, ?_, ?_, ?_, Or.inl (by simp), bm.segs, by simp, ?_⟩
        · show e.arrived = frames (e.fulls ++ [s2.rbuf.drop Generated.MBUF_HDR_LEN]) ++ [] ++ env2.rx.flatten
          rw [hstream2, frames_append, frames_cons, frames_nil]
          simp only [Generated.MBUF_HDR_LEN, List.append_nil]
          rw [← hfr]
        · show ∀ m ∈ e.fulls ++ [s2.rbuf.drop Generated.MBUF_HDR_LEN], Valid m
          intro m hm
          rcases List.mem_append.mp hm with hm | hm
          · exact h.valid m hm
          · simp only [List.mem_singleton, Generated.MBUF_HDR_LEN] at hm; subst hm
            exact ⟨by omega, by omega⟩
        · show e.returned ++ [(s2.rbuf.drop Generated.MBUF_HDR_LEN).take (min (rd32 s2.rbuf) cap)] =
            List.zipWith (fun m c => m.take c) (e.fulls ++ [s2.rbuf.drop Generated.MBUF_HDR_LEN]) (e.caps ++ [cap])
          rw [zipWith_snoc _ _ _ _ _ h.lens, ← h.ret]
          congr 2
          simp only [Generated.MBUF_HDR_LEN]
          rw [List.take_eq_take_iff, hfl]
          omega
        · show (e.caps ++ [cap]).length = (e.fulls ++ [s2.rbuf.drop Generated.MBUF_HDR_LEN]).length
          simp [h.lens]
        · show s2.bad = none ∨ s2.bad = some EPROTO
          left; rw [f4]; exact hbad1
      | closed =>
        simp only [recvResult]
        obtain ⟨n1, _, n3⟩ := bm.notFull (by simp)
        refine ⟨hstream2, h.valid, h.ret, h.lens, n1, bm.segs, bm.bound, ?_⟩
        rcases n3 with n3 | n3
        · left; exact n3.trans hbad1
        · right; exact n3.1
      | err er =>
        simp only [recvResult]
        obtain ⟨n1, _, n3⟩ := bm.notFull (by simp)
        refine ⟨hstream2, h.valid, h.ret, h.lens, n1, bm.segs, bm.bound, ?_⟩
        rcases n3 with n3 | n3
        · left; exact n3.trans hbad1
        · right; exact n3.1
      | abort => exact absurd rfl bm.noAbort
    · rw [hval]
      cases r with
      | msg p f => exact absurd rfl (hr p f)
      | _ => exact recvInv_of_same h t1.1 t1.2.1 t1.2.2.1 rfl rfl rfl rfl

theorem recvInv_step {e : Ep} (h : RecvInv e) (op : Op) : RecvInv (e.step op) := by
  cases op with
  | send m ans =>
    have := send_recvside e.s e.env m ans
    simp only [Ep.step]
    generalize send e.s e.env m ans = r at this
    obtain ⟨s', env', res, ans'⟩ := r
    exact recvInv_of_same h this.1 this.2.1 this.2.2 rfl rfl rfl rfl
  | receive cap ans => exact recvInv_receive h cap ans
  | finish ans fin =>
    have := finish_recvside e.s e.env ans fin
    simp only [Ep.step]
    generalize finish e.s e.env ans fin = r at this
    obtain ⟨s', env', res, ans'⟩ := r
    exact recvInv_of_same h this.1 this.2.1 this.2.2 rfl rfl rfl rfl
  | arrive seg =>
    simp only [Ep.step]
    split
    · exact h
    · rename_i hne
      refine ⟨?_, h.valid, h.ret, h.lens, h.rbuf, ?_, h.bound, h.badv⟩
      · show e.arrived ++ seg = frames e.fulls ++ e.s.rbuf ++ (e.env.rx ++ [seg]).flatten
        rw [h.stream]; simp
      · intro g hg
        simp only [List.mem_append, List.mem_singleton] at hg
        rcases hg with hg | rfl
        · exact h.segs g hg
        · intro e0; rw [e0] at hne; simp at hne
  | eof => exact recvInv_of_same h rfl rfl rfl rfl rfl rfl rfl
  | rxErr err => exact recvInv_of_same h rfl rfl rfl rfl rfl rfl rfl

theorem recvInv_run (ops : List Op) {e : Ep} (h : RecvInv e) : RecvInv (e.run ops) := by
  induction ops generalizing e with
  | nil => exact h
  | cons op ops ih => exact ih (recvInv_step h op)

/-! ## The delivery theorem -/

def Ep.init : Ep := {}

/-- **C01 (exact delivery)**.  Let the sender `A` and the receiver `B` each perform *any*
sequence of API calls under *any* behaviour of the layer below (short writes, short reads,
EAGAIN, header split at any byte, errors, end of stream at any byte offset), and let the
channel be FIFO (`hfifo`: what has arrived at `B` is a prefix of what `A`'s lower layer
accepted).  Then the complete messages consumed by `B`'s successful receives are a prefix
of the messages for which `A`'s `send` returned success — same order, same bytes, none
partial, merged, duplicated or invented — and the *i*-th successful receive returned the
leading `capacity_i` bytes of the *i*-th of them. -/
theorem C01_exact_delivery (opsA opsB : List Op)
    (hfifo : (Ep.init.run opsB).arrived <+: (Ep.init.run opsA).env.tx) :
    (Ep.init.run opsB).fulls <+: (Ep.init.run opsA).accepted ∧
    (Ep.init.run opsB).returned =
      List.zipWith (fun m c => m.take c) (Ep.init.run opsB).fulls (Ep.init.run opsB).caps ∧
    (Ep.init.run opsB).caps.length = (Ep.init.run opsB).fulls.length := by
  have hA := sendInv_run opsA sendInv_init
  have hB := recvInv_run opsB recvInv_init
  simp only [Ep.init] at hfifo ⊢
  generalize Ep.run {} opsA = A at hA hfifo
  generalize Ep.run {} opsB = B at hB hfifo
  refine ⟨?_, hB.ret, hB.lens⟩
  obtain ⟨extra, hw, hex, hv, _, _⟩ := hA.wire
  obtain ⟨t, ht⟩ := hfifo
  -- one equation between the two frame streams
  have heq : frames B.fulls ++ (B.s.rbuf ++ B.env.rx.flatten ++ t ++ A.s.sbuf.drop A.s.sent)
      = frames (A.accepted ++ extra) := by
    rw [← hw]; simp only [wirePending]; rw [← ht, hB.stream]; simp
  have hpre : B.fulls <+: A.accepted ++ extra :=
    frames_prefix _ _ _ (fun d hd => valid_lt (hB.valid d hd)) (fun a ha => valid_lt (hv a ha)) heq
  rcases hex with rfl | ⟨m, rfl, _, hne⟩
  · simpa using hpre
  · rcases List.prefix_concat_iff.mp hpre with hall | hp
    · -- all of `accepted ++ [m]` consumed: impossible, the last frame never left A completely
      exfalso
      rw [hall] at heq
      have hnil : B.s.rbuf ++ B.env.rx.flatten ++ t ++ A.s.sbuf.drop A.s.sent = [] := by
        have h' : frames (A.accepted ++ [m]) ++ (B.s.rbuf ++ B.env.rx.flatten ++ t ++ A.s.sbuf.drop A.s.sent)
            = frames (A.accepted ++ [m]) ++ [] := by rw [heq]; simp
        exact List.append_cancel_left h'
      have hd : A.s.sbuf.drop A.s.sent = [] := by
        have := congrArg List.length hnil
        simp only [List.length_append, List.length_nil] at this
        exact List.eq_nil_of_length_eq_zero (by omega)
      rcases hA.wf with ⟨h0, _⟩ | hlt
      · exact hne h0
      · have := congrArg List.length hd
        simp at this; omega
    · exact hp

/-- count and order: never more deliveries than accepted sends -/
theorem C01_no_more_than_accepted (opsA opsB : List Op)
    (hfifo : (Ep.init.run opsB).arrived <+: (Ep.init.run opsA).env.tx) :
    (Ep.init.run opsB).returned.length ≤ (Ep.init.run opsA).accepted.length := by
  obtain ⟨h1, h2, h3⟩ := C01_exact_delivery opsA opsB hfifo
  rw [h2, List.length_zipWith, h3, Nat.min_self]
  exact h1.length_le

/-- whole messages only: every returned buffer is the leading part of one complete accepted
message of valid size, and is the whole message whenever the capacity suffices -/
theorem C01_never_partial (opsA opsB : List Op)
    (hfifo : (Ep.init.run opsB).arrived <+: (Ep.init.run opsA).env.tx) (i : Nat)
    (hi : i < (Ep.init.run opsB).returned.length) :
    ∃ m c, (Ep.init.run opsA).accepted[i]? = some m ∧ (Ep.init.run opsB).caps[i]? = some c ∧
      (Ep.init.run opsB).returned[i]? = some (m.take c) ∧ Valid m ∧
      (m.length ≤ c → (Ep.init.run opsB).returned[i]? = some m) := by
  obtain ⟨h1, h2, h3⟩ := C01_exact_delivery opsA opsB hfifo
  have hB := recvInv_run opsB recvInv_init
  have hlen : (Ep.init.run opsB).returned.length = (Ep.init.run opsB).fulls.length := by
    rw [h2, List.length_zipWith, h3, Nat.min_self]
  have hif : i < (Ep.init.run opsB).fulls.length := by omega
  have hic : i < (Ep.init.run opsB).caps.length := by omega
  refine ⟨(Ep.init.run opsB).fulls[i], (Ep.init.run opsB).caps[i], ?_, by simp, ?_, ?_, ?_⟩
  · obtain ⟨t, ht⟩ := h1
    rw [← ht, List.getElem?_append_left hif]; simp
  · rw [h2]; simp [List.getElem?_zipWith, hif, hic]
  · exact hB.valid _ (List.getElem_mem hif)
  · intro hc
    rw [h2]; simp [List.getElem?_zipWith, hif, hic, List.take_of_length_le hc]

/-- non-vacuity: a 3-byte message whose frame leaves in pieces of 1+5+1 bytes with EAGAIN in
between, arrives cut inside the header, and is delivered whole -/
example :
    let A := Ep.init.run [.send [7, 8, 9] [.ok 1], .finish [.ok 5] none, .finish [.ok 9] none]
    let B := Ep.init.run [.arrive [0, 0], .receive 10 [], .arrive [0, 3, 7], .receive 10 [],
                          .arrive [8, 9], .receive 10 []]
    A.accepted = [[7, 8, 9]] ∧ A.env.tx = [0, 0, 0, 3, 7, 8, 9] ∧ B.arrived = A.env.tx ∧
      B.returned = [[7, 8, 9]] ∧ B.results = [.err EAGAIN, .err EAGAIN, .msg [7, 8, 9] [7, 8, 9]] := by
  decide


/-! ## ux / uxf (xcm_tp_ux.c) over the kernel's record-preserving SEQPACKET socket -/

/-- **C01 for ux/uxf.**  For every interleaving of sends (accepted, refused by the size checks or
refused by the kernel with any errno), receives (with any capacity, EAGAIN or errors at will) and
finishes: the payloads returned by successful receives are, in order, the leading `capacity` bytes of
the messages whose send returned success, no more of them than were accepted, and what is not yet
delivered is exactly what the kernel still queues (nothing lost, merged, duplicated or reordered).
Relative to K-seqpacket (DESIGN §3.1): the kernel's queue is the FIFO `chan`. -/
theorem C01_ux_exact_delivery (steps : List Ux.Step) :
    let L := (({} : Ux.Link).run steps)
    L.returned = List.zipWith (fun m c => m.take c) (L.accepted.take L.returned.length) L.caps
    ∧ L.returned.length ≤ L.accepted.length
    ∧ L.accepted = L.accepted.take L.returned.length ++ L.chan := by
  intro L
  have h : Ux.Inv L := Ux.inv_run steps _ Ux.inv_init
  have hl : L.returned.length = L.fulls.length := by
    rw [h.ret]; simp [h.len]
  have ht : L.accepted.take L.returned.length = L.fulls := by
    rw [hl, h.acc]; simp
  refine ⟨?_, ?_, ?_⟩
  · rw [ht]; exact h.ret
  · rw [hl, h.acc]; simp
  · rw [ht]; exact h.acc

/-- non-vacuity: a truncated and a whole delivery with a refused send in between -/
example :
    let L := (({} : Ux.Link).run [.send [1,2,3] none, .send [9] (some 11), .recv 2 none, .send [4,5] none,
                                   .recv 10 (some 11), .recv 10 none])
    L.returned = [[1,2], [4,5]] ∧ L.accepted = [[1,2,3], [4,5]] ∧ L.chan = [] := by decide

end XcmModel.C01
