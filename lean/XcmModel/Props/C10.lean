import XcmModel.AttrAccess
import XcmModel.Props.C19
/-
  C10 - attribute reads and writes are memory-safe and type-checked.

  The theorems quantify over EVERY capacity, every value size, every lookup result and every row
  of the attribute table that the extractor regenerates from /repo on each run
  (`Generated.attrTable`: one row per `attr_tree_add_value_node` site after macro expansion, with
  the getter classified by the bounded-copy idiom of its body).

  Trusted base / assumptions: the classification of getter bodies (extract/ext_attrs.py) and the
  hand-written model of attr_tree.c/attr_node.c/xcm.c are tied to the code by the exhaustive
  capacity sweep of `sys_attr` on live sockets; C-level memory safety of `memcpy` itself is not
  modelled (ASan in the harness).  Axioms: see the evidence file.
-/
namespace XcmModel.C10
open XcmModel XcmModel.AttrAccess XcmModel.Generated

/-- every row of the attribute table extracted from the current source uses a bounded getter idiom
that is consistent with its declared type (a finite table: decided by evaluation of the whole table) -/
theorem C10_table_safe : ∀ r ∈ attrTable, SafeRow r.type r.kind = true := by decide

/-- what C10 demands of one get: at most `cap` bytes written, and success reports them exactly -/
def Good (cap : Nat) (o : GetOut) : Prop :=
  o.written ≤ cap ∧ ∀ n, o.res = .ok n → o.written = n

theorem good_err (cap e : Nat) : Good cap ⟨.error e, 0⟩ := by simp [Good]

/-- the getter of a safe row, behind `attr_node_value_get`, meets `Good` for every value size and capacity -/
theorem nodeGet_good (t : AType) (k : GKind) (hs : SafeRow t k = true) (size cap : Nat) :
    Good cap (nodeGet t k size cap) := by
  unfold nodeGet Good
  cases k <;> cases t <;> simp only [SafeRow, fixedSize, runGetter] at hs ⊢ <;> (repeat' split) <;>
    (try simp_all) <;> (try omega)

theorem treeGet_good (l : Lookup) (cap : Nat)
    (hl : ∀ t k w c, l = .value t k w c → SafeRow t k = true) : Good cap (treeGet l cap).1 := by
  cases l with
  | badSyntax => exact good_err _ _
  | notFound => exact good_err _ _
  | notValue => exact good_err _ _
  | value t k w c =>
    have hs := hl t k w c rfl
    cases c with
    | error e =>
      simp only [treeGet]
      cases h : fixedSize t with
      | none => exact good_err _ _
      | some n => simp only []; split <;> exact good_err _ _
    | ok size => simpa [treeGet] using nodeGet_good t k hs size cap

/-- **xcm_attr_get never writes more than `capacity` bytes**, for every lookup outcome, every row
that satisfies the table theorem, every current value and every capacity. -/
theorem C10_get_within_capacity (l : Lookup) (cap : Nat)
    (hl : ∀ t k w c, l = .value t k w c → SafeRow t k = true) :
    (treeGet l cap).1.written ≤ cap := (treeGet_good l cap hl).1

/-- success reports exactly the bytes written -/
theorem C10_rc_is_written (l : Lookup) (cap n : Nat)
    (hl : ∀ t k w c, l = .value t k w c → SafeRow t k = true)
    (h : (treeGet l cap).1.res = .ok n) : (treeGet l cap).1.written = n := (treeGet_good l cap hl).2 n h

/-- the typed and formatted getters (`attr_get_with_type`: xcm_attr_get_bool/int64/double and every
xcm_attr_getf_*; xcm_attr_get_str/bin) write exactly what xcm_attr_get writes - never more than their
fixed or given capacity - and on success return that count -/
theorem C10_typed_within_capacity (l : Lookup) (req : AType) (cap : Nat)
    (hl : ∀ t k w c, l = .value t k w c → SafeRow t k = true) :
    Good cap (getWithType l req cap) ∧ Good cap (getStrBin l req cap) := by
  have h := treeGet_good l cap hl
  unfold Good at *
  constructor
  · unfold getWithType
    cases hr : (treeGet l cap).1.res with
    | error e => simp [hr, h.1]
    | ok n =>
      simp only [hr]
      split
      · exact ⟨h.1, fun m hm => by cases hm; exact h.2 n hr⟩
      · simp [h.1]
  · unfold getStrBin
    cases hr : (treeGet l cap).1.res with
    | error e => simp [hr, h.1]
    | ok n =>
      simp only [hr]
      split
      · exact ⟨h.1, fun m hm => by cases hm; exact h.2 n hr⟩
      · simp [h.1]

/-- size of the value as `xcm_attr_get` reports it: fixed-size types always have their `sizeof` -/
def WellSized (t : AType) (k : GKind) (size : Nat) : Prop :=
  (∀ n, fixedSize t = some n → size = n) ∧ (∀ n, k = .fixedChecked n ∨ k = .fixedUnchecked n → size = n)

/-- **a value that does not fit yields EOVERFLOW** (and writes nothing); through a typed getter of
any type this surfaces as ENOENT -/
theorem C10_overflow_reported (t : AType) (k : GKind) (w : Bool) (size cap : Nat) (req : AType)
    (hs : SafeRow t k = true) (hw : WellSized t k size) (hk : k ≠ .none) (h : size > cap) :
    (treeGet (.value t k w (.ok size)) cap).1 = ⟨.error EOVERFLOW, 0⟩
    ∧ (getWithType (.value t k w (.ok size)) req cap) = ⟨.error ENOENT, 0⟩ := by
  have h1 : nodeGet t k size cap = ⟨.error EOVERFLOW, 0⟩ := by
    obtain ⟨hw1, hw2⟩ := hw
    unfold nodeGet
    cases k <;> cases t <;> simp only [SafeRow, fixedSize, runGetter] at hs hw1 hw2 ⊢ <;> (repeat' split) <;>
      (try simp_all) <;> (try omega)
  refine ⟨by simp [treeGet, h1], ?_⟩
  simp [getWithType, treeGet, h1, EOVERFLOW, ENOENT]

/-- a value that fits is returned whole -/
theorem C10_fits_returned (t : AType) (k : GKind) (w : Bool) (size cap : Nat)
    (hs : SafeRow t k = true) (hw : WellSized t k size) (hk : k ≠ .none) (h : size ≤ cap) :
    (treeGet (.value t k w (.ok size)) cap).1 = ⟨.ok size, size⟩ := by
  obtain ⟨hw1, hw2⟩ := hw
  simp only [treeGet, nodeGet]
  cases k <;> cases t <;> simp only [SafeRow, fixedSize, runGetter] at hs hw1 hw2 ⊢ <;> (repeat' split) <;>
    (try simp_all) <;> (try omega)

/-- **xcm_attr_set rejects without invoking the setter** (hence without side effects): unknown
names ENOENT, container nodes and read-only attributes EACCES, wrong type or length EINVAL -/
theorem C10_set_rejects_without_effect (l : Lookup) (t : AType) (len : Nat) :
    (l = .notFound → validSetLen t len = true → treeSet l t len = .rejected ENOENT)
    ∧ (∀ vt k c, l = .value vt k false c → validSetLen t len = true → treeSet l t len = .rejected EACCES)
    ∧ (∀ vt k c, l = .value vt k true c → vt ≠ t → ∃ e, treeSet l t len = .rejected e ∧ e = EINVAL)
    ∧ (validSetLen t len = false → treeSet l t len = .rejected EINVAL)
    ∧ (treeSet l t len = .invoke → ∃ k c, l = .value t k true c ∧ validSetLen t len = true) := by
  refine ⟨?_, ?_, ?_, ?_, ?_⟩
  · intro h hv; simp [treeSet, h, hv]
  · intro vt k c h hv; simp [treeSet, h, hv]
  · intro vt k c h hne
    by_cases hv : validSetLen t len = true
    · exact ⟨EINVAL, by simp [treeSet, h, hv, hne], rfl⟩
    · exact ⟨EINVAL, by simp [treeSet, hv], rfl⟩
  · intro hv; simp [treeSet, hv]
  · intro h
    unfold treeSet at h
    by_cases hv : validSetLen t len = true
    · simp only [hv] at h
      cases l with
      | badSyntax => simp at h
      | notFound => simp at h
      | notValue => simp at h
      | value vt k w c =>
        simp at h
        cases w with
        | false => simp at h
        | true =>
          simp at h
          exact ⟨k, c, by rw [h], hv⟩
    · simp [hv] at h

/-- no attribute name, however long or malformed, reaches an out-of-bounds access in the path
parser: `attr_path_parse` is total (C19_path_rejects: over-long or syntactically invalid names give
`none`, i.e. EINVAL, and parsed paths have at most ATTR_PATH_COMP_MAX components). -/
theorem C10_names_total (s : Bytes) :
    (∀ p, AttrPath.parse s true = some p → p.length ≤ Generated.ATTR_PATH_COMP_MAX)
    ∧ (s.length > Generated.ATTR_PATH_NAME_MAX → AttrPath.parse s true = none) :=
  ⟨fun p h => C19.C19_path_comp_bound s true p h, fun h => C19.C19_path_rejects_long s true h⟩

/-- non-vacuity: a bool attribute read into buffers of size 0 and 1; an 11-byte string -/
example : (treeGet (.value .bool (.fixedUnchecked 1) true (.ok 1)) 0).1 = ⟨.error EOVERFLOW, 0⟩
    ∧ (treeGet (.value .bool (.fixedUnchecked 1) true (.ok 1)) 1).1 = ⟨.ok 1, 1⟩
    ∧ (treeGet (.value .str .strChecked false (.ok 11)) 10).1 = ⟨.error EOVERFLOW, 0⟩
    ∧ (getWithType (.value .int64 (.fixedUnchecked 8) true (.ok 8)) .bool 1) = ⟨.error ENOENT, 0⟩ := by decide

end XcmModel.C10
