import XcmModel.Generated.Funcs
import XcmModel.Ux
import XcmModel.Wire
import XcmModel.AttrAccess
import XcmModel.TcpOpts
import XcmModel.Xpoll
import XcmModel.AttrPath
/-!
  The translated functions (extract/ext_funcs.py: clang's AST of /repo's working tree, regenerated on every run) are
  equal to the hand-written model functions, for **all** arguments.  For these functions the tie between model and
  code is a theorem re-checked against what the source says now; a change of the C function changes
  `Generated/Funcs.lean` and the corresponding theorem below stops checking.
-/
namespace XcmModel.FuncsTie
open XcmModel XcmModel.Generated

/-- `conn_event` of xcm_tp_ux.c is the model's `Ux.connEvent` -/
theorem conn_event_tie (c : Nat) : Funcs.conn_event c = Ux.connEvent c := by
  unfold Funcs.conn_event Ux.connEvent
  simp only [Generated.XCM_SO_RECEIVABLE, Generated.XCM_SO_SENDABLE, Ux.EPOLLIN, Ux.EPOLLOUT, decide_eq_true_eq]
  by_cases h1 : c &&& 1 <<< 0 ≠ 0 <;> by_cases h2 : c &&& 1 <<< 1 ≠ 0 <;> simp_all <;> decide

/-- `server_event` of xcm_tp_ux.c is the model's `Ux.serverEvent` -/
theorem server_event_tie (c : Nat) : Funcs.server_event c = Ux.serverEvent c := by
  unfold Funcs.server_event Ux.serverEvent
  simp [Generated.XCM_SO_ACCEPTABLE, Ux.EPOLLIN] <;> rfl

/-- `mbuf_is_hdr_valid` of mbuf.h, on a complete header, is the model's `Wire.hdrValid` of the length field -/
theorem mbuf_is_hdr_valid_tie (len : Nat) : Funcs.mbuf_is_hdr_valid true len = Wire.hdrValid len := by
  unfold Funcs.mbuf_is_hdr_valid Wire.hdrValid
  simp [Generated.MBUF_MSG_MAX] <;> rfl

/-- without a complete header nothing is valid -/
theorem mbuf_is_hdr_valid_incomplete (len : Nat) : Funcs.mbuf_is_hdr_valid false len = false := by
  simp [Funcs.mbuf_is_hdr_valid]

/-- the value type a numeric `enum xcm_attr_type` code denotes (codes as the compiler sees them) -/
def typeOfCode (c : Nat) : AType :=
  match (Funcs.xcm_attr_type_code.find? (fun p => p.1 == c)).map (·.2) with
  | some "bool" => .bool | some "int64" => .int64 | some "double" => .double
  | some "str" => .str | some "bin" => .bin | _ => .unknown

/-- `valid_set_attr_len` of attr_tree.c is the model's `AttrAccess.validSetLen`, for every type code (valid or not)
and every length -/
theorem valid_set_attr_len_tie (t len : Nat) :
    Funcs.valid_set_attr_len t len = AttrAccess.validSetLen (typeOfCode t) len := by
  unfold Funcs.valid_set_attr_len
  by_cases h1 : t = 1
  · subst h1; simp [typeOfCode, Funcs.xcm_attr_type_code, AttrAccess.validSetLen, beq_iff_eq, decide_eq_decide] <;> (first | rfl | (simp only [BEq.beq]; done) | (by_cases hl : len = 8 <;> simp [hl]) | (by_cases hl : len = 1 <;> simp [hl]))
  by_cases h2 : t = 2
  · subst h2; simp [typeOfCode, Funcs.xcm_attr_type_code, AttrAccess.validSetLen, beq_iff_eq, decide_eq_decide] <;> (first | rfl | (simp only [BEq.beq]; done) | (by_cases hl : len = 8 <;> simp [hl]) | (by_cases hl : len = 1 <;> simp [hl]))
  by_cases h3 : t = 3
  · subst h3; simp [typeOfCode, Funcs.xcm_attr_type_code, AttrAccess.validSetLen, beq_iff_eq, decide_eq_decide] <;> (first | rfl | (simp only [BEq.beq]; done) | (by_cases hl : len = 8 <;> simp [hl]) | (by_cases hl : len = 1 <;> simp [hl]))
  by_cases h4 : t = 4
  · subst h4; simp [typeOfCode, Funcs.xcm_attr_type_code, AttrAccess.validSetLen, beq_iff_eq, decide_eq_decide] <;> (first | rfl | (simp only [BEq.beq]; done) | (by_cases hl : len = 8 <;> simp [hl]) | (by_cases hl : len = 1 <;> simp [hl]))
  by_cases h5 : t = 5
  · subst h5; simp [typeOfCode, Funcs.xcm_attr_type_code, AttrAccess.validSetLen, beq_iff_eq, decide_eq_decide] <;> (first | rfl | (simp only [BEq.beq]; done) | (by_cases hl : len = 8 <;> simp [hl]) | (by_cases hl : len = 1 <;> simp [hl]))
  · have : typeOfCode t = .unknown := by
      have e1 : (1 == t) = false := by simp; omega
      have e2 : (2 == t) = false := by simp; omega
      have e3 : (3 == t) = false := by simp; omega
      have e4 : (4 == t) = false := by simp; omega
      have e5 : (5 == t) = false := by simp; omega
      simp [typeOfCode, Funcs.xcm_attr_type_code, List.find?, e1, e2, e3, e4, e5]
    simp [h1, h2, h3, h4, h5, this, AttrAccess.validSetLen]

/-- `tcp_opts_equal` of tcp_attr.c, applied to the fields of two option sets (values are non-negative: validated by the
setters), is the model's `TcpOpts.optsEqual` - and therefore equality (`C11.optsEqual_iff`) -/
theorem tcp_opts_equal_tie (a b : TcpOpts.Opts)
    (ha : 0 ≤ a.time ∧ 0 ≤ a.interval ∧ 0 ≤ a.count ∧ 0 ≤ a.userTimeout)
    (hb : 0 ≤ b.time ∧ 0 ≤ b.interval ∧ 0 ≤ b.count ∧ 0 ≤ b.userTimeout) :
    Funcs.tcp_opts_equal a.keepalive b.keepalive a.time.toNat b.time.toNat a.interval.toNat b.interval.toNat
      a.count.toNat b.count.toNat a.userTimeout.toNat b.userTimeout.toNat = TcpOpts.optsEqual a b := by
  unfold Funcs.tcp_opts_equal TcpOpts.optsEqual
  have e : ∀ x y : Int, 0 ≤ x → 0 ≤ y → (decide (x.toNat = y.toNat)) = (x == y) := by
    intro x y hx hy
    by_cases h : x = y
    · subst h; simp
    · have : x.toNat ≠ y.toNat := by omega
      simp [h, this]
  rw [e _ _ ha.1 hb.1, e _ _ ha.2.1 hb.2.1, e _ _ ha.2.2.1 hb.2.2.1, e _ _ ha.2.2.2 hb.2.2.2]

/-- `next_capacity` of xpoll.c (growth of the registration tables) is the model's `Xpoll.nextCapacity` -/
theorem next_capacity_tie (c : Nat) : Funcs.next_capacity c = Xpoll.nextCapacity c := rfl

/-- `is_special` / `is_key_char` of attr_path.c are the model's `AttrPath.isSpecial` / `isKeyChar` on every byte
(the whole table of 256 bytes is evaluated by the kernel) -/
theorem is_special_tie : ∀ n < 256, Funcs.is_special n = AttrPath.isSpecial (UInt8.ofNat n) := by
  decide +kernel

theorem is_key_char_tie : ∀ n < 256,
    Funcs.is_key_char n (Funcs.is_special n) = AttrPath.isKeyChar (UInt8.ofNat n) := by
  decide +kernel

end XcmModel.FuncsTie
