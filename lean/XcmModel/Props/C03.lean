import XcmModel.Props.C17
import XcmModel.Lemmas.Api
import XcmModel.Lemmas.Btls
/-!
# C03 — a failed send leaves no trace; a successful send is delivered exactly once
(framing layer: tcp, tls.  The blocking wrapper of `xcm.c` is not modelled here; see MANIFEST.)
-/
namespace XcmModel.C03
open XcmModel XcmModel.Wire XcmModel.Framing XcmModel.C01

/-- **size checks come first**: a zero-length or over-long message is refused with EINVAL /
EMSGSIZE in *every* state (bad or not, with or without a pending frame) and nothing
whatsoever changes — counters, buffers, lower layer -/
theorem C03_size_checks_first (s : St) (env : Env) (m : Bytes) (ans : List SAns) :
    (m.length > Generated.MBUF_MSG_MAX → send s env m ans = (s, env, .err EMSGSIZE, ans)) ∧
    (m.length = 0 → send s env m ans = (s, env, .err EINVAL, ans)) := by
  constructor
  · intro h; simp [send, h]
  · intro h
    have : ¬ m.length > Generated.MBUF_MSG_MAX := by omega
    simp [send, this, h]

/-- **EAGAIN leaves no trace**: when `send` fails with EAGAIN the resulting state is exactly
the state a `finish` call (with the same lower-layer answers) would have produced — it does
not depend on the message at all; the message was never copied anywhere -/
theorem C03_eagain_is_finish (s : St) (env : Env) (m m' : Bytes) (ans : List SAns)
    (hr : (send s env m ans).2.2.1 = .err EAGAIN) (hb : s.bad = none)
    (hm : 1 ≤ m.length ∧ m.length ≤ Generated.MBUF_MSG_MAX)
    (hm' : 1 ≤ m'.length ∧ m'.length ≤ Generated.MBUF_MSG_MAX) :
    (send s env m ans).1 = (finish s env ans none).1 ∧
    (send s env m ans).2.1 = (finish s env ans none).2.1 ∧
    ((send s env m' ans).2.2.1 = .err EAGAIN ∧ (send s env m' ans).1 = (send s env m ans).1) := by
  have h1 : ¬ m.length > Generated.MBUF_MSG_MAX := by omega
  have h2 : ¬ m.length = 0 := by omega
  have h1' : ¬ m'.length > Generated.MBUF_MSG_MAX := by omega
  have h2' : ¬ m'.length = 0 := by omega
  generalize hr1 : tryFinishSendAux ans s env = r1
  obtain ⟨s1, env1, res1, ans1⟩ := r1
  cases res1 with
  | some e1 =>
    have hval : send s env m ans = (s1, env1, .err e1, ans1) := by
      simp [send, h1, h2, hb, tryFinishSend, hr1]
    have hval' : send s env m' ans = (s1, env1, .err e1, ans1) := by
      simp [send, h1', h2', hb, tryFinishSend, hr1]
    have hfin : finish s env ans none = (s1, env1, .err e1, ans1) := by
      simp [finish, hb, tryFinishSend, hr1]
    rw [hval] at hr
    simp only [Res.err.injEq] at hr
    rw [hval, hval', hfin, hr]
    exact ⟨rfl, rfl, rfl, rfl⟩
  | none =>
    exfalso
    revert hr
    simp only [send, h1, h2, hb, tryFinishSend, hr1, if_false]
    split
    · intro h; cases h
    · split
      · intro h; cases h
      · rename_i hne
        intro h
        simp only [Res.err.injEq] at h
        exact hne h

/-- **a bad connection refuses without effect** -/
theorem C03_bad_refuses (s : St) (env : Env) (m : Bytes) (ans : List SAns) (e : Nat) (hb : s.bad = some e) :
    (send s env m ans).1 = s ∧ (send s env m ans).2.1 = env := by
  simp only [send]
  split; · exact ⟨rfl, rfl⟩
  split; · exact ⟨rfl, rfl⟩
  simp [hb]

/-- **never delivered after failure, never duplicated**: for any histories of the two ends
(FIFO channel) the receiver's complete messages are, position by position, the messages of
the sender's *successful* sends — `Ep.accepted` is extended only when `send` returns 0
(`accepted_only_ok`) — so a message whose send returned -1 is never delivered, and an accepted
message occupies exactly one position (it cannot be delivered twice). -/
theorem C03_only_accepted_delivered_once (opsA opsB : List Op)
    (hfifo : (Ep.init.run opsB).arrived <+: (Ep.init.run opsA).env.tx) (i : Nat)
    (m : Bytes) (hi : (Ep.init.run opsB).fulls[i]? = some m) :
    (Ep.init.run opsA).accepted[i]? = some m := by
  obtain ⟨⟨t, ht⟩, _, _⟩ := C01_exact_delivery opsA opsB hfifo
  rw [← ht]
  have hlt : i < (Ep.init.run opsB).fulls.length := by
    rcases Nat.lt_or_ge i (Ep.init.run opsB).fulls.length with h | h
    · exact h
    · rw [List.getElem?_eq_none h] at hi; cases hi
  rw [List.getElem?_append_left hlt]; exact hi

/-- the ghost list `accepted` grows by `m` exactly when `send m` returns success -/
theorem accepted_only_ok (e : Ep) (m : Bytes) (ans : List SAns) :
    (e.step (.send m ans)).accepted =
      if (send e.s e.env m ans).2.2.1 = .ok then e.accepted ++ [m] else e.accepted := by
  simp only [Ep.step]

/-- non-vacuity / witness for the "buffered, then connection failure" corner: the second
send returns -1 (ECONNRESET) after its frame was partly written; it is not in `accepted` and,
the lower layer being dead, its frame is never completed on the wire -/
example :
    let A := Ep.init.run [.send [1] [.ok 9], .send [2, 3] [.ok 3, .err Generated.ECONNRESET],
      .finish [.ok 9] none, .send [4] [.ok 9]]
    A.accepted = [[1]] ∧ A.env.tx = [0, 0, 0, 1, 1, 0, 0, 0] ∧
    A.results = [.ok, .err Generated.ECONNRESET, .err Generated.ECONNRESET, .err Generated.ECONNRESET] := by
  decide


/-- **ux/uxf.** A failing `ux_send` - EMSGSIZE, EINVAL for an empty message, EAGAIN, EINTR or any other
kernel errno - leaves counters and state exactly as they were and hands nothing to the kernel, so it is
never delivered (with `C01_ux_exact_delivery`: only accepted messages are ever queued). -/
theorem C03_ux_failed_send_no_trace (s : Ux.St) (m : Bytes) (k : Ux.KSend) (e : Nat)
    (h : (Ux.send s m k).2.1 = .err e) : (Ux.send s m k).1 = s ∧ (Ux.send s m k).2.2 = none :=
  C17.C17_ux_refused_counts_nothing s m k e h

/-- ux/uxf: the size checks precede the kernel call in every state -/
theorem C03_ux_size_checks_first (s : Ux.St) (m : Bytes) (k : Ux.KSend)
    (h : m.length = 0 ∨ m.length > Generated.UX_MAX_MSG) :
    ∃ e, (Ux.send s m k) = (s, .err e, none) ∧ (e = Framing.EINVAL ∨ e = Framing.EMSGSIZE) := by
  unfold Ux.send
  by_cases h1 : m.length > Generated.UX_MAX_MSG
  · exact ⟨_, by simp [h1], Or.inr rfl⟩
  · have h2 : m.length = 0 := by omega
    exact ⟨_, by simp [h1, h2], Or.inl rfl⟩


/-! ## blocking mode: `msg_bsend` + `socket_finish` of xcm.c -/

/-- **a signal never turns an accepted message into a failed send.** For a blocking messaging socket
and every behaviour of the transport and of poll: if xcm_send fails, then either the transport
accepted nothing during the call (so nothing can be delivered), or the errno is not EINTR (the
connection itself failed while flushing). Before fix 7b94f74 (F-03a) `[ok, EAGAIN, EINTR]` gave
-1/EINTR with the message accepted. -/
theorem C03_blocking_send_no_false_failure (len : Nat) (script : List Api.Ans) (e : Nat)
    (h : (Api.send { blocking := true, bytestream := false } len script).1 = .err e) :
    Api.accSends (Api.send { blocking := true, bytestream := false } len script).2 = 0 ∨ e ≠ Api.EINTR := by
  have hs : Api.send { blocking := true, bytestream := false } len script
      = Api.finishAfter (Api.msgBsend (Api.fuelOf script) len script []) := by simp [Api.send]
  rw [hs] at h ⊢
  have hb := Api.msgBsend_acc (Api.fuelOf script) len script []
  have hf := Api.finishAfter_spec (Api.msgBsend (Api.fuelOf script) len script [])
  rcases hf.2.2.2 e h with h1 | ⟨_, h2⟩
  · left; rw [hf.2.1]; simpa [Api.accSends] using hb.2 e h1
  · right; exact h2

/-- and a successful blocking send was accepted by the transport exactly once -/
theorem C03_blocking_send_accepted_once (len : Nat) (script : List Api.Ans) (n : Nat)
    (h : (Api.send { blocking := true, bytestream := false } len script).1 = .rc n) :
    Api.accSends (Api.send { blocking := true, bytestream := false } len script).2 = 1 := by
  have hs : Api.send { blocking := true, bytestream := false } len script
      = Api.finishAfter (Api.msgBsend (Api.fuelOf script) len script []) := by simp [Api.send]
  rw [hs] at h ⊢
  have hb := Api.msgBsend_acc (Api.fuelOf script) len script []
  have hf := Api.finishAfter_spec (Api.msgBsend (Api.fuelOf script) len script [])
  rw [hf.2.1]
  simpa [Api.accSends] using hb.1 n (hf.2.2.1 n h)

end XcmModel.C03

/-! ## the TLS byte stream below the tls messaging transport: "finished" means handed to OpenSSL -/
namespace XcmModel.C03btls
open XcmModel XcmModel.Btls

/-- `btls_finish` reports success only when no output is retained any more: a message whose last bytes the TLS layer
took over (SSL_write could not complete) is not reported as sent - by xcm_finish, and hence by a blocking xcm_send -
before those bytes have been handed to OpenSSL.  (EAGAIN from the flush is passed on, never swallowed.) -/
theorem C03_btls_finish_success_means_flushed (s : St) (h : HAns) (ws : List WAns) (l : Option Nat) (k : Nat) (p : Bytes)
    (hr : (finish s h ws l).2.1 = .n k p) : (finish s h ws l).1.pend = [] ∧ l = none := by
  revert hr
  unfold finish
  generalize tryFinishHandshake s h = s1
  simp only
  split
  · intro hr; cases hr
  · have fc := flush_core (s1.pend.length + 1) s1 ws
    cases hf : flushPending (s1.pend.length + 1) s1 ws with
    | mk sf rest3 =>
      obtain ⟨fr, rest, nf⟩ := rest3
      rw [hf] at fc
      simp only at fc ⊢
      cases fr with
      | some r =>
        intro hr
        have he := flush_res_err (s1.pend.length + 1) s1 ws r (by rw [hf])
        obtain ⟨e0, he0⟩ := he
        subst he0
        cases hr
      | none =>
        intro hr
        refine ⟨(fc.2 rfl (Nat.lt_succ_self _)).1, ?_⟩
        cases l with
        | none => rfl
        | some e => cases hr
  · intro hr; cases hr
  · intro hr; cases hr

/-- ... and while output is retained and the flush cannot complete, finish says EAGAIN (or the terminal errno), not 0 -/
theorem C03_btls_retained_means_not_finished (s : St) (e : SslEv) (hs : s.state = .ready) (hp : s.pend ≠ [])
    (he : e = .wantRead ∨ e = .wantWrite) (l : Option Nat) :
    (finish s (.done .ok) [.ev e] l).2.1 = .err EAGAIN := by
  have ht : tryFinishHandshake s (.done .ok) = s := by unfold tryFinishHandshake; simp [hs]
  have hne : s.pend.isEmpty = false := by cases hq : s.pend with | nil => exact absurd hq hp | cons a t => rfl
  unfold finish
  rw [ht]
  rcases he with he | he <;> subst he <;> simp [hs, flushPending, hne, nextW, processSslEvent]

end XcmModel.C03btls

