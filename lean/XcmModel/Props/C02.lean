import XcmModel.Lemmas.Btls
import XcmModel.Btcp
import XcmModel.Lemmas.Api
/-!
# C02 — byte-stream transports deliver exactly the accepted bytes, in order  (btcp)

Model: `XcmModel.Btcp`.  The kernel is the environment: its answer to each `send()` /
`recv()` is an input, so every statement holds for all short-write / short-read / EAGAIN /
error patterns.  K-stream (DESIGN §3.1) is the *only* assumption linking the two ends:
`B.rxd <+: A.tx` (what the receiver's kernel handed out is a prefix of what the sender's
kernel accepted), with equality once the sender has closed gracefully and the receiver has
read up to end-of-stream.

btls is **not** covered here: for it the last clause of the property ("whatever the
application offers in its next call") is expected to be false (OpenSSL's pending-record
retry rule; DESIGN §6 F-02a) — see MANIFEST/known findings.
-/
namespace XcmModel.C02
open XcmModel XcmModel.Btcp

inductive Op where
  | send (buf : Bytes) (est : List EstAns) (k : KSend)
  | receive (cap : Nat) (est : List EstAns) (k : KRecv)
  | finish (est : List EstAns)
  deriving Repr

/-- a connection with its ghost history -/
structure Conn where
  s : St
  /-- concatenation of the ranges `buf[0..rc)` of the sends that returned `rc ≥ 0` -/
  accepted : Bytes := []
  /-- concatenation of what the receives returned -/
  returned : Bytes := []
  results : List Res := []

def Conn.step (c : Conn) : Op → Conn
  | .send buf est k =>
    let (s', r) := send c.s buf est k
    match r with
    | .n n _ => { c with s := s', results := c.results ++ [r], accepted := c.accepted ++ buf.take n }
    | .err _ => { c with s := s', results := c.results ++ [r] }
  | .receive cap est k =>
    let (s', r) := receive c.s cap est k
    match r with
    | .n _ p => { c with s := s', results := c.results ++ [r], returned := c.returned ++ p }
    | .err _ => { c with s := s', results := c.results ++ [r] }
  | .finish est =>
    let (s', r) := finish c.s est
    { c with s := s', results := c.results ++ [r] }

def Conn.run (c : Conn) (ops : List Op) : Conn := ops.foldl Conn.step c

def Conn.init (st : CState) : Conn := { s := { state := st } }

/-- **return-value range**: for `len > 0`, `xcm_send` returns a value in `1..len` or -1 -/
theorem C02_rc_range (s : St) (buf : Bytes) (est : List EstAns) (k : KSend) (hl : 0 < buf.length)
    (n : Nat) (p : Bytes) (h : (send s buf est k).2 = .n n p) : 1 ≤ n ∧ n ≤ buf.length := by
  simp only [send] at h
  generalize (tryEstablish s.state est).1 = st at h
  cases st with
  | ready =>
    cases k with
    | ok kk =>
      simp only [Res.n.injEq] at h
      have hne : ¬ buf.length = 0 := by omega
      simp only [hne, if_false] at h
      obtain ⟨rfl, _⟩ := h
      have := Nat.min_le_right kk buf.length
      omega
    | err e =>
      simp only at h
      split at h
      · cases h
      · split at h <;> cases h
  | _ => cases h

/-- **capacity**: `xcm_receive` never returns more than `capacity`, and returns exactly the
bytes it reports -/
theorem C02_capacity (s : St) (cap : Nat) (est : List EstAns) (k : KRecv) (n : Nat) (p : Bytes)
    (h : (receive s cap est k).2 = .n n p) : n ≤ cap ∧ p.length = n := by
  simp only [receive] at h
  generalize (tryEstablish s.state est).1 = st at h
  cases st with
  | ready =>
    cases k with
    | data bs =>
      simp only at h
      split at h
      · simp only [Res.n.injEq] at h; obtain ⟨rfl, rfl⟩ := h; simp
      · simp only [Res.n.injEq] at h; obtain ⟨rfl, rfl⟩ := h
        simp only [List.length_take]; exact ⟨Nat.min_le_left _ _, trivial⟩
    | eof => simp only [Res.n.injEq] at h; obtain ⟨rfl, rfl⟩ := h; simp
    | err e =>
      simp only at h
      split at h <;> cases h
  | closed => simp only [Res.n.injEq] at h; obtain ⟨rfl, rfl⟩ := h; simp
  | _ => cases h

/-- the wire invariant: what was handed to the kernel is exactly the concatenation of the
accepted ranges; what was obtained from the kernel is exactly what was returned -/
structure Inv (c : Conn) : Prop where
  tx : c.s.tx = c.accepted
  rx : c.s.rxd = c.returned

theorem send_tx (s : St) (buf : Bytes) (est : List EstAns) (k : KSend) :
    (send s buf est k).1.rxd = s.rxd ∧
    match (send s buf est k).2 with
    | .n n _ => (send s buf est k).1.tx = s.tx ++ buf.take n
    | .err _ => (send s buf est k).1.tx = s.tx := by
  simp only [send]
  split <;> try exact ⟨rfl, rfl⟩
  split
  · exact ⟨rfl, rfl⟩
  · split
    · exact ⟨rfl, rfl⟩
    · split <;> exact ⟨rfl, rfl⟩

theorem receive_rx (s : St) (cap : Nat) (est : List EstAns) (k : KRecv) :
    (receive s cap est k).1.tx = s.tx ∧
    match (receive s cap est k).2 with
    | .n _ p => (receive s cap est k).1.rxd = s.rxd ++ p
    | .err _ => (receive s cap est k).1.rxd = s.rxd := by
  simp only [receive]
  split <;> try exact ⟨rfl, by simp⟩
  split
  · split
    · exact ⟨rfl, by simp⟩
    · exact ⟨rfl, rfl⟩
  · exact ⟨rfl, by simp⟩
  · split <;> exact ⟨rfl, rfl⟩

theorem finish_same (s : St) (est : List EstAns) :
    (finish s est).1.tx = s.tx ∧ (finish s est).1.rxd = s.rxd := by
  simp only [finish]
  split <;> exact ⟨rfl, rfl⟩

theorem inv_step {c : Conn} (h : Inv c) (op : Op) : Inv (c.step op) := by
  cases op with
  | send buf est k =>
    have hs := send_tx c.s buf est k
    simp only [Conn.step]
    generalize send c.s buf est k = r at hs
    obtain ⟨s', res⟩ := r
    cases res with
    | n n p => exact ⟨by simp only at hs ⊢; rw [hs.2, h.tx], by simp only at hs ⊢; rw [hs.1, h.rx]⟩
    | err e => exact ⟨by simp only at hs ⊢; rw [hs.2, h.tx], by simp only at hs ⊢; rw [hs.1, h.rx]⟩
  | receive cap est k =>
    have hs := receive_rx c.s cap est k
    simp only [Conn.step]
    generalize receive c.s cap est k = r at hs
    obtain ⟨s', res⟩ := r
    cases res with
    | n n p => exact ⟨by simp only at hs ⊢; rw [hs.1, h.tx], by simp only at hs ⊢; rw [hs.2, h.rx]⟩
    | err e => exact ⟨by simp only at hs ⊢; rw [hs.1, h.tx], by simp only at hs ⊢; rw [hs.2, h.rx]⟩
  | finish est =>
    have hs := finish_same c.s est
    simp only [Conn.step]
    generalize finish c.s est = r at hs
    obtain ⟨s', res⟩ := r
    exact ⟨by simp only at hs ⊢; rw [hs.1, h.tx], by simp only at hs ⊢; rw [hs.2, h.rx]⟩

theorem inv_run (ops : List Op) {c : Conn} (h : Inv c) : Inv (c.run ops) := by
  induction ops generalizing c with
  | nil => exact h
  | cons op ops ih => exact ih (inv_step h op)

/-- **failed calls leave no trace**: a send that returns -1 (EAGAIN included, in any state)
hands not a single byte to the kernel -/
theorem C02_failed_call_no_trace (s : St) (buf : Bytes) (est : List EstAns) (k : KSend) (e : Nat)
    (h : (send s buf est k).2 = .err e) : (send s buf est k).1.tx = s.tx := by
  have := (send_tx s buf est k).2
  rw [h] at this; exact this

/-- **C02 (btcp, prefix)**: for all histories of the two ends and every kernel behaviour,
under K-stream the concatenation of what the receiver's `xcm_receive` calls returned is a
prefix of the concatenation of the byte ranges the sender's `xcm_send` calls reported as
accepted; it is equal to it once everything the sender's kernel accepted has been read. -/
theorem C02_btcp_prefix (stA stB : CState) (opsA opsB : List Op)
    (hk : ((Conn.init stB).run opsB).s.rxd <+: ((Conn.init stA).run opsA).s.tx) :
    ((Conn.init stB).run opsB).returned <+: ((Conn.init stA).run opsA).accepted ∧
    (((Conn.init stB).run opsB).s.rxd = ((Conn.init stA).run opsA).s.tx →
      ((Conn.init stB).run opsB).returned = ((Conn.init stA).run opsA).accepted) := by
  have hA := inv_run opsA (c := Conn.init stA) ⟨rfl, rfl⟩
  have hB := inv_run opsB (c := Conn.init stB) ⟨rfl, rfl⟩
  rw [← hA.tx, ← hB.rx]
  exact ⟨hk, fun h => h⟩

/-- non-vacuity: a 5-byte send accepted as 2 bytes, a refused retry, then the rest -/
example :
    let A := (Conn.init .ready).run [.send [1, 2, 3, 4, 5] [] (.ok 2), .send [3, 4, 5] [] (.err EAGAIN),
      .send [9, 9] [] (.err EAGAIN), .send [3, 4, 5] [] (.ok 99)]
    A.accepted = [1, 2, 3, 4, 5] ∧ A.s.tx = [1, 2, 3, 4, 5] ∧
    A.results = [.n 2 [], .err EAGAIN, .err EAGAIN, .n 3 []] := by
  decide


/-! ## blocking mode: `bytestream_bsend` of xcm.c -/

/-- **what a blocking xcm_send on a byte stream reports is what was handed down**: for every length,
every behaviour of the transport (short counts, EAGAIN, errors) and of poll (readiness, EINTR), a
returned count equals the number of bytes the transport accepted during the call. -/
theorem C02_bsend_accounting (len : Nat) (script : List Api.Ans) (n : Nat)
    (h : (Api.send { blocking := true, bytestream := true } len script).1 = .rc n) :
    Api.accBytes (Api.send { blocking := true, bytestream := true } len script).2 = n := by
  simp only [Api.send, if_true] at *
  have hb := Api.bsend_acc (Api.fuelOf script) len 0 script [] rfl
  have hf := Api.finishAfter_spec (Api.bytestreamBsend (Api.fuelOf script) len 0 script [])
  rw [hf.1]
  exact hb.1 n (hf.2.2.1 n h)

/-- non-vacuity: 7000 bytes in three short rounds with an EAGAIN and a wait in between -/
example : (Api.send { blocking := true, bytestream := true } 7000 [.ok 3000, .err 11, .ok 1, .ok 3000, .ok 3000]).1 = .rc 7000 := by
  decide

end XcmModel.C02

/-! ## btls (xcm_tp_btls.c): what XCM's TLS byte-stream layer does with OpenSSL's answers

`accepted` is the concatenation of the ranges xcm_send reported as accepted, `written` the concatenation of the ranges
`SSL_write` reported as taken, `pend` what XCM retains of a send that SSL_write could not complete, `delivered` the
concatenation of what `SSL_read` returned.  That OpenSSL transports `written` unchanged to the peer's `SSL_read` -
provided an SSL_write that could not complete is repeated with the same bytes, which `C02_btls_retry_discipline`
establishes - is the environment assumption K-openssl-stream, probed end to end by sys_stream. -/
namespace XcmModel.C02btls
open XcmModel XcmModel.Btls

/-- in every reachable state: what was accepted is exactly what was handed to OpenSSL followed by what is retained -
nothing accepted is lost, duplicated or reordered inside XCM; the counters are the lengths of these streams -/
theorem C02_btls_accepted_is_written_plus_retained (auth : Bool) (ops : List Op) :
    let s := run { auth := auth } ops
    s.accepted = s.written ++ s.pend ∧ s.cnt.fromApp = s.accepted.length ∧ s.cnt.toLower = s.written.length ∧
    s.cnt.toApp = s.delivered.length ∧ s.cnt.fromLower = s.delivered.length := by
  have h := run_inv ops (init_inv auth)
  exact ⟨h.acc, h.cntW.1, h.cntW.2, h.cntD.1, h.cntD.2⟩

/-- for len > 0 xcm_send returns 1..len and exactly that prefix of this call's buffer is added to the accepted stream;
a call that fails (EAGAIN included) adds nothing -/
theorem C02_btls_send_accepts_prefix (s : St) (buf : Bytes) (h : HAns) (ws : List WAns) (hl : 0 < buf.length) :
    (∀ k p, (send s buf h ws).2.1 = .n k p → 1 ≤ k ∧ k ≤ buf.length ∧ (send s buf h ws).1.accepted = s.accepted ++ buf.take k) ∧
    (∀ e, (send s buf h ws).2.1 = .err e → (send s buf h ws).1.accepted = s.accepted) := by
  have hd := tfh_data s h
  unfold send
  generalize tryFinishHandshake s h = s1 at hd
  simp only
  split
  · exact ⟨(by intro k p hr; cases hr), fun e _ => hd.2.2.2.1⟩
  · exact ⟨(by intro k p hr; cases hr), fun e _ => hd.2.2.2.1⟩
  · exact ⟨(by intro k p hr; cases hr), fun e _ => hd.2.2.2.1⟩
  · split
    · omega
    · have fc := flush_core (s1.pend.length + 1) s1 ws
      cases hf : flushPending (s1.pend.length + 1) s1 ws with
      | mk sf rest3 =>
        obtain ⟨fr, rest, nf⟩ := rest3
        rw [hf] at fc
        have hacc : sf.accepted = s.accepted := fc.1.accepted.trans hd.2.2.2.1
        simp only
        cases fr with
        | some r =>
          have he := flush_res_err (s1.pend.length + 1) s1 ws r (by rw [hf])
          obtain ⟨e0, he0⟩ := he
          subst he0
          exact ⟨(by intro k p hr; cases hr), fun e _ => hacc⟩
        | none =>
          simp only
          cases hw : nextW rest with
          | mk w _ =>
            cases w with
            | n a =>
              refine ⟨fun k p hr => ?_, (by intro e hr; cases hr)⟩
              simp only [Res.n.injEq] at hr
              obtain ⟨hk, _⟩ := hr
              subst hk
              exact ⟨by omega, by omega, by simp only [hacc]⟩
            | zero => exact ⟨(by intro k p hr; cases hr), fun e _ => hacc⟩
            | ev ev =>
              simp only
              have f := (frame_reset sf).trans (frame_pse { sf with sslCondition := 0, sslWants := 0 } SENDABLE ev)
              split
              · exact ⟨(by intro k p hr; cases hr), fun e _ => f.accepted.trans hacc⟩
              · exact ⟨(by intro k p hr; cases hr), fun e _ => f.accepted.trans hacc⟩
              · refine ⟨fun k p hr => ?_, (by intro e hr; cases hr)⟩
                simp only [Res.n.injEq] at hr
                obtain ⟨hk, _⟩ := hr
                subst hk
                refine ⟨by simp only [MAX_PENDING, Generated.MAX_PENDING_WRITE]; omega, by omega, ?_⟩
                rw [f.accepted, hacc]

/-- **retry discipline**: OpenSSL is handed a new buffer only when XCM retains nothing - whenever an SSL_write could not
complete, the next SSL_write calls re-offer exactly the retained bytes (what OpenSSL demands), whatever the application
offers in its next xcm_send -/
theorem C02_btls_retry_discipline (fuel : Nat) (s : St) (ws : List WAns) :
    (flushPending fuel s ws).2.1 = none → s.pend.length < fuel → (flushPending fuel s ws).1.pend = [] :=
  fun h hl => ((flush_core fuel s ws).2 h hl).1

/-- the SSL_read step never returns more than `capacity`; what it returns is exactly what is appended to the delivered
stream, and the accepted/written/retained output streams are untouched -/
theorem readStep_capacity (sf : St) (cap : Nat) (r : RAns) (k : Nat) (p : Bytes) (hr : (readStep sf cap r).2 = .n k p) :
    k ≤ cap ∧ p.length = k ∧ (readStep sf cap r).1.delivered = sf.delivered ++ p := by
  revert hr
  unfold readStep
  cases r with
  | data bs =>
    simp only
    split
    · intro hr; cases hr
    · intro hr
      simp only [Res.n.injEq] at hr
      obtain ⟨hk, hp⟩ := hr
      subst hk hp
      refine ⟨?_, rfl, rfl⟩
      simp only [List.length_take]; omega
  | ev ev =>
    simp only
    have f := (frame_reset sf).trans (frame_pse { sf with sslCondition := 0, sslWants := 0 } RECEIVABLE ev)
    split
    · intro hr; cases hr; exact ⟨Nat.zero_le _, rfl, by rw [List.append_nil]; exact f.delivered⟩
    · intro hr; cases hr
    · intro hr; cases hr

/-- xcm_receive never returns more than `capacity`; what it returns is exactly what is appended to the delivered stream
(the flush of retained output that precedes the read moves no received data) -/
theorem C02_btls_capacity (s : St) (cap : Nat) (h : HAns) (ws : List WAns) (r : RAns) (k : Nat) (p : Bytes)
    (hr : (receive s cap h ws r).2.1 = .n k p) :
    k ≤ cap ∧ p.length = k ∧ (receive s cap h ws r).1.delivered = s.delivered ++ p := by
  have hd := tfh_data s h
  revert hr
  unfold receive
  generalize tryFinishHandshake s h = s1 at hd
  simp only
  split
  · intro hr; cases hr
  · intro hr; cases hr; exact ⟨Nat.zero_le _, rfl, by simp [hd.2.1]⟩
  · intro hr; cases hr
  · have fc := flush_core (s1.pend.length + 1) s1 ws
    cases hf : flushPending (s1.pend.length + 1) s1 ws with
    | mk sf rest3 =>
      obtain ⟨fr, rest, nf⟩ := rest3
      rw [hf] at fc
      have hdel : sf.delivered = s.delivered := fc.1.delivered.trans hd.2.1
      simp only
      split
      · intro hr; cases hr
      · intro hr; cases hr; exact ⟨Nat.zero_le _, rfl, by simp [hdel]⟩
      · intro hr
        have := readStep_capacity sf cap r k p hr
        exact ⟨this.1, this.2.1, by rw [this.2.2, hdel]⟩

/-- xcm_receive leaves the accepted output stream alone: its flush only moves retained bytes to OpenSSL -/
theorem C02_btls_receive_keeps_accepted (auth : Bool) (ops : List Op) (cap : Nat) (h : HAns) (ws : List WAns) (r : RAns) :
    let s := run { auth := auth } ops
    let s' := (receive s cap h ws r).1
    s'.accepted = s.accepted ∧ s'.accepted = s'.written ++ s'.pend := by
  intro s s'
  have hi : Inv s := run_inv ops (init_inv auth)
  have hi' : Inv s' := receive_inv hi cap h ws r
  refine ⟨?_, hi'.acc⟩
  have hd := tfh_data s h
  show (receive s cap h ws r).1.accepted = s.accepted
  unfold receive
  generalize tryFinishHandshake s h = s1 at hd
  simp only
  split
  · exact hd.2.2.2.1
  · exact hd.2.2.2.1
  · exact hd.2.2.2.1
  · have fc := flush_core (s1.pend.length + 1) s1 ws
    cases hf : flushPending (s1.pend.length + 1) s1 ws with
    | mk sf rest3 =>
      obtain ⟨fr, rest, nf⟩ := rest3
      rw [hf] at fc
      have hacc : sf.accepted = s.accepted := fc.1.accepted.trans hd.2.2.2.1
      simp only
      split
      · exact hacc
      · exact hacc
      · show (readStep sf cap r).1.accepted = s.accepted
        unfold readStep
        cases r with
        | data bs => simp only; split <;> exact hacc
        | ev ev =>
          simp only
          have f := (frame_reset sf).trans (frame_pse { sf with sslCondition := 0, sslWants := 0 } RECEIVABLE ev)
          split <;> exact f.accepted.trans hacc

end XcmModel.C02btls
