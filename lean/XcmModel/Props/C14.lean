import XcmModel.Ctl
/-
  C14 - the control interface is passive and safe (the owner's request handling).

  Quantifiers: any attribute set of the socket (any number of attributes, any names, any value
  sizes), any request bytes (any size, any type number, any 64 bytes in the name field), any
  previous content of the session's reply buffer, any sequence of session events.
-/
namespace XcmModel.C14
open XcmModel XcmModel.Ctl

theorem addAttr_spec (acc : List Attr) (a : Attr) (h : acc.length ≤ Generated.CTL_PROTO_MAX_ATTRS)
    (hall : ∀ x ∈ acc, fits x = true ∧ sensitive x.name = false) :
    (addAttr acc a).length ≤ Generated.CTL_PROTO_MAX_ATTRS
    ∧ (∀ x ∈ addAttr acc a, fits x = true ∧ sensitive x.name = false) := by
  unfold addAttr
  by_cases h1 : sensitive a.name = true
  · simp only [h1, if_true]; exact ⟨h, hall⟩
  · by_cases h2 : fits a = true
    · by_cases h3 : acc.length = Generated.CTL_PROTO_MAX_ATTRS
      · simp only [h1, h2, h3, if_true, if_false, Bool.not_true, Bool.false_eq_true]; exact ⟨by omega, hall⟩
      · simp only [h1, h2, h3, if_false, Bool.not_true, Bool.false_eq_true]
        refine ⟨by simp; omega, ?_⟩
        intro x hx
        simp at hx
        rcases hx with hx | hx
        · exact hall x hx
        · subst hx; exact ⟨h2, by simpa using h1⟩
    · have h2' : fits a = false := by simpa using h2
      simp only [h1, h2', if_true, if_false, Bool.not_false, Bool.false_eq_true]; exact ⟨h, hall⟩

theorem foldl_addAttr_spec (attrs acc : List Attr) (h : acc.length ≤ Generated.CTL_PROTO_MAX_ATTRS)
    (hall : ∀ x ∈ acc, fits x = true ∧ sensitive x.name = false) :
    (attrs.foldl addAttr acc).length ≤ Generated.CTL_PROTO_MAX_ATTRS
    ∧ (∀ x ∈ attrs.foldl addAttr acc, fits x = true ∧ sensitive x.name = false) := by
  induction attrs generalizing acc with
  | nil => exact ⟨h, hall⟩
  | cons a t ih =>
    have := addAttr_spec acc a h hall
    exact ih (addAttr acc a) this.1 this.2

/-- **no out-of-bounds write and no abort in the get-all reply builder, for every attribute set**:
at most CTL_PROTO_MAX_ATTRS entries, every name shorter than the name field, every value within the
value field. -/
theorem C14_getall_bounded (prevType : Nat) (attrs : List Attr) :
    ∃ l, (processGetAll prevType attrs).body = .all l ∧ l.length ≤ Generated.CTL_PROTO_MAX_ATTRS
      ∧ ∀ x ∈ l, x.name.length < Generated.XCM_ATTR_NAME_MAX ∧ x.value.length ≤ Generated.CTL_ATTR_VALUE_MAX := by
  refine ⟨attrs.foldl addAttr [], rfl, ?_, ?_⟩
  · exact (foldl_addAttr_spec attrs [] (by simp) (by simp)).1
  · intro x hx
    have := ((foldl_addAttr_spec attrs [] (by simp) (by simp)).2 x hx).1
    simpa [fits] using this

/-- **the value of tls.key is never disclosed**: a get of it is rejected with EACCES and carries no
value; no get-all reply contains an attribute of that name -/
theorem C14_key_never_disclosed (prevType : Nat) (attrs : List Attr) (r : InProc) :
    processGetAttr tlsKey r = { type := tGetAttrRej, body := .rej Generated.EACCES, residue := [] }
    ∧ ∀ l, (processGetAll prevType attrs).body = .all l → ∀ x ∈ l, x.name ≠ tlsKey := by
  constructor
  · simp [processGetAttr, sensitive]
  · intro l hl x hx
    simp only [processGetAll] at hl
    cases hl
    have := ((foldl_addAttr_spec attrs [] (by simp) (by simp)).2 x hx).2
    intro he
    simp [sensitive, he] at this

/-- **a well-formed get is answered with exactly the in-process result** (or a rejection carrying its errno) -/
theorem C14_reply_equals_inprocess (name : Bytes) (hn : name ≠ tlsKey) (t : Nat) (v : Bytes) (e : Nat) :
    processGetAttr name (.ok t v) = { type := tGetAttrCfm, body := .cfm t v }
    ∧ processGetAttr name (.err e) = { type := tGetAttrRej, body := .rej e } := by
  have : sensitive name = false := by simpa [sensitive] using hn
  simp [processGetAttr, this]

/-- get-all is the in-process listing, in order, minus tls.key and minus what the wire format cannot
carry, cut at the reply's capacity -/
theorem foldl_addAttr_filter (attrs acc : List Attr) (hb : acc.length ≤ Generated.CTL_PROTO_MAX_ATTRS) :
    attrs.foldl addAttr acc =
      acc ++ (attrs.filter (fun a => !sensitive a.name && fits a)).take (Generated.CTL_PROTO_MAX_ATTRS - acc.length) := by
  induction attrs generalizing acc with
  | nil => simp
  | cons a t ih =>
    simp only [List.foldl_cons]
    by_cases h1 : sensitive a.name = true
    · have hs : addAttr acc a = acc := by simp [addAttr, h1]
      rw [hs, ih acc hb]; simp [h1]
    · have h1' : sensitive a.name = false := by simpa using h1
      by_cases h2 : fits a = true
      · by_cases h3 : acc.length = Generated.CTL_PROTO_MAX_ATTRS
        · have hs : addAttr acc a = acc := by simp [addAttr, h1', h2, h3]
          rw [hs, ih acc hb]; simp [h3]
        · have hs : addAttr acc a = acc ++ [a] := by simp [addAttr, h1', h2, h3]
          rw [hs, ih (acc ++ [a]) (by simp; omega)]
          have hlt : acc.length < Generated.CTL_PROTO_MAX_ATTRS := by omega
          have : Generated.CTL_PROTO_MAX_ATTRS - acc.length = (Generated.CTL_PROTO_MAX_ATTRS - (acc.length + 1)) + 1 := by omega
          simp only [h1', h2, Bool.not_false, Bool.and_self, List.filter_cons_of_pos, List.length_append,
            List.length_singleton]
          rw [this, List.take_succ_cons]
          simp
      · have h2' : fits a = false := by simpa using h2
        have hs : addAttr acc a = acc := by simp [addAttr, h1', h2']
        rw [hs, ih acc hb]; simp [h1', h2']

theorem C14_getall_equals_inprocess (prevType : Nat) (attrs : List Attr) :
    (processGetAll prevType attrs).body =
      .all ((attrs.filter (fun a => !sensitive a.name && fits a)).take Generated.CTL_PROTO_MAX_ATTRS) := by
  simp [processGetAll, foldl_addAttr_filter attrs [] (by simp)]

/-- **whichever request comes first on a session**: the reply's type does not depend on what the
session's reply buffer held before (before fix c4a2112, F-14d, get-all left the old type in place) -/
theorem C14_first_request_any (size type : Nat) (field : Bytes) (p q : Nat) (lookup : Bytes → InProc) (attrs : List Attr) :
    clientReceive size type field p lookup attrs = clientReceive size type field q lookup attrs
    ∧ (∀ r, clientReceive size type field p lookup attrs = .reply r →
        (type = tGetAllReq → r.type = tGetAllCfm) ∧ (type = tGetAttrReq → r.type = tGetAttrCfm ∨ r.type = tGetAttrRej)) := by
  constructor
  · simp [clientReceive, processGetAll]
  · intro r h
    unfold clientReceive at h
    by_cases hs : size ≠ msgSize
    · simp [hs] at h
    · simp only [hs, if_false] at h
      by_cases h0 : type = tGetAttrReq
      · simp only [h0, if_true] at h
        cases h
        refine ⟨by intro hh; rw [h0] at hh; exact absurd hh (by decide), fun _ => ?_⟩
        unfold processGetAttr
        split
        · right; rfl
        · split
          · left; rfl
          · right; rfl
      · simp only [h0, if_false] at h
        by_cases h3 : type = tGetAllReq
        · simp only [h3, if_true] at h
          cases h
          exact ⟨fun _ => rfl, fun hh => absurd hh h0⟩
        · simp [h3] at h

/-- requests of the wrong size or of an unknown type produce no reply and touch nothing -/
theorem C14_malformed_dropped (size type : Nat) (field : Bytes) (p : Nat) (lookup : Bytes → InProc) (attrs : List Attr)
    (h : size ≠ msgSize ∨ (type ≠ tGetAttrReq ∧ type ≠ tGetAllReq)) :
    clientReceive size type field p lookup attrs = .drop := by
  unfold clientReceive
  rcases h with h | ⟨h1, h2⟩
  · simp [h]
  · by_cases hs : size ≠ msgSize
    · simp [hs]
    · simp [hs, h1, h2]

theorem length_takeWhile_le' (p : UInt8 → Bool) (l : Bytes) : (l.takeWhile p).length ≤ l.length := by
  induction l with
  | nil => simp
  | cons a t ih => simp only [List.takeWhile_cons]; split <;> simp <;> omega

theorem mem_takeWhile' (p : UInt8 → Bool) (l : Bytes) (x : UInt8) (h : x ∈ l.takeWhile p) : p x = true := by
  induction l with
  | nil => simp at h
  | cons a t ih =>
    simp only [List.takeWhile_cons] at h
    split at h
    · simp at h
      rcases h with h | h
      · subst h; assumption
      · exact ih h
    · simp at h

/-- **an unterminated name cannot make the owner read beyond the request**: the name used is taken
from within the first XCM_ATTR_NAME_MAX-1 bytes of the field, whatever the field contains -/
theorem C14_name_within_field (field : Bytes) :
    (termName field).length ≤ Generated.XCM_ATTR_NAME_MAX - 1 ∧ (termName field) <+: field ∧ (0 : UInt8) ∉ termName field := by
  unfold termName
  refine ⟨?_, ?_, ?_⟩
  · calc ((field.take (Generated.XCM_ATTR_NAME_MAX - 1)).takeWhile (· ≠ 0)).length
        ≤ (field.take (Generated.XCM_ATTR_NAME_MAX - 1)).length := length_takeWhile_le' _ _
      _ ≤ Generated.XCM_ATTR_NAME_MAX - 1 := by simp [List.length_take]; omega
  · exact List.IsPrefix.trans (List.takeWhile_prefix _) (List.take_prefix _ _)
  · intro h
    have := mem_takeWhile' _ _ _ h
    simp at this

/-- **sessions are bounded**: whatever clients do, at most MAX_CLIENTS sessions exist -/
theorem C14_sessions_bounded (evs : List Ev) : evs.foldl sessStep 0 ≤ Generated.CTL_MAX_CLIENTS := by
  suffices ∀ n, n ≤ Generated.CTL_MAX_CLIENTS → evs.foldl sessStep n ≤ Generated.CTL_MAX_CLIENTS from this 0 (by simp)
  induction evs with
  | nil => intro n h; exact h
  | cons e t ih =>
    intro n h
    apply ih
    cases e with
    | connectAttempt => simp only [sessStep]; split <;> omega
    | remove => simp only [sessStep]; omega

/-- **a session's pending reply stays with that session when another session goes away**: after
`remove_client i` the remaining sessions are exactly the others, each with its own descriptor and its
own pending reply (no reply is handed to a session that did not ask for it) -/
theorem C14_remove_keeps_sessions_apart (cs : List Client) (i : Nat) (hi : i < cs.length) (c : Client) :
    c ∈ removeClient cs i ↔ ∃ j : Nat, j ≠ i ∧ cs[j]? = some c := by
  unfold removeClient
  by_cases hl : i + 1 = cs.length
  · simp only [hl, if_true]
    rw [List.dropLast_eq_take]
    constructor
    · intro hm
      obtain ⟨j, hj⟩ := List.getElem?_of_mem hm
      rw [List.getElem?_take] at hj
      split at hj
      · rename_i hlt; exact ⟨j, by omega, hj⟩
      · cases hj
    · rintro ⟨j, hne, hj⟩
      have hjl : j < cs.length := (List.getElem?_eq_some_iff.mp hj).1
      exact List.mem_of_getElem? (i := j) (by rw [List.getElem?_take]; simp [show j < cs.length - 1 by omega, hj])
  · simp only [hl, if_false]
    have hne : cs ≠ [] := by intro h; simp [h] at hi
    have hlast : cs.getLast? = some (cs.getLast hne) := List.getLast?_eq_getLast hne
    rw [hlast]
    simp only []
    have hlastidx : cs[cs.length - 1]? = some (cs.getLast hne) := by
      rw [List.getLast_eq_getElem]; exact List.getElem?_eq_getElem (by omega)
    rw [List.dropLast_eq_take, List.length_set]
    constructor
    · intro hm
      obtain ⟨j, hj⟩ := List.getElem?_of_mem hm
      rw [List.getElem?_take] at hj
      split at hj
      · rename_i hlt
        rw [List.getElem?_set] at hj
        by_cases hij : i = j
        · subst hij; simp [hi] at hj; exact ⟨cs.length - 1, by omega, by rw [← hj]; exact hlastidx⟩
        · simp [hij] at hj; exact ⟨j, fun h => hij h.symm, hj⟩
      · cases hj
    · rintro ⟨j, hne2, hj⟩
      have hjl : j < cs.length := (List.getElem?_eq_some_iff.mp hj).1
      by_cases hjlast : j = cs.length - 1
      · -- the last client now sits in slot i
        apply List.mem_of_getElem? (i := i)
        rw [List.getElem?_take]
        have : i < cs.length - 1 := by omega
        simp only [this, if_true, List.getElem?_set, hi, and_self]
        subst hjlast; rw [hlastidx] at hj; simp [hj]
      · apply List.mem_of_getElem? (i := j)
        rw [List.getElem?_take]
        have : j < cs.length - 1 := by omega
        simp only [this, if_true, List.getElem?_set]
        have : ¬ i = j := fun h => hne2 h.symm
        simp [this, hj]

/-- non-vacuity: tls.key and ordinary attributes: exactly the ordinary ones are reported -/
example :
    (processGetAll 0 [{ name := [97], type := 3, value := [1] }, { name := tlsKey, type := 4, value := [9] },
                      { name := [99], type := 1, value := [0] }]).body
      = .all [{ name := [97], type := 3, value := [1] }, { name := [99], type := 1, value := [0] }] := by
  decide

/-- non-vacuity: a value of 513 bytes does not fit the wire format -/
example : fits { name := [98], type := 4, value := List.replicate 513 0 } = false := by
  simp only [fits, List.length_replicate, List.length_cons, List.length_nil]
  decide

end XcmModel.C14
