import XcmModel.Lemmas.CtxKey
import XcmModel.Lemmas.CtxStore
/-!
# C18 — each TLS connection uses the credentials designated at that moment (ctx_store.c)

* `C18_key_unambiguous`: the byte sequence hashed into the cache key determines the configuration - item types,
  by-value data, file names and the stat identity of every file (and of a symbolic link's target).  So, up to
  SHA-256 collisions (K-sha256), two configurations that differ in any item never share a cache entry.
  `F18a_old_key_ambiguous` shows that the encoding used before the repair did not have this property.
* `C18_context_holds_designated_material`: for every sequence of file-system snapshots a call may observe
  (files replaced between any two accesses, K-stat: a replaced file has a new identity and identities are not
  reused) the context returned holds exactly the material that the identity under which it is cached designates,
  and that identity is the one observed for the configured items during the call.
* `C18_no_mixing`, `C18_established_unaffected`: one context - one identity; an entry's material never changes.
* `C18_released_with_last_user`: reference counts equal the number of sockets holding the context; a context is
  released exactly when its last holder lets go, never while held, and the release assertion cannot fire.
-/
namespace XcmModel.C18
open XcmModel XcmModel.CtxKey XcmModel.CtxStore

/-- the hashed byte sequence determines the configuration (all four items, with file identities) -/
theorem C18_key_unambiguous (c c' : List View) (hl : c.length = c'.length) (h : ∀ v ∈ c, v.WF) (h' : ∀ v ∈ c', v.WF)
    (he : encCfg c = encCfg c') : c = c' := by
  have a := decCfg_encCfg c h []
  have b := decCfg_encCfg c' h' []
  rw [he, hl] at a
  rw [a] at b
  simp only [Option.some.injEq, Prod.mk.injEq, and_true] at b
  exact b

/-- F-18a: the encoding before the repair (plain concatenation) maps two different configurations - trusted
certificates "AB" with CRL "R", and trusted certificate "A" with CRL "BR" - to the same bytes -/
theorem F18a_old_key_ambiguous :
    ∃ c c' : List View, c.length = c'.length ∧ (∀ v ∈ c, v.WF) ∧ (∀ v ∈ c', v.WF) ∧ c ≠ c' ∧ encCfgOld c = encCfgOld c' := by
  refine ⟨[.value [67], .value [75], .value [65, 66], .value [82]], [.value [67], .value [75], .value [65], .value [66, 82]],
    rfl, ?_, ?_, by decide, by decide⟩
  · intro v hv; simp only [List.mem_cons, List.not_mem_nil, or_false] at hv
    rcases hv with h | h | h | h <;> subst h <;> simp [View.WF, NoNul]
  · intro v hv; simp only [List.mem_cons, List.not_mem_nil, or_false] at hv
    rcases hv with h | h | h | h <;> subst h <;> simp [View.WF, NoNul]

/-- whatever changes on disk while a context is being fetched: the context returned is cached under the identity
observed for the configured items in this very call and holds exactly the material that identity designates;
a newly built one was accepted by OpenSSL and has a fresh id -/
theorem C18_context_holds_designated_material (w : World) (ok : List (Option Mat) → Bool) (cfg : List Item)
    (fuel : Nat) (st : Store) (e : Env) (hi : Inv w st) (hm : Mono e) (id : Nat) (cr : Bool)
    (hr : (get w ok fuel st cfg e).2.1 = .ctx id cr) :
    ∃ en ∈ (get w ok fuel st cfg e).1.entries, en.ctx = id ∧ en.mats = en.key.map (designated w) ∧
      (∃ m e', hashCfg w (tickN e m) cfg = (some en.key, e')) ∧ (cr = true → ok en.mats = true) := by
  have := (get_spec w ok cfg fuel st e 0 hi hm).2 id cr hr
  obtain ⟨en, hen, h1, h2, h3, h4, _⟩ := this
  exact ⟨en, hen, h1, h2, h3, fun x => (h4 x).1⟩

theorem C18_get_keeps_invariant (w : World) (ok : List (Option Mat) → Bool) (cfg : List Item)
    (fuel : Nat) (st : Store) (e : Env) (hi : Inv w st) (hm : Mono e) : Inv w (get w ok fuel st cfg e).1 :=
  (get_spec w ok cfg fuel st e 0 hi hm).1

/-- one context, one identity: entries with the same context are the same entry, entries with the same identity too -/
theorem C18_no_mixing (w : World) (st : Store) (hi : Inv w st) (a b : Entry) (ha : a ∈ st.entries) (hb : b ∈ st.entries) :
    (a.ctx = b.ctx → a = b) ∧ (a.key = b.key → a = b) := by
  have key : ∀ {β : Type} [DecidableEq β] (f : Entry → β) (l : List Entry), (l.map f).Nodup →
      ∀ x ∈ l, ∀ y ∈ l, f x = f y → x = y := by
    intro β _ f l
    induction l with
    | nil => intro _ x hx; cases hx
    | cons h t ih =>
      intro nd x hx y hy hxy
      simp only [List.map_cons, List.nodup_cons] at nd
      rcases List.mem_cons.mp hx with hx | hx <;> rcases List.mem_cons.mp hy with hy | hy
      · rw [hx, hy]
      · exfalso; apply nd.1; rw [← hx, hxy]; exact List.mem_map.mpr ⟨y, hy, rfl⟩
      · exfalso; apply nd.1; rw [← hy, ← hxy]; exact List.mem_map.mpr ⟨x, hx, rfl⟩
      · exact ih nd.2 x hx y hy hxy
  exact ⟨key (·.ctx) st.entries hi.ctxNodup a ha b hb, key (·.key) st.entries hi.keysNodup a ha b hb⟩

/-! ### sockets holding contexts -/

inductive Op where
  | get (cfg : List Item) (e : Env) (fuel : Nat)
  | put (c : Nat)

structure Sys where
  st : Store := {}
  held : List Nat := []        -- one element per socket that holds a context

def step (w : World) (ok : List (Option Mat) → Bool) (s : Sys) : Op → Sys
  | .get cfg e fuel =>
    let r := get w ok fuel s.st cfg e
    match r.2.1 with
    | .ctx id _ => { st := r.1, held := id :: s.held }
    | _ => { st := r.1, held := s.held }
  | .put c => if c ∈ s.held then { st := put s.st c, held := s.held.erase c } else s   -- a socket only puts what it holds

def OpOk : Op → Prop
  | .get _ e _ => Mono e
  | .put _ => True

structure SysInv (w : World) (s : Sys) : Prop where
  inv : Inv w s.st
  cnt : ∀ c, cntOf s.st.entries c = s.held.count c

theorem step_inv (w : World) (ok : List (Option Mat) → Bool) (s : Sys) (op : Op) (h : SysInv w s) (ho : OpOk op) :
    SysInv w (step w ok s op) := by
  cases op with
  | get cfg e fuel =>
    have hi := C18_get_keeps_invariant w ok cfg fuel s.st e h.inv ho
    have hc := get_cnt w ok cfg fuel s.st e h.inv
    simp only [step]
    generalize get w ok fuel s.st cfg e = r at hi hc
    cases hr : r.2.1 with
    | ctx id cr =>
      refine ⟨hi, fun c => ?_⟩
      have := hc c
      simp only [hr, inc] at this
      simp only [List.count_cons, this, h.cnt c]
      by_cases hid : id = c <;> simp [hid]
    | eproto => exact ⟨hi, fun c => by have := hc c; simp only [hr, inc] at this; simp only [this, h.cnt c]; rfl⟩
    | loadFailed => exact ⟨hi, fun c => by have := hc c; simp only [hr, inc] at this; simp only [this, h.cnt c]; rfl⟩
    | diverged => exact ⟨hi, fun c => by have := hc c; simp only [hr, inc] at this; simp only [this, h.cnt c]; rfl⟩
  | put c =>
    simp only [step]
    by_cases hm : c ∈ s.held
    · rw [if_pos hm]
      -- the entry exists because its count is positive
      have hpos : 0 < cntOf s.st.entries c := by rw [h.cnt c]; exact List.count_pos_iff.mpr hm
      cases hf : findCtx c s.st.entries with
      | none => simp [cntOf, hf] at hpos
      | some en =>
        have sp := put_spec w s.st c h.inv en hf
        refine ⟨sp.1, fun c' => ?_⟩
        have : (put s.st c).entries = dropRef c s.st.entries := by simp [put, hf]
        rw [this, dropRef_cnt h.inv.ctxNodup h.inv.cntPos c', h.cnt c']
        by_cases hcc : c' = c
        · subst hcc; simp [List.count_erase_self]
        · have hne : (c == c') = false := by simp; exact fun x => hcc x.symm
          simp [hcc, List.count_erase_of_ne hcc]
    · rw [if_neg hm]; exact h

def run (w : World) (ok : List (Option Mat) → Bool) (ops : List Op) : Sys := ops.foldl (step w ok) {}

theorem run_inv (w : World) (ok : List (Option Mat) → Bool) (ops : List Op) (ho : ∀ op ∈ ops, OpOk op) :
    SysInv w (run w ok ops) := by
  have gen : ∀ (ops : List Op) (s : Sys), SysInv w s → (∀ op ∈ ops, OpOk op) → SysInv w (ops.foldl (step w ok) s) := by
    intro ops
    induction ops with
    | nil => intro s h _; exact h
    | cons o t ih =>
      intro s h hok
      exact ih _ (step_inv w ok s o h (hok o List.mem_cons_self)) (fun op hm => hok op (List.mem_cons_of_mem _ hm))
  exact gen ops {} ⟨inv_init w, fun c => by simp [cntOf, findCtx]⟩ ho

/-- in every reachable state: a context is cached iff some socket holds it, with a count equal to the number of
holders; released contexts are held by nobody; the release assertion never fired -/
theorem C18_released_with_last_user (w : World) (ok : List (Option Mat) → Bool) (ops : List Op) (ho : ∀ op ∈ ops, OpOk op) :
    let s := run w ok ops
    (∀ c, (∃ e ∈ s.st.entries, e.ctx = c) ↔ c ∈ s.held) ∧
    (∀ e ∈ s.st.entries, e.cnt = s.held.count e.ctx) ∧
    (∀ c ∈ s.st.freed, c ∉ s.held) ∧ s.st.aborted = false := by
  intro s
  have h := run_inv w ok ops ho
  have ent : ∀ e ∈ s.st.entries, cntOf s.st.entries e.ctx = e.cnt := by
    intro e he
    simp only [cntOf]
    cases hf : findCtx e.ctx s.st.entries with
    | none => exact absurd rfl (findCtx_none hf e he)
    | some e' =>
      have := (C18_no_mixing w s.st h.inv e' e (findCtx_some hf).1 he).1 (findCtx_some hf).2
      rw [this]
  refine ⟨fun c => ⟨?_, ?_⟩, ?_, ?_, h.inv.noAbort⟩
  · intro ⟨e, he, hc⟩
    have := ent e he
    rw [h.cnt, hc] at this
    exact List.count_pos_iff.mp (by rw [this]; exact h.inv.cntPos e he)
  · intro hc
    have : 0 < cntOf s.st.entries c := by rw [h.cnt c]; exact List.count_pos_iff.mpr hc
    simp only [cntOf] at this
    cases hf : findCtx c s.st.entries with
    | none => simp [hf] at this
    | some e => exact ⟨e, (findCtx_some hf).1, (findCtx_some hf).2⟩
  · intro e he; rw [← ent e he, h.cnt]
  · intro c hc hh
    have : 0 < cntOf s.st.entries c := by rw [h.cnt c]; exact List.count_pos_iff.mpr hh
    simp only [cntOf] at this
    cases hf : findCtx c s.st.entries with
    | none => simp [hf] at this
    | some e => exact h.inv.freedDead c hc e (findCtx_some hf).1 (findCtx_some hf).2

/-- the last holder's put releases the context -/
theorem C18_last_put_releases (w : World) (st : Store) (c : Nat) (hi : Inv w st) (e : Entry)
    (he : findCtx c st.entries = some e) (h1 : e.cnt = 1) :
    (put st c).freed = c :: st.freed ∧ ∀ x ∈ (put st c).entries, x.ctx ≠ c :=
  (put_spec w st c hi e he).2.1 (by omega)

/-- non-vacuity: two sockets share one context built from the same files; replacing a file yields a second context
for the next socket while the first two keep theirs -/
example :
    let w : World := [(("tc", 1), .reg "rootA"), (("tc", 2), .reg "rootB")]
    let e1 : Env := { cur := [("tc", 1)], future := [] }
    let e2 : Env := { cur := [("tc", 2)], future := [] }
    let cfg := [Item.value "a1", .value "a1-key", .file "tc", .none]
    let s := run w (fun _ => true) [.get cfg e1 3, .get cfg e1 3, .get cfg e2 3]
    s.held = [1, 0, 0] ∧ s.st.entries.map (fun e => (e.ctx, e.cnt, e.mats)) =
      [(1, 1, [some "a1", some "a1-key", some "rootB", none]), (0, 2, [some "a1", some "a1-key", some "rootA", none])] := by
  decide

end XcmModel.C18
