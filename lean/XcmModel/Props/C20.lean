import XcmModel.Relay
/-!
# C20 — xcmrelay is transparent (tools/xcmrelay/xrelay.c)

For every sequence of fd events delivered to the two forwarders of a relay and every answer the XCM calls can give
(EAGAIN at any point, partial acceptance on byte streams, errors, end of stream):
* `C20_forwarder_exact`: in each direction the bytes received from the source are exactly the bytes accepted by
  `xcm_send` on the destination followed by what the forwarder still holds - nothing is dropped, duplicated or
  reordered inside the relay; on messaging transports message boundaries are preserved (`C20_messages_preserved`);
* `C20_awaits_what_it_needs`: the conditions awaited on the two connections always are: RECEIVABLE on a forwarder's
  source iff it is empty, SENDABLE on its destination iff it holds data - so neither direction is left unattended;
* `C20_eof_only_when_empty`: an end of stream is acted upon only by a forwarder that holds nothing: everything it
  received has been accepted by `xcm_send` on the other leg.  (Accepted is not yet flushed: see finding F-20a.)
-/
namespace XcmModel.C20
open XcmModel XcmModel.Relay

/-- per forwarder: bytes in = bytes out ++ bytes held -/
def FInv (f : Fwd) : Prop := f.received.flatten = f.passed.flatten ++ f.buf

/-- per forwarder on a messaging transport: messages in = messages out ++ the one held -/
def MInv (f : Fwd) : Prop := f.received = f.passed ++ (if f.buf.isEmpty then [] else [f.buf])

theorem active_finv (r : Relay) (f : Fwd) (conn : Nat) (a : Ans) (h : FInv f) : FInv (active r f conn a).1 := by
  unfold active
  by_cases he : f.buf.isEmpty = true
  · have hb : f.buf = [] := List.isEmpty_iff.mp he
    rw [if_pos he]
    split
    · cases a with
      | data bs => simp only [FInv, List.flatten_append, List.flatten_cons, List.flatten_nil, List.append_nil] at h ⊢; rw [h, hb]; simp
      | eof => exact h
      | err e => simp only; split <;> exact h
      | ok n => exact h
    · cases a with
      | err e => simp only; split <;> exact h
      | data bs => exact h
      | eof => exact h
      | ok n => exact h
  · rw [if_neg he]
    split
    · cases a with
      | ok n =>
        simp only [FInv, List.flatten_append, List.flatten_cons, List.flatten_nil, List.append_nil] at h ⊢
        rw [h, List.append_assoc, List.take_append_drop]
      | err e => simp only; split; exact h; split <;> exact h
      | data bs => exact h
      | eof => exact h
    · cases a with
      | err e => simp only; split <;> exact h
      | data bs => exact h
      | eof => exact h
      | ok n => exact h

theorem active_minv (r : Relay) (hr : r.bytestream = false) (f : Fwd) (conn : Nat) (a : Ans) (hd : ∀ bs, a = .data bs → bs ≠ [])
    (h : MInv f) : MInv (active r f conn a).1 := by
  unfold active
  by_cases he : f.buf.isEmpty = true
  · have hb : f.buf = [] := List.isEmpty_iff.mp he
    rw [if_pos he]
    split
    · cases a with
      | data bs =>
        have hne : bs.isEmpty = false := by
          cases bs with
          | nil => exact absurd rfl (hd [] rfl)
          | cons _ _ => rfl
        simp only [MInv, he, if_true, List.append_nil] at h
        simp only [MInv, hne, Bool.false_eq_true, if_false, h]
      | eof => exact h
      | err e => simp only; split <;> exact h
      | ok n => exact h
    · cases a with
      | err e => simp only; split <;> exact h
      | data bs => exact h
      | eof => exact h
      | ok n => exact h
  · rw [if_neg he]
    split
    · cases a with
      | ok n =>
        simp only [MInv, he, if_false, hr, Bool.false_eq_true] at h ⊢
        simp only [List.drop_length, List.isEmpty_nil, if_true, List.append_nil, List.take_length, h]
      | err e => simp only; split; exact h; split <;> exact h
      | data bs => exact h
      | eof => exact h
    · cases a with
      | err e => simp only; split <;> exact h
      | data bs => exact h
      | eof => exact h
      | ok n => exact h

theorem start_finv (bs : Bool) : FInv (start bs).f0 ∧ FInv (start bs).f1 := by
  simp [start, awaitInput, addCond, delCond, FInv]

theorem addCond_f (r : Relay) (c b : Nat) : (addCond r c b).f0 = r.f0 ∧ (addCond r c b).f1 = r.f1 ∧
    (addCond r c b).bytestream = r.bytestream ∧ (addCond r c b).terminated = r.terminated := by
  unfold addCond; split <;> exact ⟨rfl, rfl, rfl, rfl⟩

theorem delCond_f (r : Relay) (c b : Nat) : (delCond r c b).f0 = r.f0 ∧ (delCond r c b).f1 = r.f1 ∧
    (delCond r c b).bytestream = r.bytestream ∧ (delCond r c b).terminated = r.terminated := by
  unfold delCond; split <;> exact ⟨rfl, rfl, rfl, rfl⟩

theorem addCond_d (r : Relay) (c b : Nat) : (addCond r c b).draining = r.draining := by unfold addCond; split <;> rfl
theorem delCond_d (r : Relay) (c b : Nat) : (delCond r c b).draining = r.draining := by unfold delCond; split <;> rfl
theorem awaitInput_d (r : Relay) (f : Fwd) : (awaitInput r f).draining = r.draining := by unfold awaitInput; rw [delCond_d, addCond_d]
theorem awaitOutput_d (r : Relay) (f : Fwd) : (awaitOutput r f).draining = r.draining := by unfold awaitOutput; rw [delCond_d, addCond_d]

theorem awaitInput_f (r : Relay) (f : Fwd) : (awaitInput r f).f0 = r.f0 ∧ (awaitInput r f).f1 = r.f1 ∧
    (awaitInput r f).bytestream = r.bytestream := by
  unfold awaitInput
  exact ⟨(delCond_f _ _ _).1.trans (addCond_f _ _ _).1, (delCond_f _ _ _).2.1.trans (addCond_f _ _ _).2.1,
    (delCond_f _ _ _).2.2.1.trans (addCond_f _ _ _).2.2.1⟩

theorem awaitOutput_f (r : Relay) (f : Fwd) : (awaitOutput r f).f0 = r.f0 ∧ (awaitOutput r f).f1 = r.f1 ∧
    (awaitOutput r f).bytestream = r.bytestream := by
  unfold awaitOutput
  exact ⟨(delCond_f _ _ _).1.trans (addCond_f _ _ _).1, (delCond_f _ _ _).2.1.trans (addCond_f _ _ _).2.1,
    (delCond_f _ _ _).2.2.1.trans (addCond_f _ _ _).2.2.1⟩

/-- the relay part returned by `active` leaves the stored forwarders and the service type alone -/
theorem active_relay (r : Relay) (f : Fwd) (conn : Nat) (a : Ans) :
    (active r f conn a).2.1.f0 = r.f0 ∧ (active r f conn a).2.1.f1 = r.f1 ∧ (active r f conn a).2.1.bytestream = r.bytestream := by
  unfold active
  split
  · split
    · cases a with
      | data bs => exact awaitOutput_f r f
      | eof => exact ⟨rfl, rfl, rfl⟩
      | err e => simp only; split <;> exact ⟨rfl, rfl, rfl⟩
      | ok n => exact ⟨rfl, rfl, rfl⟩
    · cases a with
      | err e => simp only; split <;> exact ⟨rfl, rfl, rfl⟩
      | data bs => exact ⟨rfl, rfl, rfl⟩
      | eof => exact ⟨rfl, rfl, rfl⟩
      | ok n => exact ⟨rfl, rfl, rfl⟩
  · split
    · cases a with
      | ok n =>
        simp only
        split
        · split
          · exact awaitInput_f r f
          · exact ⟨rfl, rfl, rfl⟩
        · split
          · exact awaitInput_f r f
          · exact ⟨rfl, rfl, rfl⟩
      | err e => simp only; split; exact ⟨rfl, rfl, rfl⟩; split <;> exact ⟨rfl, rfl, rfl⟩
      | data bs => exact ⟨rfl, rfl, rfl⟩
      | eof => exact ⟨rfl, rfl, rfl⟩
    · cases a with
      | err e => simp only; split <;> exact ⟨rfl, rfl, rfl⟩
      | data bs => exact ⟨rfl, rfl, rfl⟩
      | eof => exact ⟨rfl, rfl, rfl⟩
      | ok n => exact ⟨rfl, rfl, rfl⟩

theorem drainTry_f (r : Relay) (c : Nat) (a : Ans) : (drainTry r c a).1.f0 = r.f0 ∧ (drainTry r c a).1.f1 = r.f1 ∧
    (drainTry r c a).1.bytestream = r.bytestream := by
  unfold drainTry
  cases a with
  | err e => simp only; split <;> exact ⟨rfl, rfl, rfl⟩
  | ok n => exact ⟨rfl, rfl, rfl⟩
  | data b => exact ⟨rfl, rfl, rfl⟩
  | eof => exact ⟨rfl, rfl, rfl⟩

theorem stopAll_f (r : Relay) : (stopAll r).f0 = r.f0 ∧ (stopAll r).f1 = r.f1 ∧ (stopAll r).bytestream = r.bytestream ∧
    (stopAll r).draining = r.draining ∧ (stopAll r).terminated = r.terminated := by
  unfold stopAll
  refine ⟨?_, ?_, ?_, ?_, ?_⟩
  · exact (delCond_f _ _ _).1.trans ((delCond_f _ _ _).1.trans ((delCond_f _ _ _).1.trans (delCond_f _ _ _).1))
  · exact (delCond_f _ _ _).2.1.trans ((delCond_f _ _ _).2.1.trans ((delCond_f _ _ _).2.1.trans (delCond_f _ _ _).2.1))
  · exact (delCond_f _ _ _).2.2.1.trans ((delCond_f _ _ _).2.2.1.trans ((delCond_f _ _ _).2.2.1.trans (delCond_f _ _ _).2.2.1))
  · exact (delCond_d _ _ _).trans ((delCond_d _ _ _).trans ((delCond_d _ _ _).trans (delCond_d _ _ _)))
  · exact (delCond_f _ _ _).2.2.2.trans ((delCond_f _ _ _).2.2.2.trans ((delCond_f _ _ _).2.2.2.trans (delCond_f _ _ _).2.2.2))

theorem afterActive_f (r' : Relay) (a2 : Ans) (cs : List Call) : (afterActive r' a2 cs).1.f0 = r'.f0 ∧
    (afterActive r' a2 cs).1.f1 = r'.f1 ∧ (afterActive r' a2 cs).1.bytestream = r'.bytestream := by
  unfold afterActive
  split
  · have d := drainTry_f (stopAll { r' with terminated := none }) (by assumption) a2
    have st := stopAll_f { r' with terminated := none }
    exact ⟨d.1.trans st.1, d.2.1.trans st.2.1, d.2.2.trans st.2.2.1⟩
  · exact ⟨rfl, rfl, rfl⟩

/-- what one event can do to the two forwarders: nothing, or one `xfwd_active` on one of them (only while the relay is live) -/
theorem step_shape (r : Relay) (e : Ev) :
    (((step r e).1.f0 = r.f0 ∧ (step r e).1.f1 = r.f1) ∨
     ((step r e).1.f0 = (active r r.f0 e.conn e.ans).1 ∧ (step r e).1.f1 = r.f1 ∧ r.draining = none ∧ r.terminated = none) ∨
     ((step r e).1.f0 = r.f0 ∧ (step r e).1.f1 = (active r r.f1 e.conn e.ans).1 ∧ r.draining = none ∧ r.terminated = none)) ∧
    (step r e).1.bytestream = r.bytestream := by
  unfold step
  by_cases ht : r.terminated.isSome = true
  · rw [if_pos ht]; exact ⟨Or.inl ⟨rfl, rfl⟩, rfl⟩
  · rw [if_neg ht]
    have htn : r.terminated = none := by cases h : r.terminated <;> simp_all
    cases hd : r.draining with
    | some c =>
      simp only
      split
      · have d := drainTry_f r c e.ans; exact ⟨Or.inl ⟨d.1, d.2.1⟩, d.2.2⟩
      · exact ⟨Or.inl ⟨rfl, rfl⟩, rfl⟩
    | none =>
      simp only
      split
      · have ar := active_relay r r.f0 e.conn e.ans
        have af := afterActive_f { (active r r.f0 e.conn e.ans).2.1 with f0 := (active r r.f0 e.conn e.ans).1 } e.ans2 (active r r.f0 e.conn e.ans).2.2
        exact ⟨Or.inr (Or.inl ⟨af.1, af.2.1.trans ar.2.1, trivial, htn⟩), af.2.2.trans ar.2.2⟩
      · have ar := active_relay r r.f1 e.conn e.ans
        have af := afterActive_f { (active r r.f1 e.conn e.ans).2.1 with f1 := (active r r.f1 e.conn e.ans).1 } e.ans2 (active r r.f1 e.conn e.ans).2.2
        exact ⟨Or.inr (Or.inr ⟨af.1.trans ar.1, af.2.1, trivial, htn⟩), af.2.2.trans ar.2.2⟩

structure RInv (r : Relay) : Prop where
  i0 : FInv r.f0
  i1 : FInv r.f1

theorem step_rinv (r : Relay) (e : Ev) (h : RInv r) : RInv (step r e).1 := by
  rcases (step_shape r e).1 with ⟨a, b⟩ | ⟨a, b, _⟩ | ⟨a, b, _⟩
  · exact ⟨a ▸ h.i0, b ▸ h.i1⟩
  · exact ⟨a ▸ active_finv r r.f0 e.conn e.ans h.i0, b ▸ h.i1⟩
  · exact ⟨a ▸ h.i0, b ▸ active_finv r r.f1 e.conn e.ans h.i1⟩

/-- **nothing is dropped, duplicated or reordered inside the relay**: after any sequence of events and answers, in each
direction the bytes received from the source are the bytes accepted by `xcm_send` on the destination, in order,
followed by the bytes still held -/
theorem C20_forwarder_exact (bs : Bool) (es : List Ev) :
    let r := run bs es
    r.f0.received.flatten = r.f0.passed.flatten ++ r.f0.buf ∧ r.f1.received.flatten = r.f1.passed.flatten ++ r.f1.buf := by
  have gen : ∀ (es : List Ev) (r : Relay), RInv r → RInv (es.foldl (fun r e => (step r e).1) r) := by
    intro es
    induction es with
    | nil => intro r h; exact h
    | cons e t ih => intro r h; exact ih _ (step_rinv r e h)
  have := gen es (start bs) ⟨(start_finv bs).1, (start_finv bs).2⟩
  exact ⟨this.i0, this.i1⟩

/-- messaging transports: a message leaves the relay exactly as it was received, one xcm_send per xcm_receive, in order -/
theorem C20_messages_preserved (es : List Ev) (hd : ∀ e ∈ es, ∀ b, e.ans = .data b → b ≠ []) :
    let r := run false es
    MInv r.f0 ∧ MInv r.f1 := by
  have gen : ∀ (es : List Ev) (r : Relay), r.bytestream = false → MInv r.f0 → MInv r.f1 →
      (∀ e ∈ es, ∀ b, e.ans = .data b → b ≠ []) →
      MInv (es.foldl (fun r e => (step r e).1) r).f0 ∧ MInv (es.foldl (fun r e => (step r e).1) r).f1 := by
    intro es
    induction es with
    | nil => intro r _ h0 h1 _; exact ⟨h0, h1⟩
    | cons e t ih =>
      intro r hb h0 h1 hd
      have hde := hd e List.mem_cons_self
      have hdt : ∀ x ∈ t, ∀ b, x.ans = .data b → b ≠ [] := fun x hx => hd x (List.mem_cons_of_mem _ hx)
      simp only [List.foldl_cons]
      have sh := step_shape r e
      refine ih _ (sh.2.trans hb) ?_ ?_ hdt
      · rcases sh.1 with ⟨a, _⟩ | ⟨a, _⟩ | ⟨a, _⟩
        · exact a ▸ h0
        · exact a ▸ active_minv r hb r.f0 e.conn e.ans hde h0
        · exact a ▸ h0
      · rcases sh.1 with ⟨_, b⟩ | ⟨_, b, _⟩ | ⟨_, b, _⟩
        · exact b ▸ h1
        · exact b ▸ h1
        · exact b ▸ active_minv r hb r.f1 e.conn e.ans hde h1
  have hs : (start false).bytestream = false := (awaitInput_f _ _).2.2.trans (awaitInput_f _ _).2.2
  have h00 : MInv (start false).f0 := by
    have : (start false).f0 = { src := 1, dst := 2 } := (awaitInput_f _ _).1.trans (awaitInput_f _ _).1
    rw [MInv, this]; rfl
  have h01 : MInv (start false).f1 := by
    have : (start false).f1 = { src := 2, dst := 1 } := (awaitInput_f _ _).2.1.trans (awaitInput_f _ _).2.1
    rw [MInv, this]; rfl
  exact gen es (start false) hs h00 h01 hd

/-- `xfwd_active` starts draining exactly on an end of stream seen by an empty forwarder on its source -/
theorem active_draining (r : Relay) (f : Fwd) (conn : Nat) (a : Ans) :
    (active r f conn a).2.1.draining = some f.dst ∧ f.buf.isEmpty = true ∧ conn = f.src ∧ a = .eof ∨
    (active r f conn a).2.1.draining = r.draining := by
  unfold active
  split
  · rename_i he
    split
    · rename_i hcs
      cases a with
      | eof => exact Or.inl ⟨rfl, he, hcs, rfl⟩
      | data bs => exact Or.inr (awaitOutput_d r f)
      | err e => simp only; split <;> exact Or.inr rfl
      | ok n => exact Or.inr rfl
    · cases a with
      | err e => simp only; split <;> exact Or.inr rfl
      | data bs => exact Or.inr rfl
      | eof => exact Or.inr rfl
      | ok n => exact Or.inr rfl
  · split
    · cases a with
      | ok n =>
        simp only
        split
        · split
          · exact Or.inr (awaitInput_d r f)
          · exact Or.inr rfl
        · split
          · exact Or.inr (awaitInput_d r f)
          · exact Or.inr rfl
      | err e => simp only; split; exact Or.inr rfl; split <;> exact Or.inr rfl
      | data bs => exact Or.inr rfl
      | eof => exact Or.inr rfl
    · cases a with
      | err e => simp only; split <;> exact Or.inr rfl
      | data bs => exact Or.inr rfl
      | eof => exact Or.inr rfl
      | ok n => exact Or.inr rfl

/-- a source's end of stream is acted upon only by a forwarder that holds nothing: all it received has been accepted by
`xcm_send` on the other leg, and it is that leg which the relay then drains -/
theorem C20_eof_only_when_empty (r : Relay) (f : Fwd) (conn : Nat) (a : Ans) (hf : FInv f) (hl : r.draining = none)
    (hc : (active r f conn a).2.1.draining = some f.dst) :
    a = .eof ∧ conn = f.src ∧ f.buf = [] ∧ f.received.flatten = f.passed.flatten := by
  rcases active_draining r f conn a with ⟨_, he, hcs, ha⟩ | h
  · have hb : f.buf = [] := List.isEmpty_iff.mp he
    refine ⟨ha, hcs, hb, ?_⟩
    rw [FInv, hb, List.append_nil] at hf; exact hf
  · rw [h, hl] at hc; cases hc

/-- **the close is passed on only after the flush**: while a relay drains, no forwarder runs any more, and the relay ends
only on an event of the draining connection whose xcm_finish did not say EAGAIN -/
theorem C20_close_after_flush (r : Relay) (e : Ev) (c : Nat) (hd : r.draining = some c) (ht : r.terminated = none) :
    (step r e).1.f0 = r.f0 ∧ (step r e).1.f1 = r.f1 ∧
    ((step r e).1.terminated ≠ none → e.conn = c ∧ e.ans ≠ .err EAGAIN ∧ Call.finish c ∈ (step r e).2) ∧
    ((step r e).1.terminated = none → (step r e).1.draining = some c) := by
  unfold step
  simp only [ht, Option.isSome_none, Bool.false_eq_true, if_false, hd]
  by_cases hc : e.conn = c
  · rw [if_pos hc]
    have d := drainTry_f r c e.ans
    refine ⟨d.1, d.2.1, fun hne => ⟨hc, ?_, ?_⟩, fun hn => ?_⟩
    · intro ha; apply hne; simp [drainTry, ha, ht]
    · unfold drainTry; cases e.ans <;> simp; split <;> simp
    · unfold drainTry at hn ⊢
      cases ha : e.ans with
      | err x => simp only [ha] at hn ⊢; split at hn <;> simp_all
      | ok n => simp [ha] at hn
      | data b => simp [ha] at hn
      | eof => simp [ha] at hn
  · rw [if_neg hc]
    exact ⟨rfl, rfl, fun hne => absurd ht hne, fun _ => hd⟩

/-! ### what the relay waits for -/

def exp1 (r : Relay) : Nat := (if r.f0.buf.isEmpty then 1 else 0) + (if r.f1.buf.isEmpty then 0 else 2)
def exp2 (r : Relay) : Nat := (if r.f1.buf.isEmpty then 1 else 0) + (if r.f0.buf.isEmpty then 0 else 2)

structure CInv (r : Relay) : Prop where
  ends0 : r.f0.src = 1 ∧ r.f0.dst = 2
  ends1 : r.f1.src = 2 ∧ r.f1.dst = 1
  c1 : r.cond1 = exp1 r
  c2 : r.cond2 = exp2 r

theorem bits (c : Nat) (h : c = 0 ∨ c = 1 ∨ c = 2 ∨ c = 3) :
    setBit c 1 = (if c = 0 ∨ c = 1 then 1 else 3) ∧ setBit c 2 = (if c = 0 ∨ c = 2 then 2 else 3) ∧
    clrBit c 1 = (if c = 0 ∨ c = 1 then 0 else 2) ∧ clrBit c 2 = (if c = 0 ∨ c = 2 then 0 else 1) := by
  rcases h with h | h | h | h <;> subst h <;> decide

theorem active_ends (r : Relay) (f : Fwd) (conn : Nat) (a : Ans) : (active r f conn a).1.src = f.src ∧ (active r f conn a).1.dst = f.dst := by
  unfold active
  split <;> split <;> cases a <;>
    first
    | exact ⟨rfl, rfl⟩
    | (simp only; split <;> first | exact ⟨rfl, rfl⟩ | (split <;> exact ⟨rfl, rfl⟩))

/-- how one event changes the awaited conditions: only when the forwarder's buffer fills or drains -/
theorem active_cond (r : Relay) (f : Fwd) (conn : Nat) (a : Ans) (hd : ∀ bs, a = .data bs → bs ≠ []) :
    let f' := (active r f conn a).1
    let r' := (active r f conn a).2.1
    (f.buf.isEmpty = true ∧ f'.buf.isEmpty = false ∧ r'.cond1 = (awaitOutput r f).cond1 ∧ r'.cond2 = (awaitOutput r f).cond2) ∨
    (f.buf.isEmpty = false ∧ f'.buf.isEmpty = true ∧ r'.cond1 = (awaitInput r f).cond1 ∧ r'.cond2 = (awaitInput r f).cond2) ∨
    (f'.buf.isEmpty = f.buf.isEmpty ∧ r'.cond1 = r.cond1 ∧ r'.cond2 = r.cond2) := by
  unfold active
  by_cases he : f.buf.isEmpty = true
  · rw [if_pos he]
    split
    · cases a with
      | data bs =>
        have : bs.isEmpty = false := by cases bs with | nil => exact absurd rfl (hd [] rfl) | cons _ _ => rfl
        exact Or.inl ⟨he, this, rfl, rfl⟩
      | eof => exact Or.inr (Or.inr ⟨rfl, rfl, rfl⟩)
      | err e => simp only; split <;> exact Or.inr (Or.inr ⟨rfl, rfl, rfl⟩)
      | ok n => exact Or.inr (Or.inr ⟨rfl, rfl, rfl⟩)
    · cases a with
      | err e => simp only; split <;> exact Or.inr (Or.inr ⟨rfl, rfl, rfl⟩)
      | data bs => exact Or.inr (Or.inr ⟨rfl, rfl, rfl⟩)
      | eof => exact Or.inr (Or.inr ⟨rfl, rfl, rfl⟩)
      | ok n => exact Or.inr (Or.inr ⟨rfl, rfl, rfl⟩)
  · have he' : f.buf.isEmpty = false := by simpa using he
    rw [if_neg he]
    split
    · cases a with
      | ok n =>
        simp only
        by_cases hr : (List.drop (if r.bytestream = true then max 1 (min n f.buf.length) else f.buf.length) f.buf).isEmpty = true
        · rw [if_pos hr]; exact Or.inr (Or.inl ⟨he', hr, rfl, rfl⟩)
        · rw [if_neg hr]
          have hr' : (List.drop (if r.bytestream = true then max 1 (min n f.buf.length) else f.buf.length) f.buf).isEmpty = false := by
            cases hx : (List.drop (if r.bytestream = true then max 1 (min n f.buf.length) else f.buf.length) f.buf).isEmpty
            · rfl
            · exact absurd hx hr
          exact Or.inr (Or.inr ⟨hr'.trans he'.symm, rfl, rfl⟩)
      | err e => simp only; split; exact Or.inr (Or.inr ⟨rfl, rfl, rfl⟩); split <;> exact Or.inr (Or.inr ⟨rfl, rfl, rfl⟩)
      | data bs => exact Or.inr (Or.inr ⟨rfl, rfl, rfl⟩)
      | eof => exact Or.inr (Or.inr ⟨rfl, rfl, rfl⟩)
    · cases a with
      | err e => simp only; split <;> exact Or.inr (Or.inr ⟨rfl, rfl, rfl⟩)
      | data bs => exact Or.inr (Or.inr ⟨rfl, rfl, rfl⟩)
      | eof => exact Or.inr (Or.inr ⟨rfl, rfl, rfl⟩)
      | ok n => exact Or.inr (Or.inr ⟨rfl, rfl, rfl⟩)

theorem await_conds (r : Relay) (f : Fwd) :
    (f.src = 1 → f.dst = 2 →
      (awaitOutput r f).cond1 = clrBit r.cond1 1 ∧ (awaitOutput r f).cond2 = setBit r.cond2 2 ∧
      (awaitInput r f).cond1 = setBit r.cond1 1 ∧ (awaitInput r f).cond2 = clrBit r.cond2 2) ∧
    (f.src = 2 → f.dst = 1 →
      (awaitOutput r f).cond2 = clrBit r.cond2 1 ∧ (awaitOutput r f).cond1 = setBit r.cond1 2 ∧
      (awaitInput r f).cond2 = setBit r.cond2 1 ∧ (awaitInput r f).cond1 = clrBit r.cond1 2) := by
  refine ⟨fun hs hd => ?_, fun hs hd => ?_⟩ <;>
    simp [awaitOutput, awaitInput, addCond, delCond, hs, hd, RECEIVABLE, SENDABLE, Generated.XCM_SO_RECEIVABLE, Generated.XCM_SO_SENDABLE]

theorem exp_range (r : Relay) : (exp1 r = 0 ∨ exp1 r = 1 ∨ exp1 r = 2 ∨ exp1 r = 3) ∧ (exp2 r = 0 ∨ exp2 r = 1 ∨ exp2 r = 2 ∨ exp2 r = 3) := by
  unfold exp1 exp2
  constructor <;> split <;> split <;> simp

def Live (r : Relay) : Prop := r.draining = none ∧ r.terminated = none

theorem drainTry_not_live (r2 : Relay) (c : Nat) (a : Ans) (hd : r2.draining = some c) : ¬ Live (drainTry r2 c a).1 := by
  unfold drainTry
  cases a with
  | err e =>
    simp only
    split
    · intro h; rw [Live, hd] at h; cases h.1
    · intro h; cases h.2
  | ok n => intro h; cases h.2
  | data b => intro h; cases h.2
  | eof => intro h; cases h.2

theorem afterActive_live (r' : Relay) (a2 : Ans) (cs : List Call) (h : Live (afterActive r' a2 cs).1) :
    (afterActive r' a2 cs).1 = r' := by
  unfold afterActive at h ⊢
  split at h
  · rename_i c _ hdr
    exfalso
    have st := stopAll_f { r' with terminated := none }
    have hd2 : (stopAll { r' with terminated := none }).draining = some c := st.2.2.2.1.trans hdr
    have := drainTry_not_live (stopAll { r' with terminated := none }) c a2 hd2
    apply this
    cases hx : drainTry (stopAll { r' with terminated := none }) c a2 with
    | mk r3 cs2 => simp only [hx] at h; exact h
  · rfl

/-- the conditions awaited on the two connections of a live relay always are: RECEIVABLE on a forwarder's source iff it
holds nothing, SENDABLE on its destination iff it holds data -/
theorem step_cinv (r : Relay) (e : Ev) (hd : ∀ bs, e.ans = .data bs → bs ≠ []) (hl : Live r) (hl' : Live (step r e).1)
    (h : CInv r) : CInv (step r e).1 := by
  obtain ⟨⟨s0, d0⟩, ⟨s1, d1⟩, c1, c2⟩ := h
  have b1 := bits r.cond1 (by rw [c1]; exact (exp_range r).1)
  have b2 := bits r.cond2 (by rw [c2]; exact (exp_range r).2)
  unfold step at hl' ⊢
  simp only [hl.2, Option.isSome_none, Bool.false_eq_true, if_false, hl.1] at hl' ⊢
  by_cases hf : e.fwd = 0
  · rw [if_pos hf] at hl' ⊢
    have ar := active_relay r r.f0 e.conn e.ans
    have ae := active_ends r r.f0 e.conn e.ans
    have ac := active_cond r r.f0 e.conn e.ans hd
    have aw := (await_conds r r.f0).1 s0 d0
    rw [afterActive_live _ _ _ hl']
    refine ⟨⟨ae.1.trans s0, ae.2.trans d0⟩, ⟨by simp only; rw [ar.2.1]; exact s1, by simp only; rw [ar.2.1]; exact d1⟩, ?_, ?_⟩
    · simp only [exp1]; rw [ar.2.1]
      simp only [exp1, exp2] at c1 c2
      rcases ac with ⟨h1, h2, h3, _⟩ | ⟨h1, h2, h3, _⟩ | ⟨h1, h3, _⟩
      · rw [h3, aw.1, b1.2.2.1, h2, c1, h1]; cases r.f1.buf.isEmpty <;> simp
      · rw [h3, aw.2.2.1, b1.1, h2, c1, h1]; cases r.f1.buf.isEmpty <;> simp
      · rw [h3, h1, c1]
    · simp only [exp2]; rw [ar.2.1]
      simp only [exp1, exp2] at c1 c2
      rcases ac with ⟨h1, h2, _, h4⟩ | ⟨h1, h2, _, h4⟩ | ⟨h1, _, h4⟩
      · rw [h4, aw.2.1, b2.2.1, h2, c2, h1]; cases r.f1.buf.isEmpty <;> simp
      · rw [h4, aw.2.2.2, b2.2.2.2, h2, c2, h1]; cases r.f1.buf.isEmpty <;> simp
      · rw [h4, h1, c2]
  · rw [if_neg hf] at hl' ⊢
    have ar := active_relay r r.f1 e.conn e.ans
    have ae := active_ends r r.f1 e.conn e.ans
    have ac := active_cond r r.f1 e.conn e.ans hd
    have aw := (await_conds r r.f1).2 s1 d1
    rw [afterActive_live _ _ _ hl']
    refine ⟨⟨by simp only; rw [ar.1]; exact s0, by simp only; rw [ar.1]; exact d0⟩, ⟨ae.1.trans s1, ae.2.trans d1⟩, ?_, ?_⟩
    · simp only [exp1]; rw [ar.1]
      simp only [exp1, exp2] at c1 c2
      rcases ac with ⟨h1, h2, h3, _⟩ | ⟨h1, h2, h3, _⟩ | ⟨h1, h3, _⟩
      · rw [h3, aw.2.1, b1.2.1, h2, c1, h1]; cases r.f0.buf.isEmpty <;> simp
      · rw [h3, aw.2.2.2, b1.2.2.2, h2, c1, h1]; cases r.f0.buf.isEmpty <;> simp
      · rw [h3, h1, c1]
    · simp only [exp2]; rw [ar.1]
      simp only [exp1, exp2] at c1 c2
      rcases ac with ⟨h1, h2, _, h4⟩ | ⟨h1, h2, _, h4⟩ | ⟨h1, _, h4⟩
      · rw [h4, aw.1, b2.2.2.1, h2, c2, h1]; cases r.f0.buf.isEmpty <;> simp
      · rw [h4, aw.2.2.1, b2.1, h2, c2, h1]; cases r.f0.buf.isEmpty <;> simp
      · rw [h4, h1, c2]

/-- once a relay drains or has ended it never becomes live again -/
theorem step_not_live (r : Relay) (e : Ev) (h : ¬ Live r) : ¬ Live (step r e).1 := by
  intro hl
  apply h
  unfold step at hl
  by_cases ht : r.terminated.isSome = true
  · rw [if_pos ht] at hl; exact hl
  · rw [if_neg ht] at hl
    have htn : r.terminated = none := by cases hx : r.terminated <;> simp_all
    cases hd : r.draining with
    | none => exact ⟨hd, htn⟩
    | some c =>
      exfalso
      simp only [hd] at hl
      split at hl
      · unfold drainTry at hl
        cases ha : e.ans with
        | err x => simp only [ha] at hl; split at hl; (rw [Live, hd] at hl; cases hl.1); (cases hl.2)
        | ok n => simp only [ha] at hl; cases hl.2
        | data b => simp only [ha] at hl; cases hl.2
        | eof => simp only [ha] at hl; cases hl.2
      · rw [Live, hd] at hl; cases hl.1

theorem C20_awaits_what_it_needs (bs : Bool) (es : List Ev) (hd : ∀ e ∈ es, ∀ b, e.ans = .data b → b ≠ []) :
    let r := run bs es
    Live r → r.cond1 = exp1 r ∧ r.cond2 = exp2 r := by
  have gen : ∀ (es : List Ev) (r : Relay), (Live r → CInv r) → (∀ e ∈ es, ∀ b, e.ans = .data b → b ≠ []) →
      (Live (es.foldl (fun r e => (step r e).1) r) → CInv (es.foldl (fun r e => (step r e).1) r)) := by
    intro es
    induction es with
    | nil => intro r h _; exact h
    | cons e t ih =>
      intro r h hd
      refine ih _ ?_ (fun x hx => hd x (List.mem_cons_of_mem _ hx))
      intro hl'
      have hl : Live r := Classical.byContradiction fun hn => step_not_live r e hn hl'
      exact step_cinv r e (hd e List.mem_cons_self) hl hl' (h hl)
  have h0 : CInv (start bs) := by
    refine ⟨?_, ?_, ?_, ?_⟩ <;> simp [start, awaitInput, addCond, delCond, exp1, exp2, setBit, clrBit, RECEIVABLE, SENDABLE,
      Generated.XCM_SO_RECEIVABLE, Generated.XCM_SO_SENDABLE]
  intro r hl
  have := gen es (start bs) (fun _ => h0) hd hl
  exact ⟨this.c1, this.c2⟩

def ev (f c : Nat) (a : Ans) : Ev := { fwd := f, conn := c, ans := a }

/-- non-vacuity: two messages travel 1 -> 2 with an EAGAIN in between, one travels back -/
example :
    let r := run false [ev 0 1 (.data [1, 2]), ev 0 2 (.err EAGAIN), ev 0 2 (.ok 0), ev 1 2 (.data [9]), ev 0 1 (.data [3]), ev 1 1 (.ok 0), ev 0 2 (.ok 0)]
    r.f0.passed = [[1, 2], [3]] ∧ r.f1.passed = [[9]] ∧ r.terminated = none := by decide

end XcmModel.C20
