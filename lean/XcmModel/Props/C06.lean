import XcmModel.Lemmas.Btls
import XcmModel.Props.C02
import XcmModel.Props.C07
/-!
# C06 — terminal conditions are reported faithfully and stick

Two layers:
* `Btcp` (xcm_tp_btcp.c): the `conn_state` machine.  `closed` and `bad e` are absorbing for
  every later operation and every answer of the kernel / resolver / tconnect; in `closed`
  receive returns 0 and send/finish fail with EPIPE, in `bad e` all three report `e`; the call
  that sees the kernel's error returns exactly that errno.
* `Framing` (xcm_tp_tcp.c = xcm_tp_tls.c): the lower layer's errno is passed up unchanged and
  the framing layer's own terminal state (EPROTO) is sticky (C07); complete messages that
  arrived before the end of stream are delivered before the first 0; a message the peer did
  not send completely is never delivered (C01_never_partial, for peer death at any byte).
btls (`process_ssl_event` classification) is not inside this file.
-/
namespace XcmModel.C06
open XcmModel XcmModel.Btcp XcmModel.C02

def Terminal : CState → Prop
  | .closed => True
  | .bad _ => True
  | _ => False

theorem tryEstablish_terminal (st : CState) (ans : List EstAns) (h : Terminal st) :
    (tryEstablish st ans).1 = st := by
  cases st <;> simp [Terminal] at h <;> rfl

/-- **closed behaviour**: receive returns 0, send and finish fail with EPIPE — and the state
stays `closed`, whatever the environment answers -/
theorem C06_closed_behaviour (s : St) (hs : s.state = .closed) :
    (∀ cap est k, (receive s cap est k).2 = .n 0 [] ∧ (receive s cap est k).1.state = .closed) ∧
    (∀ buf est k, (send s buf est k).2 = .err EPIPE ∧ (send s buf est k).1.state = .closed) ∧
    (∀ est, (finish s est).2 = .err EPIPE ∧ (finish s est).1.state = .closed) := by
  refine ⟨fun cap est k => ?_, fun buf est k => ?_, fun est => ?_⟩
  · simp [receive, hs, tryEstablish]
  · simp [send, hs, tryEstablish]
  · simp [finish, hs, tryEstablish]

/-- **bad: same errno everywhere, forever** -/
theorem C06_bad_same_errno (s : St) (e : Nat) (hs : s.state = .bad e) :
    (∀ cap est k, (receive s cap est k).2 = .err e ∧ (receive s cap est k).1.state = .bad e) ∧
    (∀ buf est k, (send s buf est k).2 = .err e ∧ (send s buf est k).1.state = .bad e) ∧
    (∀ est, (finish s est).2 = .err e ∧ (finish s est).1.state = .bad e) := by
  refine ⟨fun cap est k => ?_, fun buf est k => ?_, fun est => ?_⟩
  · simp [receive, hs, tryEstablish]
  · simp [send, hs, tryEstablish]
  · simp [finish, hs, tryEstablish]

/-- **the discoverer reports**: in `ready`, the call that receives the kernel's verdict
returns it and enters the matching terminal state -/
theorem C06_discoverer_reports (s : St) (hs : s.state = .ready) :
    (∀ cap e, e ≠ EAGAIN → (receive s cap [] (.err e)).2 = .err e ∧ (receive s cap [] (.err e)).1.state = .bad e) ∧
    (∀ cap, (receive s cap [] .eof).2 = .n 0 [] ∧ (receive s cap [] .eof).1.state = .closed) ∧
    (∀ buf, (send s buf [] (.err EPIPE)).2 = .err EPIPE ∧ (send s buf [] (.err EPIPE)).1.state = .closed) ∧
    (∀ buf e, e ≠ EAGAIN → e ≠ EPIPE →
      (send s buf [] (.err e)).2 = .err e ∧ (send s buf [] (.err e)).1.state = .bad e) ∧
    (∀ cap, (receive s cap [] (.err EAGAIN)).1.state = .ready) ∧
    (∀ buf, (send s buf [] (.err EAGAIN)).1.state = .ready) := by
  refine ⟨fun cap e h => ?_, fun cap => ?_, fun buf => ?_, fun buf e h1 h2 => ?_, fun cap => ?_, fun buf => ?_⟩
  · simp [receive, hs, tryEstablish, h]
  · simp [receive, hs, tryEstablish]
  · simp [send, hs, tryEstablish]
  · simp [send, hs, tryEstablish, h1, h2]
  · simp [receive, hs, tryEstablish]
  · have : ¬ (EAGAIN = EPIPE) := by decide
    simp [send, hs, tryEstablish, this]

/-- **establishment failure is reported with its errno** (ENOENT for a failed resolution,
the last attempt's errno from tconnect): the observing call returns it and the state is bad -/
theorem C06_establish_failure (s : St) (e : Nat) :
    (s.state = .resolving → (finish s [.fail e]).2 = .err e ∧ (finish s [.fail e]).1.state = .bad e) ∧
    (s.state = .connecting → (finish s [.fail e]).2 = .err e ∧ (finish s [.fail e]).1.state = .bad e) ∧
    (s.state = .resolving → (finish s [.ok, .ok, .fail e]).2 = .err e) ∧
    -- a DNS name as local address: the failure of either resolution is the connection's failure, with its errno
    (∀ r, s.state = .resolvingLocal r → (finish s [.fail e]).2 = .err e ∧ (finish s [.fail e]).1.state = .bad e) ∧
    (s.state = .resolvingLocal true → (finish s [.ok, .fail e]).2 = .err e ∧ (finish s [.ok, .fail e]).1.state = .bad e) := by
  refine ⟨fun h => ?_, fun h => ?_, fun h => ?_, fun r h => ?_, fun h => ?_⟩ <;>
    simp [finish, h, tryEstablish, finishRemote, beginConnect, tryFinishConnect]

theorem step_terminal {c : Conn} (h : Terminal c.s.state) (op : Op) : (c.step op).s.state = c.s.state := by
  have ht := fun ans => tryEstablish_terminal c.s.state ans h
  cases op with
  | send buf est k =>
    simp only [Conn.step, send, ht]
    cases hs : c.s.state <;> simp [hs, Terminal] at h ⊢
  | receive cap est k =>
    simp only [Conn.step, receive, ht]
    cases hs : c.s.state <;> simp [hs, Terminal] at h ⊢
  | finish est =>
    simp only [Conn.step, finish, ht]
    cases hs : c.s.state <;> simp [hs, Terminal] at h ⊢

/-- **C06 (btcp, sticky)**: once a connection is closed or bad it stays exactly so under
every later history of operations and every later answer of the environment -/
theorem C06_btcp_sticky (c : Conn) (h : Terminal c.s.state) (ops : List Op) :
    (c.run ops).s.state = c.s.state := by
  induction ops generalizing c with
  | nil => rfl
  | cons op ops ih =>
    have h1 := step_terminal h op
    show ((c.step op).run ops).s.state = c.s.state
    rw [ih (c.step op) (by rw [h1]; exact h), h1]

/-- no send or receive ever succeeds again: all later results are 0/EPIPE (closed) or the
stored errno (bad) -/
theorem C06_no_success_after_terminal (c : Conn) (h : Terminal c.s.state) (op : Op) :
    match op, c.s.state with
    | .receive cap est k, .closed => (receive c.s cap est k).2 = .n 0 []
    | .send buf est k, .closed => (send c.s buf est k).2 = .err EPIPE
    | .finish est, .closed => (finish c.s est).2 = .err EPIPE
    | .receive cap est k, .bad e => (receive c.s cap est k).2 = .err e
    | .send buf est k, .bad e => (send c.s buf est k).2 = .err e
    | .finish est, .bad e => (finish c.s est).2 = .err e
    | _, _ => True := by
  cases op <;> cases hs : c.s.state <;> simp only [] <;>
    first
      | trivial
      | exact ((C06_closed_behaviour c.s hs).1 _ _ _).1
      | exact ((C06_closed_behaviour c.s hs).2.1 _ _ _).1
      | exact ((C06_closed_behaviour c.s hs).2.2 _).1
      | exact ((C06_bad_same_errno c.s _ hs).1 _ _ _).1
      | exact ((C06_bad_same_errno c.s _ hs).2.1 _ _ _).1
      | exact ((C06_bad_same_errno c.s _ hs).2.2 _).1

/-! ### framing layer -/

open XcmModel.Framing in
/-- the lower layer's end-of-stream is passed up as 0 and its errno unchanged, once what had
arrived is consumed; nothing else changes (so the call can be repeated forever with the same
answer) -/
theorem C06_framing_passes_up (s : Framing.St) (env : Framing.Env) (cap : Nat)
    (hb : s.bad = none) (hs : s.sbuf = []) (hrx : env.rx = []) (hlen : s.rbuf.length < 4 ∨
      (4 ≤ s.rbuf.length ∧ Wire.hdrValid (Wire.rd32 s.rbuf) = true ∧ s.rbuf.length < 4 + Wire.rd32 s.rbuf)) :
    (env.rxEnd = some .eof → Framing.receive s env cap [] = (s, env, .closed, [])) ∧
    (∀ e, env.rxEnd = some (.err e) → Framing.receive s env cap [] = (s, env, .err e, [])) := by
  have hz : s.sbuf.isEmpty = true := by simp [hs]
  constructor
  · intro he
    rcases hlen with h | ⟨h4, hv, hlt⟩
    · have hne : ¬ (Generated.MBUF_HDR_LEN - min Generated.MBUF_HDR_LEN s.rbuf.length = 0) := by
        simp only [Generated.MBUF_HDR_LEN]; omega
      have hc : ¬ s.rbuf.length + (Generated.MBUF_HDR_LEN - min Generated.MBUF_HDR_LEN s.rbuf.length)
          > Generated.MBUF_WIRE_MAX := by
        simp only [Generated.MBUF_HDR_LEN, Generated.MBUF_WIRE_MAX]; omega
      simp [Framing.receive, hb, Framing.tryFinishSend, Framing.tryFinishSendAux, hz, Framing.bufferMsg,
        Framing.bufferHdr, hne, Framing.bufferReceive, hc, Framing.lowerReceive, hrx, he]
    · have hz4 : Generated.MBUF_HDR_LEN - min Generated.MBUF_HDR_LEN s.rbuf.length = 0 := by
        simp only [Generated.MBUF_HDR_LEN]; omega
      have hb2 := Framing.hdrValid_bounds hv
      have hc : ¬ s.rbuf.length + (Wire.rd32 s.rbuf - (s.rbuf.length - Generated.MBUF_HDR_LEN))
          > Generated.MBUF_WIRE_MAX := by
        simp only [Generated.MBUF_HDR_LEN, Generated.MBUF_WIRE_MAX, Generated.MBUF_MSG_MAX] at *; omega
      simp [Framing.receive, hb, Framing.tryFinishSend, Framing.tryFinishSendAux, hz, Framing.bufferMsg,
        Framing.bufferHdr, hz4, Framing.bufferPayload, hv, Framing.bufferReceive, hc, Framing.lowerReceive,
        hrx, he]
  · intro e he
    rcases hlen with h | ⟨h4, hv, hlt⟩
    · have hne : ¬ (Generated.MBUF_HDR_LEN - min Generated.MBUF_HDR_LEN s.rbuf.length = 0) := by
        simp only [Generated.MBUF_HDR_LEN]; omega
      have hc : ¬ s.rbuf.length + (Generated.MBUF_HDR_LEN - min Generated.MBUF_HDR_LEN s.rbuf.length)
          > Generated.MBUF_WIRE_MAX := by
        simp only [Generated.MBUF_HDR_LEN, Generated.MBUF_WIRE_MAX]; omega
      simp [Framing.receive, hb, Framing.tryFinishSend, Framing.tryFinishSendAux, hz, Framing.bufferMsg,
        Framing.bufferHdr, hne, Framing.bufferReceive, hc, Framing.lowerReceive, hrx, he]
    · have hz4 : Generated.MBUF_HDR_LEN - min Generated.MBUF_HDR_LEN s.rbuf.length = 0 := by
        simp only [Generated.MBUF_HDR_LEN]; omega
      have hb2 := Framing.hdrValid_bounds hv
      have hc : ¬ s.rbuf.length + (Wire.rd32 s.rbuf - (s.rbuf.length - Generated.MBUF_HDR_LEN))
          > Generated.MBUF_WIRE_MAX := by
        simp only [Generated.MBUF_HDR_LEN, Generated.MBUF_WIRE_MAX, Generated.MBUF_MSG_MAX] at *; omega
      simp [Framing.receive, hb, Framing.tryFinishSend, Framing.tryFinishSendAux, hz, Framing.bufferMsg,
        Framing.bufferHdr, hz4, Framing.bufferPayload, hv, Framing.bufferReceive, hc, Framing.lowerReceive,
        hrx, he]

/-- the lower layer's send errno is what a flushing call reports (EPIPE on `receive` is
reported as 0 = "closed"), and it is terminal (`Env.txErr`) -/
theorem C06_framing_send_errno (s : Framing.St) (env : Framing.Env) (e : Nat) (t : List Framing.SAns)
    (hb : s.bad = none) (hne : s.sbuf ≠ []) (hte : env.txErr = none) (hea : e ≠ Framing.EAGAIN) :
    (Framing.finish s env (.err e :: t) none).2.2.1 = .err e ∧
    (Framing.finish s env (.err e :: t) none).2.1.txErr = some e := by
  have hz : s.sbuf.isEmpty = false := by cases hh : s.sbuf <;> simp_all
  simp [Framing.finish, hb, Framing.tryFinishSend, Framing.tryFinishSendAux, hz, hte, hea]

/-- non-vacuity: ECONNRESET discovered by a receive, then every call reports ECONNRESET; a
peer close discovered by a receive, then 0 / EPIPE -/
example :
    ((Conn.init .ready).run [.receive 9 [] (.err Generated.ECONNRESET), .send [1] [] (.ok 1), .finish [],
      .receive 9 [] (.data [1])]).results
      = [.err Generated.ECONNRESET, .err Generated.ECONNRESET, .err Generated.ECONNRESET, .err Generated.ECONNRESET] ∧
    ((Conn.init .ready).run [.receive 9 [] (.data [5, 6]), .receive 9 [] .eof, .receive 9 [] (.data [7]),
      .send [1] [] (.ok 1), .finish []]).results
      = [.n 2 [5, 6], .n 0 [], .n 0 [], .err EPIPE, .err EPIPE] := by
  decide

end XcmModel.C06

/-! ## btls (xcm_tp_btls.c): the TLS connection machine -/
namespace XcmModel.C06btls
open XcmModel XcmModel.Btls

/-- after the close was seen: receive 0, send/finish EPIPE, for ever -/
theorem C06_btls_closed_behaviour (s : St) (hs : s.state = .closed) :
    (∀ cap h w r, (receive s cap h w r) = (s, .n 0 [], false, 0)) ∧
    (∀ buf h w, (send s buf h w) = (s, .err EPIPE, 0)) ∧
    (∀ h w l, (finish s h w l) = (s, .err EPIPE, 0)) := by
  have ht : ∀ a, tryFinishHandshake s a = s := tfh_terminal (Or.inl hs)
  refine ⟨fun cap h w r => ?_, fun buf h w => ?_, fun h w l => ?_⟩
  · simp [receive, ht, hs]
  · simp [send, ht, hs]
  · simp [finish, ht, hs]

/-- after a failure: the same errno from every call, for ever, and no OpenSSL call is made any more -/
theorem C06_btls_bad_same_errno (s : St) (e : Nat) (hs : s.state = .bad e) :
    (∀ cap h w r, (receive s cap h w r) = (s, .err e, false, 0)) ∧
    (∀ buf h w, (send s buf h w) = (s, .err e, 0)) ∧
    (∀ h w l, (finish s h w l) = (s, .err e, 0)) := by
  have ht : ∀ a, tryFinishHandshake s a = s := tfh_terminal (Or.inr ⟨e, hs⟩)
  refine ⟨fun cap h w r => ?_, fun buf h w => ?_, fun h w l => ?_⟩
  · simp [receive, ht, hs]
  · simp [send, ht, hs]
  · simp [finish, ht, hs]

/-- what `try_flush_pending_write` reports is what the state says: an errno iff bad with that errno, EPIPE iff closed -/
theorem flush_discovers (fuel : Nat) : ∀ (s : St) (ws : List WAns), s.state = .ready →
    (∀ e, (flushPending fuel s ws).1.state = .bad e → (flushPending fuel s ws).2.1 = some (.err e)) ∧
    ((flushPending fuel s ws).1.state = .closed → (flushPending fuel s ws).2.1 = some (.err EPIPE)) ∧
    ((flushPending fuel s ws).2.1 = none → (flushPending fuel s ws).1.state = .ready) := by
  induction fuel with
  | zero => intro s ws hr; simp [flushPending, hr]
  | succ f ih =>
    intro s ws hr
    unfold flushPending
    split
    · simp [hr]
    · cases hw : nextW ws with
      | mk w rest =>
        cases w with
        | n k =>
          simp only
          have r := ih (flushStep s (max 1 (min k s.pend.length))) rest hr
          exact r
        | zero => simp
        | ev e =>
          simp only
          have f := (frame_reset s).trans (frame_pse { s with sslCondition := 0, sslWants := 0 } SENDABLE e)
          split <;> rename_i h3
          · simp [h3]
          · simp [h3]
          · exact ⟨fun x hx => by simp_all, fun hx => by simp_all, fun hx => by cases hx⟩

/-- the call that discovers the failure reports exactly the errno that becomes sticky (send) -/
theorem C06_btls_send_discovers (s : St) (buf : Bytes) (h : HAns) (ws : List WAns) :
    (∀ e, (send s buf h ws).1.state = .bad e → (send s buf h ws).2.1 = .err e) ∧
    ((send s buf h ws).1.state = .closed → (send s buf h ws).2.1 = .err EPIPE) := by
  unfold send
  generalize tryFinishHandshake s h = s1
  simp only
  split
  · rename_i e' hs; exact ⟨fun e hb => by simp only [hs] at hb; cases hb; rfl, fun hb => by simp [hs] at hb⟩
  · rename_i hs; exact ⟨fun e hb => by simp [hs] at hb, fun _ => rfl⟩
  · rename_i hs; exact ⟨fun e hb => by simp [hs] at hb, fun hb => by simp [hs] at hb⟩
  · rename_i hs
    split
    · exact ⟨fun e hb => by simp [hs] at hb, fun hb => by simp [hs] at hb⟩
    · have fd := flush_discovers (s1.pend.length + 1) s1 ws hs
      cases hf : flushPending (s1.pend.length + 1) s1 ws with
      | mk sf rest3 =>
        obtain ⟨fr, rest, nf⟩ := rest3
        rw [hf] at fd
        simp only at fd ⊢
        cases fr with
        | some r =>
          refine ⟨fun e hb => ?_, fun hb => ?_⟩
          · have := fd.1 e hb; simp only [Option.some.injEq] at this; exact this
          · have := fd.2.1 hb; simp only [Option.some.injEq] at this; exact this
        | none =>
          have hsr := fd.2.2 rfl
          simp only
          cases hw : nextW rest with
          | mk w _ =>
            cases w with
            | n k => exact ⟨fun e hb => by simp [hsr] at hb, fun hb => by simp [hsr] at hb⟩
            | zero => exact ⟨fun e hb => by simp at hb, fun _ => rfl⟩
            | ev ev =>
              simp only
              split <;> rename_i h3
              · exact ⟨fun e hb => by simp [h3] at hb, fun _ => rfl⟩
              · exact ⟨fun e hb => by simp only [h3] at hb; cases hb; rfl, fun hb => by simp [h3] at hb⟩
              · exact ⟨fun e hb => by simp_all, fun hb => by simp_all⟩

/-- ... (receive): a failure is reported with its errno, a close as 0 - whether the flush of retained output or the
read itself met it -/
theorem C06_btls_receive_discovers (s : St) (cap : Nat) (h : HAns) (ws : List WAns) (r : RAns) :
    (∀ e, (receive s cap h ws r).1.state = .bad e → (receive s cap h ws r).2.1 = .err e) ∧
    ((receive s cap h ws r).1.state = .closed → (receive s cap h ws r).2.1 = .n 0 []) := by
  unfold receive
  generalize tryFinishHandshake s h = s1
  simp only
  split
  · rename_i e' hs; exact ⟨fun e hb => by simp only [hs] at hb; cases hb; rfl, fun hb => by simp [hs] at hb⟩
  · rename_i hs; exact ⟨fun e hb => by simp [hs] at hb, fun _ => rfl⟩
  · rename_i hs; exact ⟨fun e hb => by simp [hs] at hb, fun hb => by simp [hs] at hb⟩
  · rename_i hs
    have fs := flush_state (s1.pend.length + 1) s1 ws hs
    cases hf : flushPending (s1.pend.length + 1) s1 ws with
    | mk sf rest3 =>
      obtain ⟨fr, rest, nf⟩ := rest3
      rw [hf] at fs
      simp only at fs ⊢
      split
      · rename_i e' hs'; exact ⟨fun e hb => by simp only [hs'] at hb; cases hb; rfl, fun hb => by simp [hs'] at hb⟩
      · rename_i hs'; exact ⟨fun e hb => by simp [hs'] at hb, fun _ => rfl⟩
      · rename_i hnb hnc
        have hsr : sf.state = .ready := by
          rcases fs with fs | fs | ⟨x, fs⟩
          · exact fs
          · exact absurd fs hnc
          · exact absurd fs (hnb x)
        simp only
        unfold readStep
        cases r with
        | data bs =>
          simp only
          split
          · exact ⟨fun e hb => by simp [hsr] at hb, fun hb => by simp [hsr] at hb⟩
          · exact ⟨fun e hb => by simp [hsr] at hb, fun hb => by simp [hsr] at hb⟩
        | ev ev =>
          simp only
          split <;> rename_i h3
          · exact ⟨fun e hb => by simp [h3] at hb, fun _ => rfl⟩
          · exact ⟨fun e hb => by simp only [h3] at hb; cases hb; rfl, fun hb => by simp [h3] at hb⟩
          · exact ⟨fun e hb => by simp_all, fun hb => by simp_all⟩

/-- ... (finish) -/
theorem C06_btls_finish_discovers (s : St) (h : HAns) (ws : List WAns) (l : Option Nat) :
    (∀ e, (finish s h ws l).1.state = .bad e → (finish s h ws l).2.1 = .err e) ∧
    ((finish s h ws l).1.state = .closed → (finish s h ws l).2.1 = .err EPIPE) := by
  unfold finish
  generalize tryFinishHandshake s h = s1
  simp only
  split <;> rename_i hs
  · exact ⟨fun e hb => by simp [hs] at hb, fun hb => by simp [hs] at hb⟩
  · have fd := flush_discovers (s1.pend.length + 1) s1 ws hs
    cases hf : flushPending (s1.pend.length + 1) s1 ws with
    | mk sf rest3 =>
      obtain ⟨fr, rest, nf⟩ := rest3
      rw [hf] at fd
      simp only at fd ⊢
      cases fr with
      | some r =>
        refine ⟨fun e hb => ?_, fun hb => ?_⟩
        · have := fd.1 e hb; simp only [Option.some.injEq] at this; exact this
        · have := fd.2.1 hb; simp only [Option.some.injEq] at this; exact this
      | none =>
        have hsr := fd.2.2 rfl
        exact ⟨fun e hb => by simp [hsr] at hb, fun hb => by simp [hsr] at hb⟩
  · exact ⟨fun e hb => by simp only [hs] at hb; cases hb; rfl, fun hb => by simp [hs] at hb⟩
  · exact ⟨fun e hb => by simp [hs] at hb, fun _ => rfl⟩

/-- terminal states are absorbing under every continuation -/
theorem C06_btls_sticky (s : St) (ht : Terminal s) (ops : List Op) : run s ops = s := run_terminal ops ht

/-- how `process_ssl_event` classifies (every errno the kernel can raise below OpenSSL): a protocol
error is EPROTO, an orderly or early close is `closed`, any other errno is reported as itself -/
theorem C06_btls_classification (s : St) (c : Nat) (hs : ¬ Terminal s) :
    (processSslEvent s c .sslErr).state = .bad EPROTO ∧
    (processSslEvent s c .zeroReturn).state = .closed ∧
    (∀ e, (processSslEvent s c (.syscall e true)).state = .bad EPROTO) ∧
    (processSslEvent s c (.syscall EPIPE false)).state = .closed ∧
    (processSslEvent s c (.syscall 0 false)).state = .closed ∧
    (∀ e, e ≠ EAGAIN → e ≠ EINPROGRESS → e ≠ EPIPE → e ≠ 0 → (processSslEvent s c (.syscall e false)).state = .bad e) := by
  refine ⟨rfl, rfl, fun e => rfl, ?_, ?_, fun e h1 h2 h3 h4 => ?_⟩
  · simp [processSslEvent, EPIPE, EAGAIN, EINPROGRESS, Generated.EPIPE, Generated.EAGAIN, Generated.EINPROGRESS]
  · simp [processSslEvent, EPIPE, EAGAIN, EINPROGRESS, Generated.EPIPE, Generated.EAGAIN, Generated.EINPROGRESS]
  simp [processSslEvent, h1, h2, h3, h4]

end XcmModel.C06btls
