import XcmModel.TcpOpts
/-
  C11 - attribute values take effect (TCP options part; the generic set path is C10's treeSet).

  `lifecycle pre during post` is a connection whose TCP options are set by ANY list of set
  operations before connect (attribute map of xcm_connect_a), ANY list while the connection is being
  established (after tconnect took its snapshot), and ANY list after establishment.

  Assumption (environment): setsockopt succeeds and the kernel then has the value (K-setsockopt).
-/
namespace XcmModel.C11
open XcmModel XcmModel.TcpOpts

theorem optsEqual_iff (a b : Opts) : optsEqual a b = true ↔ a = b := by
  cases a; cases b
  simp [optsEqual]
  constructor
  · rintro ⟨⟨⟨⟨h1, h2⟩, h3⟩, h4⟩, h5⟩; exact ⟨h1, h2, h3, h4, h5⟩
  · rintro ⟨h1, h2, h3, h4, h5⟩; exact ⟨⟨⟨⟨h1, h2⟩, h3⟩, h4⟩, h5⟩

/-- what must hold of a connection that has its kernel socket: the kernel has the stored options -/
def InForce (s : St) : Prop := s.hasFd = true ∧ s.applied = some s.desired

/-- before the kernel socket exists nothing is applied and sets only store -/
def NoFd (s : St) : Prop := s.hasFd = false

theorem get_set (o : Opts) (f : Field) (v : Int) : (o.set f v).get f = v := by
  cases f <;> rfl

/-- **read-back**: an accepted set is what a later get reports; a refused one changes nothing -/
theorem C11_readback_field (s : St) (f : Field) (v : Int) :
    ((setField s f v).2 = .ok → (setField s f v).1.desired.get f = v)
    ∧ ((setField s f v).2 = .einval → (setField s f v).1 = s) := by
  unfold setField
  by_cases h1 : s.desired.get f = v
  · simp [h1]
  · by_cases h2 : v * f.scale ≤ 0 ∨ v * f.scale > INT_MAX
    · simp [h1, h2]
    · simp only [h1, h2, if_false]
      cases s.hasFd <;> simp [get_set]

theorem C11_readback_keepalive (s : St) (v : Bool) :
    (setKeepalive s v).2 = .ok ∧ (setKeepalive s v).1.desired.keepalive = v := by
  unfold setKeepalive
  by_cases h1 : s.desired.keepalive = v
  · simp [h1]
  · simp only [h1, if_false]
    cases s.hasFd <;> simp

theorem applyOp_noFd (s : St) (op : Op) (h : NoFd s) :
    NoFd (applyOp s op) ∧ (applyOp s op).applied = s.applied ∧ (applyOp s op).snapshot = s.snapshot := by
  unfold NoFd at *
  cases op with
  | keepalive v =>
    simp only [applyOp, setKeepalive]
    split <;> simp_all
  | field f v =>
    simp only [applyOp, setField]
    split
    · simp_all
    · split <;> simp_all

theorem applyOps_noFd (ops : List Op) (s : St) (h : NoFd s) :
    NoFd (applyOps s ops) ∧ (applyOps s ops).applied = s.applied ∧ (applyOps s ops).snapshot = s.snapshot := by
  induction ops generalizing s with
  | nil => exact ⟨h, rfl, rfl⟩
  | cons op t ih =>
    obtain ⟨h1, h2, h3⟩ := applyOp_noFd s op h
    obtain ⟨i1, i2, i3⟩ := ih (applyOp s op) h1
    exact ⟨i1, by simpa [applyOps, h2] using i2, by simpa [applyOps, h3] using i3⟩

theorem set_set (o : Opts) (f : Field) (v : Int) : (o.set f v).set f v = o.set f v := by
  cases f <;> rfl

theorem applyOp_inForce (s : St) (op : Op) (h : InForce s) : InForce (applyOp s op) := by
  obtain ⟨hf, ha⟩ := h
  cases op with
  | keepalive v =>
    simp only [applyOp, setKeepalive]
    split
    · exact ⟨hf, ha⟩
    · simp [hf, ha, InForce]
  | field f v =>
    simp only [applyOp, setField]
    split
    · exact ⟨hf, ha⟩
    · split
      · exact ⟨hf, ha⟩
      · simp [hf, ha, InForce]

theorem applyOps_inForce (ops : List Op) (s : St) (h : InForce s) : InForce (applyOps s ops) := by
  induction ops generalizing s with
  | nil => exact h
  | cons op t ih => exact ih _ (applyOp_inForce s op h)

/-- establishment brings the current options into force whatever was set while connecting -/
theorem finishConnect_inForce (s : St) (snap : Opts) (h : s.snapshot = some snap) : InForce (finishConnect s) := by
  unfold finishConnect InForce
  simp only [h]
  by_cases he : optsEqual s.desired snap = true
  · have := (optsEqual_iff _ _).mp he
    simp [he, this]
  · simp [he]

/-- **TCP keepalive and user-timeout settings are in force on the underlying connection whether
they were given before, during or after establishment**: for all three op lists, the options applied
to the kernel socket equal the options XCM reports. -/
theorem C11_tcp_opts_in_force (pre during post : List Op) :
    InForce (lifecycle pre during post) := by
  unfold lifecycle
  apply applyOps_inForce
  have h0 : NoFd (applyOps {} pre) := (applyOps_noFd pre {} rfl).1
  have h1 : NoFd (beginConnect (applyOps {} pre)) := by simpa [NoFd, beginConnect] using h0
  obtain ⟨_, _, h3⟩ := applyOps_noFd during (beginConnect (applyOps {} pre)) h1
  exact finishConnect_inForce _ (applyOps {} pre).desired (by rw [h3]; rfl)

/-- accepted connections start with the options in force, and keep them in force -/
theorem C11_tcp_opts_in_force_accepted (pre post : List Op) :
    InForce (applyOps (accept (applyOps {} pre)) post) := by
  apply applyOps_inForce
  simp [accept, InForce]

/-- non-vacuity: user_timeout changed while connecting (the F-11a scenario) and keepalive after -/
example : (lifecycle [.field .time 5] [.field .userTimeout 7] [.keepalive false]).applied
    = some { keepalive := false, time := 5, interval := 1, count := 3, userTimeout := 7 } := by decide

end XcmModel.C11
