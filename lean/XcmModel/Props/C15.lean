import XcmModel.Generated.Globals
/-!
# C15 — threads using different sockets do not interfere: the lock discipline of the library's process-wide state

`Generated/Globals.lean` is regenerated from the library sources on every run (extract/ext_globals.py): every mutable
`static` variable of the library - and every field of the structures that live behind one (the always-readable
descriptor pool, the TLS context cache) - with each of its access sites and how that site is protected.

* `C15_every_access_protected`: every access site is: part of library initialisation (constructors, before any thread
  can use the library), the operand of an atomic builtin, inside the critical section of a lock, a read of a variable
  that is written during initialisation only, an access to an object the function has just allocated, the
  lock/unlock operation itself - or one of the two sites listed in `pinnedReads`: reads, after the lock was released, of
  a field that never changes after creation (`fd`, `ssl_ctx`) of an entry on which the reading thread holds a counted
  reference, so that no other thread can release it.
* `C15_one_lock_per_variable`: all locked sites of a variable use the same lock.
* `C15_no_split_read_modify_write`: no shared variable is updated by a separate atomic load and atomic store.
-/
namespace XcmModel.C15
open XcmModel

/-- reads of an immutable field of a reference-counted entry pinned by the calling thread -/
def pinnedReads : List (String × String) :=
  [("active_fd.fd", "active_fd_get"), ("cache_entry.ssl_ctx", "ctx_store_get_ctx")]

/-- protection kinds of the generated table: 0 none, 1 init, 2 atomic, 3 lock, 4 ro-after-init, 5 fresh, 6 lockop -/
def isProtected (k : Nat) : Bool := k != 0

def siteOk (s : String × String × String × Nat × Nat × String) : Bool :=
  isProtected s.2.2.2.2.1 || pinnedReads.contains (s.2.1, s.2.2.1)

theorem C15_every_access_protected : Generated.globalSites.all siteOk = true := by decide

def locksOf (v : String) : List String :=
  (Generated.globalSites.filter (fun s => s.2.1 == v && s.2.2.2.2.1 == 3)).map (·.2.2.2.2.2)

def oneLock (v : String) : Bool :=
  match locksOf v with
  | [] => true
  | l :: t => t.all (· == l)

theorem C15_one_lock_per_variable : (Generated.globalSites.map (·.2.1)).all oneLock = true := by decide

theorem C15_no_split_read_modify_write : Generated.nonAtomicRmw = [] := by decide

/-- the table is not empty and covers the shared state the property names: socket ids, the shared wake-up descriptors,
the TLS context cache, the transport registry, the logging switch -/
theorem C15_table_covers :
    ["next_id", "active_fds", "cache", "protos", "console_enabled"].all
      (fun v => Generated.globalSites.any (fun s => s.2.1 == v)) = true := by decide

end XcmModel.C15
