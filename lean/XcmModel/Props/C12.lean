import XcmModel.Addr
import XcmModel.Lemmas.Libc
/-!
# C12 — address strings: make and parse are exact inverses with honest bounds

Environment: `inet_pton`/`inet_ntop` enter through `IpText`; the round-trip theorem assumes
`IpText.Laws` (validated against glibc by the `unit_addr` harness, and *proved* for the
executable IPv4 instance in `ip4_roundtrip`).  Strings are C strings (no NUL).
-/
namespace XcmModel.C12
open XcmModel XcmModel.Addr XcmModel.Libc

/-! ### make -/

theorem snprintf_fits {cap : Nat} {str : Bytes} (h : str.length < cap) :
    (snprintf cap str).1 = str ++ [0] := by
  have hc : cap ≠ 0 := by omega
  simp only [snprintf, hc, if_false]
  rw [List.take_of_length_le (by omega)]

theorem snprintf_len_le (cap : Nat) (str : Bytes) : (snprintf cap str).1.length ≤ cap := by
  simp only [snprintf]
  split
  · simp
  · simp only [List.length_append, List.length_take, List.length_singleton]; omega

/-- **C12 (make)**: `xcm_addr_make_<proto>` either stores the complete NUL-terminated
address within `cap` bytes and succeeds, or fails with ENAMETOOLONG having touched at most
`cap` bytes; success with a truncated string is impossible, and it fails only when the
address really does not fit. -/
theorem C12_make_total (ip : IpText) (proto : Bytes) (h : Host) (port cap : Nat) :
    match hostPortMake ip proto h port cap with
    | .ok buf => buf = hostPortStr ip proto h port ++ [0] ∧ buf.length ≤ cap
    | .toolong w => (hostPortStr ip proto h port).length + 1 > cap ∧ w ≤ cap
    | .inval => False := by
  simp only [hostPortMake]
  by_cases hc : (snprintf cap (hostPortStr ip proto h port)).2 ≥ cap
  · simp only [hc, if_true]
    exact ⟨by simp only [snprintf] at hc; omega, snprintf_len_le _ _⟩
  · simp only [hc, if_false]
    have hlt : (hostPortStr ip proto h port).length < cap := by simp only [snprintf] at hc; omega
    rw [snprintf_fits hlt]
    exact ⟨rfl, by simp only [List.length_append, List.length_singleton]; omega⟩

theorem C12_make_ux_total (proto name : Bytes) (cap : Nat) :
    match uxMake proto name cap with
    | .ok buf => buf = proto ++ [colon] ++ name ++ [0] ∧ buf.length ≤ cap ∧
        name.length ≤ Generated.UX_NAME_MAX
    | .toolong w => (proto ++ [colon] ++ name).length + 1 > cap ∧ w ≤ cap
    | .inval => name.length > Generated.UX_NAME_MAX := by
  simp only [uxMake]
  by_cases hn : name.length > Generated.UNIX_PATH_MAX - 1
  · simp only [hn, if_true]; exact hn
  · simp only [hn, if_false]
    by_cases hc : (snprintf cap (proto ++ [colon] ++ name)).2 ≥ cap
    · simp only [hc, if_true]
      exact ⟨by simp only [snprintf] at hc; omega, snprintf_len_le _ _⟩
    · simp only [hc, if_false]
      have hlt : (proto ++ [colon] ++ name).length < cap := by simp only [snprintf] at hc; omega
      rw [snprintf_fits hlt]
      refine ⟨rfl, by simp only [List.length_append, List.length_singleton] at *; omega, ?_⟩
      simp only [Generated.UNIX_PATH_MAX, Generated.UX_NAME_MAX] at *; omega

/-! ### strchr / strrchr -/

theorem idxOf_some {c : UInt8} {s : Bytes} {i : Nat} (h : idxOf c s = some i) :
    s = s.take i ++ c :: s.drop (i + 1) ∧ c ∉ s.take i ∧ i < s.length := by
  induction s generalizing i with
  | nil => simp [idxOf] at h
  | cons x t ih =>
    simp only [idxOf] at h
    split at h
    · rename_i hx; simp only [Option.some.injEq] at h; subst h; subst hx; simp
    · rename_i hx
      cases hi : idxOf c t with
      | none => simp [hi] at h
      | some j =>
        simp only [hi, Option.map_some, Option.some.injEq] at h; subst h
        obtain ⟨h1, h2, h3⟩ := ih hi
        refine ⟨?_, ?_, by simp; omega⟩
        · simp only [List.take_succ_cons, List.drop_succ_cons, List.cons_append]; rw [← h1]
        · simp only [List.take_succ_cons, List.mem_cons, not_or]
          exact ⟨fun e => hx e.symm, h2⟩

theorem idxOf_append_of_not_mem {c : UInt8} (p rest : Bytes) (h : c ∉ p) :
    idxOf c (p ++ c :: rest) = some p.length := by
  induction p with
  | nil => simp [idxOf]
  | cons x t ih =>
    simp only [List.mem_cons, not_or] at h
    have hx : ¬ x = c := fun e => h.1 e.symm
    simp [idxOf, hx, ih h.2]

theorem lastIdxOf_none {c : UInt8} {s : Bytes} (h : lastIdxOf c s = none) : c ∉ s := by
  induction s with
  | nil => simp
  | cons x t ih =>
    simp only [lastIdxOf] at h
    cases hl : lastIdxOf c t with
    | some j => simp [hl] at h
    | none =>
      simp only [hl] at h
      split at h
      · cases h
      · rename_i hx
        simp only [List.mem_cons, not_or]
        exact ⟨fun e => hx e.symm, ih hl⟩

theorem lastIdxOf_of_not_mem {c : UInt8} {s : Bytes} (h : c ∉ s) : lastIdxOf c s = none := by
  induction s with
  | nil => rfl
  | cons x t ih =>
    simp only [List.mem_cons, not_or] at h
    have hx : ¬ x = c := fun e => h.1 e.symm
    simp [lastIdxOf, ih h.2, hx]

theorem lastIdxOf_some {c : UInt8} {s : Bytes} {i : Nat} (h : lastIdxOf c s = some i) :
    s = s.take i ++ c :: s.drop (i + 1) ∧ c ∉ s.drop (i + 1) ∧ i < s.length := by
  induction s generalizing i with
  | nil => simp [lastIdxOf] at h
  | cons x t ih =>
    simp only [lastIdxOf] at h
    cases hl : lastIdxOf c t with
    | some j =>
      simp only [hl, Option.some.injEq] at h; subst h
      obtain ⟨h1, h2, h3⟩ := ih hl
      refine ⟨?_, by simpa using h2, by simp; omega⟩
      simp only [List.take_succ_cons, List.drop_succ_cons, List.cons_append]; rw [← h1]
    | none =>
      simp only [hl] at h
      split at h
      · rename_i hx; simp only [Option.some.injEq] at h; subst h; subst hx
        exact ⟨by simp, by simpa using lastIdxOf_none hl, by simp⟩
      · cases h

theorem lastIdxOf_append {c : UInt8} (p rest : Bytes) (h : c ∉ rest) :
    lastIdxOf c (p ++ c :: rest) = some p.length := by
  induction p with
  | nil => simp [lastIdxOf, lastIdxOf_of_not_mem h]
  | cons x t ih => simp [lastIdxOf, ih]

/-! ### the port field -/

theorem takeWhile_eq_self_of_length {p : UInt8 → Bool} {s : Bytes}
    (h : (s.takeWhile p).length = s.length) : s.takeWhile p = s := by
  induction s with
  | nil => rfl
  | cons x t ih =>
    simp only [List.takeWhile_cons] at h ⊢
    split
    · rename_i hx; simp only [hx, if_true, List.length_cons] at h
      rw [ih (by omega)]
    · rename_i hx; simp [hx] at h

theorem mem_takeWhile_imp {p : UInt8 → Bool} {s : Bytes} {x : UInt8} (h : x ∈ s.takeWhile p) :
    p x = true := by
  have := List.all_takeWhile (l := s) (p := p)
  rw [List.all_eq_true] at this
  exact this x h

/-- **port syntax**: the accepted port field is a non-empty string of decimal digits whose
value is the reported port, and it is at most 65535 (no sign, no blank, no wrap-around) -/
theorem C12_port_syntax {p : Bytes} {v : Nat} (h : portParse p = some v) :
    p ≠ [] ∧ (∀ c ∈ p, isDigit c = true) ∧ digitsVal p = v ∧ v ≤ 65535 := by
  simp only [portParse] at h
  cases p with
  | nil => simp at h
  | cons d t =>
    simp only [List.head?_cons] at h
    split at h
    · cases h
    · rename_i hd
      have hd' : isDigit d = true := by simpa using hd
      generalize hst : strtol (d :: t) = st at h
      obtain ⟨val, n⟩ := st
      simp only at h
      split at h; · cases h
      rename_i hn
      split at h; · cases h
      rename_i hr
      simp only [Option.some.injEq] at h
      -- shape of strtol on a string that starts with a digit
      have hs : isSpace d = false := isDigit_not_space hd'
      have hsg := isDigit_ne_sign hd'
      have h2 : (d :: t).dropWhile isSpace = d :: t := by simp [hs]
      have h1 : (d :: t).takeWhile isSpace = [] := by simp [hs]
      have h3 : strtolSign (d :: t) = (false, d :: t, 0) := by
        simp only [strtolSign]
        split
        · rename_i heq; simp only [List.cons.injEq] at heq; exact absurd heq.1 hsg.1
        · rename_i heq; simp only [List.cons.injEq] at heq; exact absurd heq.1 hsg.2
        · rfl
      simp only [strtol, h1, h2, h3] at hst
      have hne : ((d :: t).takeWhile isDigit).isEmpty = false := by simp [hd']
      simp only [hne, Bool.false_eq_true, if_false, Prod.mk.injEq, List.length_nil, Nat.zero_add] at hst
      obtain ⟨hval, hlen⟩ := hst
      have hn' : n = (d :: t).length := by simpa using hn
      have hall : (d :: t).takeWhile isDigit = d :: t :=
        takeWhile_eq_self_of_length (by omega)
      rw [hall] at hval
      refine ⟨by simp, ?_, ?_, ?_⟩
      · intro c hc; rw [← hall] at hc; exact mem_takeWhile_imp hc
      · simp only [strtolVal, Bool.false_eq_true, if_false] at hval
        have hr' : ¬ (val < 0 ∨ val > 65535) := by simpa using hr
        split at hval
        · rw [← hval] at hr'; simp only [LONG_MAX] at hr'; omega
        · omega
      · have hr' : ¬ (val < 0 ∨ val > 65535) := by simpa using hr
        omega

theorem portParse_digits (port : Nat) (hp : port ≤ 65535) : portParse (natToDec port) = some port := by
  have hne := natToDec_ne_nil port
  have hd := natToDec_digits port
  obtain ⟨d, t, hdt⟩ := List.exists_cons_of_ne_nil hne
  have hst := strtol_digits (natToDec port) [] hne hd (by simp)
  rw [List.append_nil, digitsVal_natToDec] at hst
  have : ¬ port > LONG_MAX := by simp only [LONG_MAX]; omega
  simp only [this, if_false] at hst
  simp only [portParse, hdt, List.head?_cons]
  have hdd : isDigit d = true := hd d (by rw [hdt]; simp)
  rw [← hdt, hst]
  simp only [hdd, Bool.not_true, Bool.false_eq_true, if_false, ne_eq, not_true_eq_false]
  have h1 : ¬ ((port : Int) < 0 ∨ (port : Int) > 65535) := by omega
  simp [h1]

/-! ### soundness of the parsers -/

theorem protoAddrParse_ok {s : Bytes} {pc ac : Nat} {p rest : Bytes}
    (h : protoAddrParse s pc ac = .ok (p, rest)) :
    s = p ++ colon :: rest ∧ colon ∉ p ∧ s.length ≤ Generated.XCM_ADDR_MAX ∧ hasSpace s = false ∧
      p.length ≤ Generated.XCM_ADDR_MAX_PROTO_LEN ∧ p.length < pc ∧ rest.length < ac := by
  simp only [protoAddrParse] at h
  split at h; · cases h
  rename_i h0
  simp only [Bool.or_eq_true, decide_eq_true_eq, not_or] at h0
  cases hi : idxOf colon s with
  | none => simp [hi] at h
  | some i =>
    simp only [hi] at h
    split at h; · cases h
    split at h; · cases h
    split at h; · cases h
    rename_i h1 h2 h3
    simp only [Except.ok.injEq, Prod.mk.injEq] at h
    obtain ⟨rfl, rfl⟩ := h
    obtain ⟨e1, e2, e3⟩ := idxOf_some hi
    have hl : (s.take i).length = i := by simp; omega
    refine ⟨e1, e2, by omega, by simpa using h0.2, by omega, by omega, by omega⟩

/-- the documented shape of a host:port address, as a predicate on the *string* -/
structure HostPortSyntax (ip : IpText) (proto s : Bytes) (h : Host) (port : Nat) : Prop where
  split : ∃ hostTxt portTxt, s = proto ++ colon :: (hostTxt ++ colon :: portTxt) ∧
    portTxt ≠ [] ∧ (∀ c ∈ portTxt, isDigit c = true) ∧ digitsVal portTxt = port ∧
    1 ≤ hostTxt.length ∧ hostTxt.length ≤ Generated.XCM_ADDR_MAX_HOST_LEN ∧
    hostParse ip hostTxt = some h
  port_range : port ≤ 65535
  total_len : s.length ≤ Generated.XCM_ADDR_MAX
  no_space : hasSpace s = false

/-- **C12 (parse, soundness)**: whatever `xcm_addr_parse_<proto>` accepts is inside the
documented syntax: `<proto>:<host>:<port>` with a plain decimal port in 0..65535, a host of
1..512 characters that `host_parse` recognises, at most `XCM_ADDR_MAX` characters, no
white space. -/
theorem C12_parse_sound (ip : IpText) (proto s : Bytes) (h : Host) (port : Nat)
    (hp : hostPortParse ip proto s = .ok (h, port)) : HostPortSyntax ip proto s h port := by
  simp only [hostPortParse] at hp
  cases hpa : protoAddrParse s (Generated.XCM_ADDR_MAX_PROTO_LEN + 1) (Generated.XCM_ADDR_MAX + 1) with
  | error e => simp [hpa] at hp
  | ok r =>
    obtain ⟨p, paddr⟩ := r
    simp only [hpa] at hp
    split at hp; · cases hp
    rename_i hpe
    have hpe' : p = proto := by simpa using hpe
    subst hpe'
    cases hl : lastIdxOf colon paddr with
    | none => simp [hl] at hp
    | some i =>
      simp only [hl] at hp
      cases hport : portParse (paddr.drop (i + 1)) with
      | none => simp [hport] at hp
      | some v =>
        simp only [hport] at hp
        split at hp; · cases hp
        rename_i hi
        cases hh : hostParse ip (paddr.take i) with
        | none => simp [hh] at hp
        | some h' =>
          simp only [hh, Except.ok.injEq, Prod.mk.injEq] at hp
          obtain ⟨rfl, rfl⟩ := hp
          obtain ⟨e1, _, e3, e4, _, _, _⟩ := protoAddrParse_ok hpa
          obtain ⟨f1, _, f3⟩ := lastIdxOf_some hl
          obtain ⟨g1, g2, g3, g4⟩ := C12_port_syntax hport
          have hi' : ¬ (i > Generated.XCM_ADDR_MAX_HOST_LEN ∨ i = 0) := by simpa using hi
          have hlen : (paddr.take i).length = i := by simp; omega
          exact ⟨⟨paddr.take i, paddr.drop (i + 1), by rw [← f1]; exact e1, g1, g2, g3,
            by omega, by omega, hh⟩, g4, e3, e4⟩

theorem C12_parse_ux_sound (proto s name : Bytes) (cap : Nat)
    (hp : parseUx proto s cap = .ok name) :
    s = proto ++ colon :: name ∧ 1 ≤ name.length ∧ name.length ≤ Generated.UX_NAME_MAX ∧
      name.length < cap ∧ hasSpace s = false := by
  simp only [parseUx] at hp
  cases hpa : protoAddrParse s (Generated.XCM_ADDR_MAX_PROTO_LEN + 1) (Generated.XCM_ADDR_MAX + 1) with
  | error e => simp [hpa] at hp
  | ok r =>
    obtain ⟨p, nm⟩ := r
    simp only [hpa] at hp
    split at hp; · cases hp
    rename_i h1
    split at hp; · cases hp
    rename_i h2
    simp only [Except.ok.injEq] at hp; subst hp
    simp only [Bool.or_eq_true, bne_iff_ne, ne_eq, Decidable.not_not, decide_eq_true_eq, beq_iff_eq,
      not_or] at h1
    obtain ⟨⟨rfl, h1b⟩, h1c⟩ := h1
    obtain ⟨e1, _, _, e4, _, _, _⟩ := protoAddrParse_ok hpa
    exact ⟨e1, by omega, by omega, by omega, e4⟩

/-! ### round trip -/

/-- what the theorems assume about the C library's address text conversion -/
structure IpLaws (ip : IpText) : Prop where
  rt4 : ∀ a, a < 2 ^ 32 → ip.pton4 (ip.ntop4 a) = some a
  shape4 : ∀ a, a < 2 ^ 32 → ip.ntop4 a ≠ [] ∧ (ip.ntop4 a).length ≤ 15 ∧
    (∀ c ∈ ip.ntop4 a, isDigit c = true ∨ c = 46)
  rt6 : ∀ a, a.length = 16 → ip.pton6 (ip.ntop6 a) = some a
  shape6 : ∀ a, a.length = 16 → (ip.ntop6 a).length ≤ 45 ∧ ip.ntop6 a ≠ star ∧
    (∀ c ∈ ip.ntop6 a, isSpace c = false)

/-- hosts that `xcm_addr_make_*` is meant to be given -/
def HostWF (ip : IpText) : Host → Prop
  | .ip4 a => a < 2 ^ 32
  | .ip6 a => a.length = 16
  | .name s => dnsValid s = true ∧ ip.pton4 s = none ∧ (∀ c ∈ s, isLabelChar c = true ∨ c = 46)

theorem isDigit_props {c : UInt8} (h : isDigit c = true ∨ c = 46) :
    c ≠ colon ∧ isSpace c = false ∧ c ≠ 91 ∧ c ≠ 42 := by
  rcases h with h | rfl
  · simp only [isDigit, Bool.and_eq_true, decide_eq_true_eq, UInt8.le_iff_toNat_le] at h
    have h1 : 48 ≤ c.toNat := h.1
    have h2 : c.toNat ≤ 57 := h.2
    refine ⟨?_, isDigit_not_space (by simp [isDigit, UInt8.le_iff_toNat_le]; exact ⟨h1, h2⟩), ?_, ?_⟩ <;>
      (intro e; subst e; simp [colon] at h2 h1)
  · decide

theorem isLabel_props {c : UInt8} (h : isLabelChar c = true ∨ c = 46) :
    c ≠ colon ∧ isSpace c = false ∧ c ≠ 91 ∧ c ≠ 42 := by
  rcases h with h | rfl
  · refine ⟨?_, ?_, ?_, ?_⟩
    · intro e; subst e; revert h; decide
    · cases hs : isSpace c
      · rfl
      · exfalso
        simp only [isSpace, Bool.or_eq_true, beq_iff_eq, Bool.and_eq_true, decide_eq_true_eq,
          UInt8.le_iff_toNat_le] at hs
        simp only [isLabelChar, Bool.or_eq_true, Bool.and_eq_true, decide_eq_true_eq, beq_iff_eq,
          UInt8.le_iff_toNat_le] at h
        rcases hs with rfl | ⟨_, h13⟩
        · revert h; decide
        · have h13' : c.toNat ≤ 13 := h13
          rcases h with (((⟨h97, _⟩ | ⟨h65, _⟩) | ⟨h48, _⟩) | rfl) | rfl
          · have : 97 ≤ c.toNat := h97; omega
          · have : 65 ≤ c.toNat := h65; omega
          · have : 48 ≤ c.toNat := h48; omega
          · simp at h13'
          · simp at h13'
    · intro e; subst e; revert h; decide
    · intro e; subst e; revert h; decide
  · decide

/-- the text of a well-formed host: non-empty, bounded, free of ':' and blanks on the outside
of brackets, and recognised by `host_parse` as the same host -/
theorem hostParse_hostStr (ip : IpText) (hl : IpLaws ip) (h : Host) (hw : HostWF ip h) :
    hostParse ip (hostStr ip h) = some h ∧ 1 ≤ (hostStr ip h).length ∧
      (hostStr ip h).length ≤ 253 ∧ (∀ c ∈ hostStr ip h, isSpace c = false) := by
  cases h with
  | ip4 a =>
    have ha : a < 2 ^ 32 := hw
    obtain ⟨s1, s2, s3⟩ := hl.shape4 a ha
    obtain ⟨d, t, hdt⟩ := List.exists_cons_of_ne_nil s1
    have hd := isDigit_props (s3 d (by rw [hdt]; simp))
    refine ⟨?_, ?_, by simp only [hostStr]; omega, fun c hc => (isDigit_props (s3 c hc)).2.1⟩
    · simp only [hostStr, hostParse]
      have e1 : (ip.ntop4 a).isEmpty = false := by rw [hdt]; rfl
      have e2 : ¬ (ip.ntop4 a).head? = some 91 := by
        rw [hdt]; simp only [List.head?_cons, Option.some.injEq]; exact hd.2.2.1
      have e3 : ¬ ip.ntop4 a = star := by
        rw [hdt]; simp only [star, List.cons.injEq, not_and]; intro e; exact absurd e hd.2.2.2
      simp [e1, e2, e3, hl.rt4 a ha]
    · simp only [hostStr]; rw [hdt]; simp
  | ip6 a =>
    have ha : a.length = 16 := hw
    obtain ⟨s1, s2, s3⟩ := hl.shape6 a ha
    refine ⟨?_, by simp [hostStr], by simp [hostStr]; omega, ?_⟩
    · simp only [hostStr, hostParse]
      have e1 : ([91] ++ ip.ntop6 a ++ [93]).isEmpty = false := by simp
      have e2 : ([91] ++ ip.ntop6 a ++ [93]).head? = some 91 := by simp
      have e3 : ¬ (([91] ++ ip.ntop6 a ++ [93]).length < 2) := by simp
      have e4 : ([91] ++ ip.ntop6 a ++ [93]).getLast? = some 93 := List.getLast?_concat
      have e5 : (([91] ++ ip.ntop6 a ++ [93]).drop 1).dropLast = ip.ntop6 a := by
        simp [List.dropLast_concat]
      simp only [e1, e2, e3, e4, e5, s2, hl.rt6 a ha, Bool.false_eq_true, if_false, if_true,
        decide_false, Bool.or_false, ne_eq, not_true_eq_false]
    · intro c hc
      simp only [hostStr, List.mem_append, List.mem_singleton] at hc
      rcases hc with (rfl | hc) | rfl
      · decide
      · exact s3 c hc
      · decide
  | name s =>
    obtain ⟨hv, hp4, hch⟩ := hw
    have hlen : s.length ≤ 253 := by
      simp only [dnsValid] at hv
      split at hv
      · cases hv
      · simp only [Generated.DNS_MAX_LEN] at *; omega
    have hne : s ≠ [] := by
      intro e; subst e; simp [dnsValid] at hv
    obtain ⟨d, t, rfl⟩ := List.exists_cons_of_ne_nil hne
    have hd := isLabel_props (hch d (by simp))
    refine ⟨?_, by simp [hostStr], by simpa [hostStr] using hlen,
      fun c hc => (isLabel_props (hch c hc)).2.1⟩
    simp only [hostStr, hostParse]
    have e2 : ¬ (d :: t).head? = some 91 := by
      simp only [List.head?_cons, Option.some.injEq]; exact hd.2.2.1
    have e3 : ¬ (d :: t) = star := by
      simp only [star, List.cons.injEq, not_and]; intro e; exact absurd e hd.2.2.2
    have e0 : (d :: t).isEmpty = false := rfl
    simp only [e0, Bool.false_eq_true, if_false, e2, e3, hp4, hv, if_true]

theorem proto_props {p : Bytes} (hp : p ∈ hostPortProtos ++ uxProtos) :
    colon ∉ p ∧ p.length ≤ 4 ∧ (∀ c ∈ p, isSpace c = false) := by
  simp only [hostPortProtos, uxProtos, List.cons_append, List.nil_append, List.mem_cons,
    List.not_mem_nil, or_false] at hp
  rcases hp with rfl | rfl | rfl | rfl | rfl | rfl | rfl | rfl <;> decide

theorem any_false_of_forall {p : UInt8 → Bool} {s : Bytes} (h : ∀ c ∈ s, p c = false) :
    s.any p = false := by
  rw [List.any_eq_false]; intro c hc; simp [h c hc]

/-- **C12 (round trip)**: for every transport, every well-formed host and every port in
0..65535, parsing the address that `make` produces yields the original components. -/
theorem C12_roundtrip (ip : IpText) (hl : IpLaws ip) (proto : Bytes) (hp : proto ∈ hostPortProtos)
    (h : Host) (hw : HostWF ip h) (port : Nat) (hport : port ≤ 65535) :
    hostPortParse ip proto (hostPortStr ip proto h port) = .ok (h, port) := by
  obtain ⟨hh1, hh2, hh3, hh4⟩ := hostParse_hostStr ip hl h hw
  obtain ⟨p1, p2, p3⟩ := proto_props (List.mem_append_left _ hp)
  have hdig := natToDec_digits port
  have hdl : (natToDec port).length ≤ 5 := by
    have := decRev_length (port + 1) port 5 (by omega) (by omega) (by omega)
    simpa [natToDec] using this
  have hnc : colon ∉ natToDec port := fun hc => (isDigit_props (Or.inl (hdig _ hc))).1 rfl
  -- shape of the string
  have hs : hostPortStr ip proto h port = proto ++ colon :: (hostStr ip h ++ colon :: natToDec port) := by
    simp [hostPortStr]
  have hlen : (hostPortStr ip proto h port).length ≤ Generated.XCM_ADDR_MAX := by
    rw [hs]; simp only [List.length_append, List.length_cons, Generated.XCM_ADDR_MAX]; omega
  have hsp : hasSpace (hostPortStr ip proto h port) = false := by
    rw [hs]
    apply any_false_of_forall
    intro c hc
    simp only [List.mem_append, List.mem_cons] at hc
    rcases hc with hc | rfl | hc | rfl | hc
    · exact p3 c hc
    · decide
    · exact hh4 c hc
    · decide
    · exact isDigit_not_space (hdig c hc)
  have hpa : protoAddrParse (hostPortStr ip proto h port) (Generated.XCM_ADDR_MAX_PROTO_LEN + 1)
      (Generated.XCM_ADDR_MAX + 1) = .ok (proto, hostStr ip h ++ colon :: natToDec port) := by
    simp only [protoAddrParse]
    have c1 : ¬ ((hostPortStr ip proto h port).length > Generated.XCM_ADDR_MAX ∨
        hasSpace (hostPortStr ip proto h port) = true) := by
      rw [hsp]; simp; omega
    simp only [Bool.or_eq_true, decide_eq_true_eq, c1, if_false]
    rw [hs, idxOf_append_of_not_mem _ _ p1]
    simp only [Generated.XCM_ADDR_MAX_PROTO_LEN, Generated.XCM_ADDR_MAX]
    have c2 : ¬ proto.length > 32 := by omega
    have c3 : ¬ proto.length ≥ 32 + 1 := by omega
    simp only [c2, c3, if_false, List.take_left', List.drop_left']
    have c4 : ¬ ((proto ++ colon :: (hostStr ip h ++ colon :: natToDec port)).drop (proto.length + 1)).length
        ≥ 578 + 1 := by
      rw [show proto ++ colon :: (hostStr ip h ++ colon :: natToDec port)
          = (proto ++ [colon]) ++ (hostStr ip h ++ colon :: natToDec port) by simp]
      rw [List.drop_left' (by simp)]
      simp only [List.length_append, List.length_cons]; omega
    simp only [c4, if_false]
    have t1 : (proto ++ colon :: (hostStr ip h ++ colon :: natToDec port)).take proto.length = proto :=
      List.take_left' rfl
    have t2 : (proto ++ colon :: (hostStr ip h ++ colon :: natToDec port)).drop (proto.length + 1)
        = hostStr ip h ++ colon :: natToDec port := by
      rw [show proto ++ colon :: (hostStr ip h ++ colon :: natToDec port)
          = (proto ++ [colon]) ++ (hostStr ip h ++ colon :: natToDec port) by simp]
      exact List.drop_left' (by simp)
    rw [t2]
  simp only [hostPortParse, hpa, ne_eq, not_true_eq_false, if_false, lastIdxOf_append _ _ hnc]
  have e1 : (hostStr ip h ++ colon :: natToDec port).drop ((hostStr ip h).length + 1) = natToDec port := by
    rw [show hostStr ip h ++ colon :: natToDec port = (hostStr ip h ++ [colon]) ++ natToDec port by simp]
    exact List.drop_left' (by simp)
  have e2 : (hostStr ip h ++ colon :: natToDec port).take (hostStr ip h).length = hostStr ip h :=
    List.take_left' rfl
  rw [e1, portParse_digits port hport, e2, hh1]
  have c5 : ¬ (hostStr ip h).length > Generated.XCM_ADDR_MAX_HOST_LEN := by
    simp only [Generated.XCM_ADDR_MAX_HOST_LEN]; omega
  have c6 : ((hostStr ip h).length == 0) = false := by
    simp only [beq_eq_false_iff_ne, ne_eq]; omega
  simp only [c5, c6, decide_false, Bool.or_false, Bool.false_eq_true, if_false]

theorem C12_roundtrip_ux (proto : Bytes) (hp : proto ∈ uxProtos) (name : Bytes) (cap : Nat)
    (h1 : 1 ≤ name.length) (h2 : name.length ≤ Generated.UX_NAME_MAX) (h3 : name.length < cap)
    (hsp : ∀ c ∈ name, isSpace c = false) :
    parseUx proto (proto ++ [colon] ++ name) cap = .ok name := by
  obtain ⟨p1, p2, p3⟩ := proto_props (List.mem_append_right _ hp)
  have hs : proto ++ [colon] ++ name = proto ++ colon :: name := by simp
  have hsp' : hasSpace (proto ++ colon :: name) = false := by
    apply any_false_of_forall
    intro c hc
    simp only [List.mem_append, List.mem_cons] at hc
    rcases hc with hc | rfl | hc
    · exact p3 c hc
    · decide
    · exact hsp c hc
  simp only [Generated.UX_NAME_MAX] at h2
  have hpa : protoAddrParse (proto ++ colon :: name) (Generated.XCM_ADDR_MAX_PROTO_LEN + 1)
      (Generated.XCM_ADDR_MAX + 1) = .ok (proto, name) := by
    simp only [protoAddrParse, hsp']
    have c1 : ¬ (proto ++ colon :: name).length > Generated.XCM_ADDR_MAX := by
      simp only [List.length_append, List.length_cons, Generated.XCM_ADDR_MAX]; omega
    simp only [c1, decide_false, Bool.or_false, Bool.false_eq_true, if_false,
      idxOf_append_of_not_mem _ _ p1]
    simp only [Generated.XCM_ADDR_MAX_PROTO_LEN, Generated.XCM_ADDR_MAX]
    have c2 : ¬ proto.length > 32 := by omega
    have c3 : ¬ proto.length ≥ 32 + 1 := by omega
    have e1 : (proto ++ colon :: name).drop (proto.length + 1) = name := by
      rw [show proto ++ colon :: name = (proto ++ [colon]) ++ name by simp]
      exact List.drop_left' (by simp)
    have c4 : ¬ name.length ≥ 578 + 1 := by omega
    have t1 : (proto ++ colon :: name).take proto.length = proto := List.take_left' rfl
    simp only [c2, c3, if_false, e1, c4, t1]
  rw [hs]
  simp only [parseUx, hpa, Generated.UX_NAME_MAX]
  have c5 : ¬ name.length > 107 := by omega
  have c6 : ¬ name.length = 0 := by omega
  have c7 : ¬ name.length ≥ cap := by omega
  simp [c5, c6, c7]

/-! ### is_valid agrees with the parsers -/

theorem parseProto_of_ok {s p rest : Bytes}
    (h : protoAddrParse s (Generated.XCM_ADDR_MAX_PROTO_LEN + 1) (Generated.XCM_ADDR_MAX + 1) = .ok (p, rest))
    (hp : p.length ≤ 4) : parseProto s Generated.XCM_ADDR_MAX_PROTO_LEN = .ok p := by
  simp only [parseProto, protoAddrParse] at h ⊢
  split at h; · cases h
  rename_i h0
  simp only [h0, if_false]
  cases hi : idxOf colon s with
  | none => simp [hi] at h
  | some i =>
    simp only [hi] at h ⊢
    split at h; · cases h
    split at h; · cases h
    split at h; · cases h
    rename_i h1 h2 h3
    simp only [Except.ok.injEq, Prod.mk.injEq] at h
    obtain ⟨rfl, rfl⟩ := h
    have hil : i ≤ s.length := by
      have := (idxOf_some hi).2.2; omega
    have : (s.take i).length = i := by simp; omega
    have c : ¬ i ≥ Generated.XCM_ADDR_MAX_PROTO_LEN := by
      simp only [Generated.XCM_ADDR_MAX_PROTO_LEN]; omega
    simp only [h1, c, h3, if_false, Except.map]
    simp

theorem parseProto_ok_iff {s p : Bytes} (h : parseProto s Generated.XCM_ADDR_MAX_PROTO_LEN = .ok p) :
    ∃ rest, protoAddrParse s (Generated.XCM_ADDR_MAX_PROTO_LEN + 1) (Generated.XCM_ADDR_MAX + 1) = .ok (p, rest) := by
  simp only [parseProto, protoAddrParse] at h ⊢
  split at h; · cases h
  rename_i h0
  simp only [h0, if_false]
  cases hi : idxOf colon s with
  | none => simp [hi, Except.map] at h
  | some i =>
    simp only [hi] at h ⊢
    split at h; · simp [Except.map] at h
    split at h; · simp [Except.map] at h
    split at h; · simp [Except.map] at h
    rename_i h1 h2 h3
    simp only [Except.map, Except.ok.injEq] at h
    subst h
    have c : ¬ i ≥ Generated.XCM_ADDR_MAX_PROTO_LEN + 1 := by omega
    simp only [h1, c, h3, if_false]
    exact ⟨_, rfl⟩

/-- **C12 (is_valid)**: `xcm_addr_is_valid(s)` holds exactly when the parser of one of the
eight transports accepts `s`. -/
theorem C12_is_valid_agrees (ip : IpText) (s : Bytes) :
    isValid ip s = true ↔
      (∃ p ∈ hostPortProtos, ∃ r, hostPortParse ip p s = .ok r) ∨
      (∃ p ∈ uxProtos, ∃ n, parseUx p s (Generated.XCM_ADDR_MAX + 1) = .ok n) := by
  constructor
  · intro h
    simp only [isValid] at h
    cases hpp : parseProto s Generated.XCM_ADDR_MAX_PROTO_LEN with
    | error e => simp [hpp] at h
    | ok p =>
      simp only [hpp] at h
      split at h
      · rename_i hc
        left
        refine ⟨p, by simpa using hc, ?_⟩
        cases hr : hostPortParse ip p s with
        | ok r => exact ⟨r, rfl⟩
        | error e => simp [hr] at h
      · split at h
        · rename_i _ hc
          right
          refine ⟨p, by simpa using hc, ?_⟩
          cases hr : parseUx p s (Generated.XCM_ADDR_MAX + 1) with
          | ok r => exact ⟨r, rfl⟩
          | error e => simp [hr] at h
        · cases h
  · rintro (⟨p, hp, r, hr⟩ | ⟨p, hp, n, hr⟩)
    · -- the proto found by is_valid is the one the parser checked
      have : ∃ rest, protoAddrParse s (Generated.XCM_ADDR_MAX_PROTO_LEN + 1) (Generated.XCM_ADDR_MAX + 1)
          = .ok (p, rest) := by
        simp only [hostPortParse] at hr
        cases hpa : protoAddrParse s (Generated.XCM_ADDR_MAX_PROTO_LEN + 1) (Generated.XCM_ADDR_MAX + 1) with
        | error e => simp [hpa] at hr
        | ok q =>
          obtain ⟨p', rest⟩ := q
          simp only [hpa] at hr
          split at hr; · cases hr
          rename_i hpe
          have : p' = p := by simpa using hpe
          subst this; exact ⟨rest, rfl⟩
      obtain ⟨rest, hpa⟩ := this
      have hpp := parseProto_of_ok hpa (proto_props (List.mem_append_left _ hp)).2.1
      simp only [isValid, hpp]
      have hc : hostPortProtos.contains p = true := by simpa using hp
      simp only [hc, if_true, hr]
    · have : ∃ rest, protoAddrParse s (Generated.XCM_ADDR_MAX_PROTO_LEN + 1) (Generated.XCM_ADDR_MAX + 1)
          = .ok (p, rest) := by
        simp only [parseUx] at hr
        cases hpa : protoAddrParse s (Generated.XCM_ADDR_MAX_PROTO_LEN + 1) (Generated.XCM_ADDR_MAX + 1) with
        | error e => simp [hpa] at hr
        | ok q =>
          obtain ⟨p', rest⟩ := q
          simp only [hpa] at hr
          split at hr; · cases hr
          rename_i h1
          have : p' = p := by
            by_cases e : p' = p
            · exact e
            · simp [e] at h1
          subst this; exact ⟨rest, rfl⟩
      obtain ⟨rest, hpa⟩ := this
      have hpp := parseProto_of_ok hpa (proto_props (List.mem_append_right _ hp)).2.1
      simp only [isValid, hpp]
      have hc1 : hostPortProtos.contains p = false := by
        simp only [uxProtos, List.mem_cons, List.not_mem_nil, or_false] at hp
        rcases hp with rfl | rfl <;> decide
      have hc2 : uxProtos.contains p = true := by simpa using hp
      simp only [hc1, Bool.false_eq_true, if_false, hc2, if_true, hr]

/-! ### the executable IPv4 instance satisfies the law (all 256 octet values by kernel
evaluation, lifted to all 2^32 addresses) -/

theorem octet_natToDec : ∀ k, k < 256 → octet (natToDec k) = some k := by
  decide +kernel

theorem natToDec_no_dot : ∀ k, k < 256 → (46 : UInt8) ∉ natToDec k := by
  decide +kernel

theorem splitOn_append {c : UInt8} (a rest : Bytes) (h : c ∉ a) :
    splitOn c (a ++ c :: rest) = a :: splitOn c rest := by
  induction a with
  | nil => simp [splitOn]
  | cons x t ih =>
    simp only [List.mem_cons, not_or] at h
    have hx : ¬ x = c := fun e => h.1 e.symm
    simp [splitOn, hx, ih h.2]

theorem splitOn_no_sep {c : UInt8} (a : Bytes) (h : c ∉ a) : splitOn c a = [a] := by
  induction a with
  | nil => rfl
  | cons x t ih =>
    simp only [List.mem_cons, not_or] at h
    have hx : ¬ x = c := fun e => h.1 e.symm
    simp [splitOn, hx, ih h.2]

theorem ip4_roundtrip (a : Nat) (h : a < 2 ^ 32) : pton4 (ntop4 a) = some a := by
  have h1 : a / 16777216 % 256 < 256 := Nat.mod_lt _ (by omega)
  have h2 : a / 65536 % 256 < 256 := Nat.mod_lt _ (by omega)
  have h3 : a / 256 % 256 < 256 := Nat.mod_lt _ (by omega)
  have h4 : a % 256 < 256 := Nat.mod_lt _ (by omega)
  have e : ntop4 a = natToDec (a / 16777216 % 256) ++ 46 :: (natToDec (a / 65536 % 256) ++ 46 ::
      (natToDec (a / 256 % 256) ++ 46 :: natToDec (a % 256))) := by
    simp [ntop4]
  simp only [pton4, e]
  rw [splitOn_append _ _ (natToDec_no_dot _ h1), splitOn_append _ _ (natToDec_no_dot _ h2),
    splitOn_append _ _ (natToDec_no_dot _ h3), splitOn_no_sep _ (natToDec_no_dot _ h4)]
  simp only [octet_natToDec _ h1, octet_natToDec _ h2, octet_natToDec _ h3, octet_natToDec _ h4]
  simp only [bind, Option.bind, pure]
  congr 1
  omega

def exIp : IpText :=
  { ntop4 := ntop4, pton4 := pton4, ntop6 := fun _ => [58, 58, 49],
    pton6 := fun t => if t = [58, 58, 49] then some (List.replicate 15 0 ++ [1]) else none }

instance : DecidableEq (Except PErr (Host × Nat)) := fun a b =>
  match a, b with
  | .ok x, .ok y => if h : x = y then isTrue (by rw [h]) else isFalse (fun e => h (by cases e; rfl))
  | .error x, .error y => if h : x = y then isTrue (by rw [h]) else isFalse (fun e => h (by cases e; rfl))
  | .ok _, .error _ => isFalse (fun e => by cases e)
  | .error _, .ok _ => isFalse (fun e => by cases e)

/-- non-vacuity: a concrete address of each kind makes, fits exactly, and parses back -/
example :
    let ip := exIp
    hostPortMake ip pTcp (.ip4 2130706433) 80 17 = .ok (pTcp ++ [58] ++ ntop4 2130706433 ++ [58, 56, 48, 0]) ∧
    hostPortMake ip pTcp (.ip4 2130706433) 80 16 = .toolong 16 ∧
    hostPortParse ip pTcp (pTcp ++ [58] ++ ntop4 2130706433 ++ [58, 56, 48]) = .ok (.ip4 2130706433, 80) ∧
    hostPortParse ip pTls (pTls ++ [58, 91, 58, 58, 49, 93, 58, 48]) = .ok (.ip6 (List.replicate 15 0 ++ [1]), 0) ∧
    hostPortParse ip pTcp (pTcp ++ [58, 97, 46, 98, 58, 52, 50, 57, 52, 57, 54, 55, 50, 57, 55]) = .error .inval := by
  decide

end XcmModel.C12
