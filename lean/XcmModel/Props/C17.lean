import XcmModel.Props.C01
import XcmModel.Lemmas.Ux
import XcmModel.Props.C02
/-!
# C17 — traffic counters tell the truth  (framing layer: tcp, tls)

All statements are about `Ep.init.run ops` for an arbitrary op list `ops` (any history of
sends, receives, finishes, arrivals, errors and closes under any lower-layer behaviour), or
about a single step from an arbitrary state.
-/
namespace XcmModel.C17
open XcmModel XcmModel.Wire XcmModel.Framing XcmModel.C01

/-! ### unconditional counter effects of the building blocks -/

theorem bufferReceive_cnt (s : St) (env : Env) (len : Nat) : (bufferReceive s env len).1.cnt = s.cnt := by
  simp only [bufferReceive]
  split
  · rfl
  · generalize lowerReceive env len = lr
    obtain ⟨env', res⟩ := lr
    cases res with
    | error x => cases x <;> rfl
    | ok got =>
      simp only
      split
      · rfl
      · split <;> rfl

/-- `buffer_msg` changes no counter except `from_lower`, which it increases by one message -/
def FromLowerStep (c' c : Cnts) : Prop :=
  c' = c ∨ ∃ n, c' = { c with fromLowerB := c.fromLowerB + n, fromLowerM := c.fromLowerM + 1 }

theorem bufferPayload_cnt (s : St) (env : Env) : FromLowerStep (bufferPayload s env).1.cnt s.cnt := by
  simp only [bufferPayload]
  split
  · exact Or.inl rfl
  · have h := bufferReceive_cnt s env (rd32 s.rbuf - (s.rbuf.length - Generated.MBUF_HDR_LEN))
    generalize bufferReceive s env (rd32 s.rbuf - (s.rbuf.length - Generated.MBUF_HDR_LEN)) = q at h
    split
    · exact Or.inr ⟨rd32 s.rbuf, by simp only [h]⟩
    · exact Or.inl h

theorem bufferMsg_cnt (s : St) (env : Env) : FromLowerStep (bufferMsg s env).1.cnt s.cnt := by
  simp only [bufferMsg]
  have hh : (bufferHdr s env).1.cnt = s.cnt := by
    simp only [bufferHdr]
    split
    · rfl
    · exact bufferReceive_cnt _ _ _
  generalize bufferHdr s env = p at hh
  split
  · rw [← hh]; exact bufferPayload_cnt _ _
  · exact Or.inl hh

/-- pointwise order on the eight counters -/
def Cnts.le (a b : Cnts) : Prop :=
  a.toAppB ≤ b.toAppB ∧ a.fromAppB ≤ b.fromAppB ∧ a.toLowerB ≤ b.toLowerB ∧ a.fromLowerB ≤ b.fromLowerB ∧
  a.toAppM ≤ b.toAppM ∧ a.fromAppM ≤ b.fromAppM ∧ a.toLowerM ≤ b.toLowerM ∧ a.fromLowerM ≤ b.fromLowerM

theorem Cnts.le_refl (a : Cnts) : Cnts.le a a := by simp [Cnts.le]

theorem Cnts.le_trans {a b c : Cnts} (h1 : Cnts.le a b) (h2 : Cnts.le b c) : Cnts.le a c := by
  simp only [Cnts.le] at *; omega

theorem tfs_mono (ans : List SAns) (s : St) (env : Env) :
    Cnts.le s.cnt (tryFinishSendAux ans s env).1.cnt := by
  obtain ⟨⟨a1, a2, a3, a4⟩, b1, b2, b3, b4⟩ := tfs_cnt_recv ans s env
  simp only [Cnts.le]; omega

theorem fromLowerStep_mono {c' c : Cnts} (h : FromLowerStep c' c) : Cnts.le c c' := by
  rcases h with rfl | ⟨n, rfl⟩
  · exact Cnts.le_refl _
  · simp [Cnts.le]

theorem send_mono (s : St) (env : Env) (m : Bytes) (ans : List SAns) :
    Cnts.le s.cnt (send s env m ans).1.cnt := by
  simp only [send]
  split; · exact Cnts.le_refl _
  split; · exact Cnts.le_refl _
  split; · exact Cnts.le_refl _
  simp only [tryFinishSend]
  have t1 := tfs_mono ans s env
  generalize tryFinishSendAux ans s env = r1 at t1
  obtain ⟨s1, env1, res1, ans1⟩ := r1
  cases res1 with
  | some e1 => exact t1
  | none =>
    simp only
    have t2 := fun s2 => tfs_mono ans1 s2 env1
    split
    · refine Cnts.le_trans t1 (Cnts.le_trans ?_ (t2 _)); simp [Cnts.le]
    · split <;> (refine Cnts.le_trans t1 (Cnts.le_trans ?_ (t2 _)); simp [Cnts.le])

theorem finish_mono (s : St) (env : Env) (ans : List SAns) (fin : Option Nat) :
    Cnts.le s.cnt (finish s env ans fin).1.cnt := by
  simp only [finish]
  split; · exact Cnts.le_refl _
  simp only [tryFinishSend]
  have t1 := tfs_mono ans s env
  generalize tryFinishSendAux ans s env = r1 at t1
  obtain ⟨s1, env1, res1, ans1⟩ := r1
  cases fin with
  | some e => exact t1
  | none => cases res1 <;> exact t1

theorem receive_mono (s : St) (env : Env) (cap : Nat) (ans : List SAns) :
    Cnts.le s.cnt (receive s env cap ans).1.cnt := by
  simp only [receive]
  split; · exact Cnts.le_refl _
  simp only [tryFinishSend]
  have t1 := tfs_mono ans s env
  generalize tryFinishSendAux ans s env = r1 at t1
  obtain ⟨s1, env1, res1, ans1⟩ := r1
  have hbm := fromLowerStep_mono (bufferMsg_cnt s1 env1)
  generalize bufferMsg s1 env1 = bm at hbm
  obtain ⟨s2, env2, r2⟩ := bm
  have h12 : Cnts.le s.cnt s2.cnt := Cnts.le_trans t1 hbm
  have hfull : ∀ n, Cnts.le s.cnt ({ s2.cnt with toAppB := s2.cnt.toAppB + n, toAppM := s2.cnt.toAppM + 1 } : Cnts) :=
    fun n => Cnts.le_trans h12 (by simp [Cnts.le])
  cases res1 with
  | none =>
    simp only
    cases r2 <;> simp only <;> first | exact h12 | exact hfull _
  | some e1 =>
    simp only
    by_cases h1 : e1 = EAGAIN
    · simp only [h1, if_true]
      cases r2 <;> simp only <;> first | exact h12 | exact hfull _
    · simp only [h1, if_false]
      by_cases h2 : e1 = EPIPE
      · simp only [h2, if_true]; exact t1
      · simp only [h2, if_false]; exact t1

/-- **C17 (monotone)**: no step of any history ever decreases any of the eight counters -/
theorem C17_monotone (e : Ep) (op : Op) : Cnts.le e.s.cnt (e.step op).s.cnt := by
  cases op with
  | send m ans =>
    have := send_mono e.s e.env m ans
    simp only [Ep.step]
    generalize send e.s e.env m ans = r at this
    obtain ⟨s', env', res, ans'⟩ := r
    exact this
  | receive cap ans =>
    have := receive_mono e.s e.env cap ans
    simp only [Ep.step]
    generalize receive e.s e.env cap ans = r at this
    obtain ⟨s', env', res, ans'⟩ := r
    cases res <;> exact this
  | finish ans fin =>
    have := finish_mono e.s e.env ans fin
    simp only [Ep.step]
    generalize finish e.s e.env ans fin = r at this
    obtain ⟨s', env', res, ans'⟩ := r
    exact this
  | arrive seg => simp only [Ep.step]; split <;> exact Cnts.le_refl _
  | eof => exact Cnts.le_refl _
  | rxErr err => exact Cnts.le_refl _

/-! ### receive-side counters are exactly the deliveries -/

structure RCntInv (e : Ep) : Prop where
  toAppM : e.s.cnt.toAppM = e.returned.length
  toAppB : e.s.cnt.toAppB = sumLen e.returned
  fromLowerM : e.s.cnt.fromLowerM = e.fulls.length
  fromLowerB : e.s.cnt.fromLowerB = sumLen e.fulls

theorem rcnt_of_same {e e' : Ep} (h : RCntInv e) (hc : RCntSame e'.s e.s) (h1 : e'.returned = e.returned)
    (h2 : e'.fulls = e.fulls) : RCntInv e' :=
  ⟨by rw [hc.1, h1]; exact h.toAppM, by rw [hc.2.1, h1]; exact h.toAppB,
   by rw [hc.2.2.1, h2]; exact h.fromLowerM, by rw [hc.2.2.2, h2]; exact h.fromLowerB⟩

theorem send_rcnt (s : St) (env : Env) (m : Bytes) (ans : List SAns) : RCntSame (send s env m ans).1 s := by
  simp only [send]
  split; · exact RCntSame.refl _
  split; · exact RCntSame.refl _
  split; · exact RCntSame.refl _
  simp only [tryFinishSend]
  have t1 := (tfs_cnt_recv ans s env).1
  generalize tryFinishSendAux ans s env = r1 at t1
  obtain ⟨s1, env1, res1, ans1⟩ := r1
  cases res1 with
  | some e1 => exact t1
  | none =>
    simp only
    have t2 := fun s2 => (tfs_cnt_recv ans1 s2 env1).1
    have key : ∀ s3 s2 : St, RCntSame s3 s2 → RCntSame s2 s1 → RCntSame s3 s := fun s3 s2 a b =>
      (a.trans b).trans t1
    split
    · exact key _ _ (t2 _) ⟨rfl, rfl, rfl, rfl⟩
    · split <;> exact key _ _ (t2 _) ⟨rfl, rfl, rfl, rfl⟩

theorem finish_rcnt (s : St) (env : Env) (ans : List SAns) (fin : Option Nat) :
    RCntSame (finish s env ans fin).1 s := by
  simp only [finish]
  split; · exact RCntSame.refl _
  simp only [tryFinishSend]
  have t1 := (tfs_cnt_recv ans s env).1
  generalize tryFinishSendAux ans s env = r1 at t1
  obtain ⟨s1, env1, res1, ans1⟩ := r1
  cases fin with
  | some e => exact t1
  | none => cases res1 <;> exact t1

theorem sumLen_snoc (l : List Bytes) (x : Bytes) : sumLen (l ++ [x]) = sumLen l + x.length := by
  simp [sumLen]

theorem rcnt_receive {e : Ep} (hr : RecvInv e) (h : RCntInv e) (cap : Nat) (ans : List SAns) :
    RCntInv (e.step (.receive cap ans)) := by
  simp only [Ep.step]
  cases hb : e.s.bad with
  | some eb =>
    have hval : receive e.s e.env cap ans = (e.s, e.env, .err eb, ans) := by simp [receive, hb]
    rw [hval]; exact rcnt_of_same h (RCntSame.refl _) rfl rfl
  | none =>
    have t1 := tfs_recvside ans e.s e.env
    have tc := (tfs_cnt_recv ans e.s e.env).1
    generalize hr1 : tryFinishSendAux ans e.s e.env = r1 at t1 tc
    obtain ⟨s1, env1, res1, ans1⟩ := r1
    simp only at t1 tc
    by_cases hgo : res1 = none ∨ res1 = some EAGAIN
    · have hbad1 : s1.bad = none := t1.2.1.trans hb
      have bm := bufferMsg_spec s1 env1 hbad1 (by rw [t1.1, hbad1, ← hb]; exact hr.rbuf)
        (by rw [t1.2.2.1]; exact hr.segs)
      rw [receive_go e.s e.env cap ans hb s1 env1 res1 ans1 hr1 hgo]
      generalize bufferMsg s1 env1 = b at bm
      obtain ⟨s2, env2, r2⟩ := b
      cases r2 with
      | full =>
        simp only [recvResult]
        obtain ⟨f1, f2, f3, f4, f5⟩ := bm.full rfl
        dsimp only at f1 f2 f3 f4 f5
        have hfl : (s2.rbuf.drop 4).length = rd32 s2.rbuf := by simp; omega
        refine ⟨?_, ?_, ?_, ?_⟩
        · show s2.cnt.toAppM + 1 = (e.returned ++ [_]).length
          rw [f5]; simp only [List.length_append, List.length_singleton]; rw [← h.toAppM, ← tc.1]
        · show s2.cnt.toAppB + min (rd32 s2.rbuf) cap = sumLen (e.returned ++ [_])
          rw [f5, sumLen_snoc, ← h.toAppB, ← tc.2.1]
          simp only [Generated.MBUF_HDR_LEN, List.length_take, hfl]
          omega
        · show s2.cnt.fromLowerM = (e.fulls ++ [_]).length
          rw [f5]; simp only [List.length_append, List.length_singleton]; rw [← h.fromLowerM, ← tc.2.2.1]
        · show s2.cnt.fromLowerB = sumLen (e.fulls ++ [_])
          rw [f5, sumLen_snoc, ← h.fromLowerB, ← tc.2.2.2]
          simp only [Generated.MBUF_HDR_LEN, hfl]
      | closed =>
        simp only [recvResult]
        obtain ⟨_, n2, _⟩ := bm.notFull (by simp)
        exact rcnt_of_same h (by dsimp only at n2; simp only [RCntSame, n2]; exact tc) rfl rfl
      | err er =>
        simp only [recvResult]
        obtain ⟨_, n2, _⟩ := bm.notFull (by simp)
        exact rcnt_of_same h (by dsimp only at n2; simp only [RCntSame, n2]; exact tc) rfl rfl
      | abort => exact absurd rfl bm.noAbort
    · cases res1 with
      | none => exact absurd (Or.inl rfl) hgo
      | some e1 =>
        have h1 : ¬ e1 = EAGAIN := fun h' => hgo (Or.inr (by rw [h']))
        have hpe : ¬ (EPIPE = EAGAIN) := by decide
        by_cases h2 : e1 = EPIPE
        · have hval : receive e.s e.env cap ans = (s1, env1, .closed, ans1) := by
            subst h2; simp [receive, hb, tryFinishSend, hr1, hpe]
          rw [hval]; exact rcnt_of_same h tc rfl rfl
        · have hval : receive e.s e.env cap ans = (s1, env1, .err e1, ans1) := by
            simp [receive, hb, tryFinishSend, hr1, h1, h2]
          rw [hval]; exact rcnt_of_same h tc rfl rfl

theorem rcnt_step {e : Ep} (hr : RecvInv e) (h : RCntInv e) (op : Op) : RCntInv (e.step op) := by
  cases op with
  | send m ans =>
    have := send_rcnt e.s e.env m ans
    simp only [Ep.step]
    generalize send e.s e.env m ans = r at this
    obtain ⟨s', env', res, ans'⟩ := r
    exact rcnt_of_same h this rfl rfl
  | receive cap ans => exact rcnt_receive hr h cap ans
  | finish ans fin =>
    have := finish_rcnt e.s e.env ans fin
    simp only [Ep.step]
    generalize finish e.s e.env ans fin = r at this
    obtain ⟨s', env', res, ans'⟩ := r
    exact rcnt_of_same h this rfl rfl
  | arrive seg =>
    simp only [Ep.step]
    split
    · exact h
    · exact rcnt_of_same h (RCntSame.refl _) rfl rfl
  | eof => exact rcnt_of_same h (RCntSame.refl _) rfl rfl
  | rxErr err => exact rcnt_of_same h (RCntSame.refl _) rfl rfl

theorem rcnt_run (ops : List Op) {e : Ep} (hr : RecvInv e) (h : RCntInv e) : RCntInv (e.run ops) := by
  induction ops generalizing e with
  | nil => exact h
  | cons op ops ih => exact ih (recvInv_step hr op) (rcnt_step hr h op)

theorem sumLen_take_le (fulls : List Bytes) (caps : List Nat) :
    sumLen (List.zipWith (fun m c => m.take c) fulls caps) ≤ sumLen fulls := by
  induction fulls generalizing caps with
  | nil => simp [sumLen]
  | cons m ms ih =>
    cases caps with
    | nil => simp [sumLen]
    | cons c cs =>
      have := ih cs
      simp only [sumLen, List.zipWith_cons_cons, List.map_cons, List.sum_cons, List.length_take] at *
      omega

/-- **C17 (exact counters)**: after any history, the counters equal what really happened:
`to_app` = the successful receives and the bytes they returned (a truncated receive counts
the bytes really delivered), `from_lower` = the complete messages taken from the lower
layer and their full sizes, `from_app` = the messages buffered by `send` (the accepted ones
plus at most one that was buffered and then lost to a connection failure) and their sizes,
and `to_lower` = `from_app` minus the one frame still (partly) buffered. -/
theorem C17_counters_exact (ops : List Op) :
    (Ep.init.run ops).s.cnt.toAppM = (Ep.init.run ops).returned.length ∧
    (Ep.init.run ops).s.cnt.toAppB = sumLen (Ep.init.run ops).returned ∧
    (Ep.init.run ops).s.cnt.fromLowerM = (Ep.init.run ops).fulls.length ∧
    (Ep.init.run ops).s.cnt.fromLowerB = sumLen (Ep.init.run ops).fulls ∧
    (∃ extra, extra.length ≤ 1 ∧ (extra ≠ [] → (Ep.init.run ops).env.txErr ≠ none) ∧
      (Ep.init.run ops).s.cnt.fromAppM = ((Ep.init.run ops).accepted ++ extra).length ∧
      (Ep.init.run ops).s.cnt.fromAppB = sumLen ((Ep.init.run ops).accepted ++ extra)) ∧
    (Ep.init.run ops).s.cnt.fromAppM =
      (Ep.init.run ops).s.cnt.toLowerM + (if (Ep.init.run ops).s.sbuf = [] then 0 else 1) ∧
    (Ep.init.run ops).s.cnt.fromAppB =
      (Ep.init.run ops).s.cnt.toLowerB + (if (Ep.init.run ops).s.sbuf = [] then 0 else rd32 (Ep.init.run ops).s.sbuf) := by
  have hS := sendInv_run ops sendInv_init
  have hR := rcnt_run ops recvInv_init ⟨rfl, rfl, rfl, rfl⟩
  obtain ⟨extra, _, hex, _, c1, c2⟩ := hS.wire
  refine ⟨hR.toAppM, hR.toAppB, hR.fromLowerM, hR.fromLowerB, ⟨extra, ?_, ?_, c1, c2⟩, hS.s1, hS.s2⟩
  · rcases hex with rfl | ⟨m, rfl, _, _⟩ <;> simp
  · intro hne
    rcases hex with rfl | ⟨m, rfl, hte, _⟩
    · exact absurd rfl hne
    · exact hte

/-- **C17 (order)**: `from_app ≥ to_lower` and `from_lower ≥ to_app`, messages and bytes -/
theorem C17_order (ops : List Op) :
    (Ep.init.run ops).s.cnt.toLowerM ≤ (Ep.init.run ops).s.cnt.fromAppM ∧
    (Ep.init.run ops).s.cnt.toLowerB ≤ (Ep.init.run ops).s.cnt.fromAppB ∧
    (Ep.init.run ops).s.cnt.toAppM ≤ (Ep.init.run ops).s.cnt.fromLowerM ∧
    (Ep.init.run ops).s.cnt.toAppB ≤ (Ep.init.run ops).s.cnt.fromLowerB := by
  obtain ⟨a1, a2, a3, a4, _, a6, a7⟩ := C17_counters_exact ops
  have hR := recvInv_run ops recvInv_init
  refine ⟨by omega, by omega, ?_, ?_⟩
  · rw [a1, a3, show (Ep.init.run ops).returned = _ from hR.ret, List.length_zipWith]
    exact Nat.min_le_left _ _
  · rw [a2, a4, show (Ep.init.run ops).returned = _ from hR.ret]
    exact sumLen_take_le _ _

/-- **C17 (a refused send counts nothing)**: a send of illegal size changes nothing at all; a
send refused with EAGAIN leaves `from_app`, the buffered frame and the receive-side counters
unchanged — the only counter activity it may cause is progress of the *previously accepted*
frame towards the lower layer -/
theorem C17_refused_counts_nothing (s : St) (env : Env) (m : Bytes) (ans : List SAns) (hw : SWf s) :
    ((m.length = 0 ∨ m.length > Generated.MBUF_MSG_MAX) →
      (send s env m ans).1 = s ∧ (send s env m ans).2.1 = env) ∧
    ((send s env m ans).2.2.1 = .err EAGAIN →
      (send s env m ans).1.cnt.fromAppM = s.cnt.fromAppM ∧ (send s env m ans).1.cnt.fromAppB = s.cnt.fromAppB ∧
      (send s env m ans).1.sbuf = s.sbuf ∧ RCntSame (send s env m ans).1 s) := by
  refine ⟨?_, ?_⟩
  · intro hsz
    simp only [send]
    rcases hsz with h0 | hbig
    · by_cases h1 : m.length > Generated.MBUF_MSG_MAX
      · simp [h1]
      · simp [h1, h0]
    · simp [hbig]
  · by_cases h1 : m.length > Generated.MBUF_MSG_MAX
    · have hval : send s env m ans = (s, env, .err EMSGSIZE, ans) := by simp [send, h1]
      rw [hval]; intro _; exact ⟨rfl, rfl, rfl, RCntSame.refl _⟩
    by_cases h2 : m.length = 0
    · have hval : send s env m ans = (s, env, .err EINVAL, ans) := by simp [send, h1, h2]
      rw [hval]; intro _; exact ⟨rfl, rfl, rfl, RCntSame.refl _⟩
    cases hb : s.bad with
    | some eb =>
      have hval : send s env m ans = (s, env, .err eb, ans) := by simp [send, h1, h2, hb]
      rw [hval]; intro _; exact ⟨rfl, rfl, rfl, RCntSame.refl _⟩
    | none =>
      have sp1 := tfs_spec ans s env hw
      have tc := tfs_cnt_recv ans s env
      generalize hr1 : tryFinishSendAux ans s env = r1 at sp1 tc
      cases hres1 : r1.2.2.1 with
      | some e1 =>
        have hval : send s env m ans = (r1.1, r1.2.1, .err e1, r1.2.2.2) := by
          simp [send, h1, h2, hb, tryFinishSend, hr1, hres1]
        rw [hval]; intro _
        exact ⟨tc.2.1, tc.2.2.1, (sp1.fail e1 hres1).1, tc.1⟩
      | none =>
        -- buffered: the result is `ok` or a non-EAGAIN error, never EAGAIN
        intro hr
        exfalso
        revert hr
        simp only [send, h1, h2, hb, tryFinishSend, hr1, hres1, if_false]
        split
        · intro h; cases h
        · split
          · intro h; cases h
          · rename_i hne
            intro h
            simp only [Res.err.injEq] at h
            exact hne h

/-- **C17 (idle agreement)**: when the sender has nothing buffered and the receiver has
consumed every accepted message, the sender's `to_lower`, the receiver's `from_lower` and
the number and total size of the messages exchanged agree, and `to_app` counts the receives
and the bytes they really returned -/
theorem C17_idle_agreement (opsA opsB : List Op)
    (hflushed : (Ep.init.run opsA).s.sbuf = [])
    (hall : (Ep.init.run opsB).fulls = (Ep.init.run opsA).accepted) :
    (Ep.init.run opsA).s.cnt.toLowerM = (Ep.init.run opsA).accepted.length ∧
    (Ep.init.run opsA).s.cnt.toLowerB = sumLen (Ep.init.run opsA).accepted ∧
    (Ep.init.run opsA).s.cnt.fromAppM = (Ep.init.run opsA).s.cnt.toLowerM ∧
    (Ep.init.run opsA).s.cnt.fromAppB = (Ep.init.run opsA).s.cnt.toLowerB ∧
    (Ep.init.run opsB).s.cnt.fromLowerM = (Ep.init.run opsA).s.cnt.toLowerM ∧
    (Ep.init.run opsB).s.cnt.fromLowerB = (Ep.init.run opsA).s.cnt.toLowerB ∧
    (Ep.init.run opsB).s.cnt.toAppM = (Ep.init.run opsB).returned.length ∧
    (Ep.init.run opsB).s.cnt.toAppB = sumLen (Ep.init.run opsB).returned := by
  have hS := sendInv_run opsA sendInv_init
  have hR := rcnt_run opsB recvInv_init ⟨rfl, rfl, rfl, rfl⟩
  obtain ⟨extra, _, hex, _, c1, c2⟩ := hS.wire
  have hs1 := hS.s1
  have hs2 := hS.s2
  have hex' : extra = [] := by
    rcases hex with h | ⟨m, _, _, hne⟩
    · exact h
    · exact absurd hflushed hne
  subst hex'
  simp only [List.append_nil] at c1 c2
  simp only [Ep.init] at *
  rw [hflushed] at hs1 hs2
  simp only [if_true, Nat.add_zero] at hs1 hs2
  refine ⟨by omega, by omega, hs1, hs2, ?_, ?_, hR.toAppM, hR.toAppB⟩
  · rw [hR.fromLowerM, hall]; omega
  · rw [hR.fromLowerB, hall]; omega

/-- non-vacuity: a truncating receive counts 2 bytes delivered of a 3-byte message, a refused
(EAGAIN) send counts nothing, and the order relations are strict in a state with a pending frame -/
example :
    let e := Ep.init.run [.send [1, 2, 3] [.ok 2], .send [9] [], .arrive [0, 0, 0, 3, 7, 8, 9],
      .receive 2 []]
    e.results = [.ok, .err EAGAIN, .msg [7, 8] [7, 8, 9]] ∧
    e.s.cnt = { toAppB := 2, fromAppB := 3, toLowerB := 0, fromLowerB := 3,
                toAppM := 1, fromAppM := 1, toLowerM := 0, fromLowerM := 1 } := by
  decide



theorem sumLen_take_le' (fulls : List Bytes) (caps : List Nat) :
    Ux.sumLen (List.zipWith (fun m c => m.take c) fulls caps) ≤ Ux.sumLen fulls := by
  induction fulls generalizing caps with
  | nil => simp [Ux.sumLen]
  | cons f fs ih =>
    cases caps with
    | nil => simp [Ux.sumLen]
    | cons c cs =>
      have := ih cs
      simp only [List.zipWith_cons_cons, Ux.sumLen, List.map_cons, List.sum_cons, List.length_take] at *
      omega

/-! ## ux / uxf counters -/

/-- no ux operation decreases a counter -/
theorem C17_ux_monotone (s : Ux.St) (m : Bytes) (k : Ux.KSend) (cap : Nat) (kr : Ux.KRecv) :
    Cnts.le s.cnt (Ux.send s m k).1.cnt ∧ Cnts.le s.cnt (Ux.receive s cap kr).1.cnt
    ∧ Cnts.le s.cnt (Ux.finish s).1.cnt := by
  refine ⟨?_, ?_, ?_⟩
  · unfold Ux.send
    split
    · exact Cnts.le_refl _
    · split
      · exact Cnts.le_refl _
      · cases k <;> simp [Cnts.le]
  · unfold Ux.receive
    cases kr with
    | eof => exact Cnts.le_refl _
    | err e => exact Cnts.le_refl _
    | record r =>
      simp only []
      split
      · exact Cnts.le_refl _
      · simp [Cnts.le]
  · exact Cnts.le_refl _

/-- a send that fails (EMSGSIZE, EINVAL, EAGAIN or any kernel errno) leaves the state untouched and
hands nothing to the kernel -/
theorem C17_ux_refused_counts_nothing (s : Ux.St) (m : Bytes) (k : Ux.KSend) (e : Nat)
    (h : (Ux.send s m k).2.1 = .err e) : (Ux.send s m k).1 = s ∧ (Ux.send s m k).2.2 = none := by
  unfold Ux.send at *
  by_cases h1 : m.length > Generated.UX_MAX_MSG
  · simp [h1]
  · by_cases h2 : m.length = 0
    · simp [h1, h2]
    · cases k with
      | ok => simp [h1, h2] at h
      | err e' => simp [h1, h2]

/-- a truncated receive counts what was really delivered: `to_app` grows by `min len capacity`,
`from_lower` by the record's length (this is what fix fef0a33 / F-17a restored) -/
theorem C17_ux_truncated_counts_delivered (s : Ux.St) (cap : Nat) (r : Bytes) (hr : r ≠ []) :
    let s' := (Ux.receive s cap (.record r)).1
    s'.cnt.toAppB = s.cnt.toAppB + min r.length cap ∧ s'.cnt.fromLowerB = s.cnt.fromLowerB + r.length
    ∧ s'.cnt.toAppM = s.cnt.toAppM + 1 ∧ s'.cnt.fromLowerM = s.cnt.fromLowerM + 1
    ∧ (∀ p f, (Ux.receive s cap (.record r)).2 = .msg p f → p.length = min r.length cap) := by
  have : r.length ≠ 0 := by cases r <;> simp_all
  simp only [Ux.receive, this, if_false]
  refine ⟨trivial, trivial, trivial, trivial, ?_⟩
  intro p f h
  split at h
  · cases h
  · cases h; simp [List.length_take, Nat.min_comm]

/-- all counter statements for ux on any history: exact values, order, and agreement when the
kernel queue is empty ("idle and flushed") -/
theorem C17_ux_counters_exact (steps : List Ux.Step) :
    let L := (({} : Ux.Link).run steps)
    L.a.cnt.fromAppM = L.accepted.length ∧ L.a.cnt.fromAppB = Ux.sumLen L.accepted
    ∧ L.a.cnt.toLowerM = L.a.cnt.fromAppM ∧ L.a.cnt.toLowerB = L.a.cnt.fromAppB
    ∧ L.b.cnt.toAppM = L.returned.length ∧ L.b.cnt.toAppB = Ux.sumLen L.returned
    ∧ L.b.cnt.fromLowerM = L.b.cnt.toAppM ∧ L.b.cnt.toAppB ≤ L.b.cnt.fromLowerB
    ∧ (L.chan = [] → L.a.cnt.toLowerM = L.b.cnt.fromLowerM ∧ L.a.cnt.toLowerB = L.b.cnt.fromLowerB) := by
  intro L
  have h : Ux.Inv L := Ux.inv_run steps _ Ux.inv_init
  have hl : L.returned.length = L.fulls.length := by rw [h.ret]; simp [h.len]
  refine ⟨h.aFromM, h.aFromB, by rw [h.aToM, h.aFromM], by rw [h.aToB, h.aFromB], by rw [h.bToM, hl], h.bToB,
    by rw [h.bFromM, h.bToM], ?_, ?_⟩
  · rw [h.bToB, h.bFromB, h.ret]
    exact sumLen_take_le' _ _
  · intro hc
    have ha : L.accepted = L.fulls := by rw [h.acc, hc]; simp
    exact ⟨by rw [h.aToM, h.bFromM, ha], by rw [h.aToB, h.bFromB, ha]⟩

end XcmModel.C17

/-! ## byte-stream transports: btcp -/
namespace XcmModel.C17btcp
open XcmModel XcmModel.Btcp

/-- the byte counters are the lengths of the streams really handed to / obtained from the kernel -/
def CntInv (s : St) : Prop :=
  s.cnt.fromApp = s.tx.length ∧ s.cnt.toLower = s.tx.length ∧ s.cnt.fromLower = s.rxd.length ∧ s.cnt.toApp = s.rxd.length

theorem send_cntInv {s : St} (h : CntInv s) (buf : Bytes) (est : List EstAns) (k : KSend) : CntInv (send s buf est k).1 := by
  obtain ⟨h1, h2, h3, h4⟩ := h
  simp only [send]
  split <;> try exact ⟨h1, h2, h3, h4⟩
  split
  · rename_i kk
    have hn : (if buf.length = 0 then 0 else max 1 (min kk buf.length)) ≤ buf.length := by split <;> omega
    refine ⟨?_, ?_, h3, h4⟩ <;> simp only [List.length_append, List.length_take] <;> omega
  · split
    · exact ⟨h1, h2, h3, h4⟩
    · split <;> exact ⟨h1, h2, h3, h4⟩

theorem receive_cntInv {s : St} (h : CntInv s) (cap : Nat) (est : List EstAns) (k : KRecv) : CntInv (receive s cap est k).1 := by
  obtain ⟨h1, h2, h3, h4⟩ := h
  simp only [receive]
  split <;> try exact ⟨h1, h2, h3, h4⟩
  split
  · split
    · exact ⟨h1, h2, h3, h4⟩
    · refine ⟨h1, h2, ?_, ?_⟩ <;> simp only [List.length_append] <;> omega
  · exact ⟨h1, h2, h3, h4⟩
  · split <;> exact ⟨h1, h2, h3, h4⟩

theorem finish_cntInv {s : St} (h : CntInv s) (est : List EstAns) : CntInv (finish s est).1 := by
  obtain ⟨h1, h2, h3, h4⟩ := h
  simp only [finish]
  split <;> exact ⟨h1, h2, h3, h4⟩

/-- **exactness, every history**: from_app = to_lower = bytes handed to the kernel = the accepted bytes (C02's invariant),
from_lower = to_app = bytes obtained from the kernel = the bytes returned; a short write counts what was written, not
what was asked -/
theorem C17_btcp_counters_exact (st : CState) (ops : List C02.Op) :
    let c := (C02.Conn.init st).run ops
    c.s.cnt.fromApp = c.accepted.length ∧ c.s.cnt.toLower = c.accepted.length ∧
    c.s.cnt.fromLower = c.returned.length ∧ c.s.cnt.toApp = c.returned.length := by
  intro c
  have hw : C02.Inv c := C02.inv_run ops ⟨rfl, rfl⟩
  have hc : CntInv c.s := by
    show CntInv ((C02.Conn.init st).run ops).s
    unfold C02.Conn.run
    generalize hc0 : C02.Conn.init st = c0
    have h0 : CntInv c0.s := by rw [← hc0]; exact ⟨rfl, rfl, rfl, rfl⟩
    clear hc0 hw
    induction ops generalizing c0 with
    | nil => exact h0
    | cons o os ih =>
      apply ih
      cases o with
      | send buf est k =>
        have := send_cntInv h0 buf est k
        simp only [C02.Conn.step]
        cases hr : (send c0.s buf est k).2 <;> simpa [hr] using this
      | receive cap est k =>
        have := receive_cntInv h0 cap est k
        simp only [C02.Conn.step]
        cases hr : (receive c0.s cap est k).2 <;> simpa [hr] using this
      | finish est =>
        have := finish_cntInv h0 est
        simpa [C02.Conn.step] using this
  obtain ⟨h1, h2, h3, h4⟩ := hc
  rw [← hw.tx, ← hw.rx]
  exact ⟨h1, h2, h3, h4⟩

/-- a refused or failing send counts nothing -/
theorem C17_btcp_refused_counts_nothing (s : St) (buf : Bytes) (est : List EstAns) (k : KSend) (e : Nat)
    (h : (send s buf est k).2 = .err e) : (send s buf est k).1.cnt = s.cnt := by
  revert h
  simp only [send]
  split <;> try (intro _; rfl)
  split
  · intro h; cases h
  · split
    · intro _; rfl
    · split <;> (intro _; rfl)

end XcmModel.C17btcp

/-! ## byte-stream transports: btls (with its retained-output buffer) -/
namespace XcmModel.C17btls
open XcmModel XcmModel.Btls

/-- **exactness, every history**: from_app counts every byte xcm_send reported as accepted - the retained ones included, at
the moment they are accepted -, to_lower the bytes SSL_write took, to_app = from_lower the bytes returned; hence
from_app >= to_lower, the difference being exactly what is still retained -/
theorem C17_btls_counters_exact (auth : Bool) (ops : List Op) :
    let s := run { auth := auth } ops
    s.cnt.fromApp = s.accepted.length ∧ s.cnt.toLower = s.written.length ∧
    s.cnt.toApp = s.delivered.length ∧ s.cnt.fromLower = s.delivered.length ∧
    s.cnt.fromApp = s.cnt.toLower + s.pend.length := by
  intro s
  have h := run_inv ops (init_inv auth)
  refine ⟨h.cntW.1, h.cntW.2, h.cntD.1, h.cntD.2, ?_⟩
  rw [h.cntW.1, h.cntW.2, h.acc, List.length_append]

/-- no step decreases a counter: the accepted, written and delivered streams only grow -/
theorem C17_btls_monotone {s : St} (hi : Inv s) (op : Op) :
    s.cnt.fromApp ≤ (step s op).cnt.fromApp ∧ s.cnt.toLower ≤ (step s op).cnt.toLower ∧
    s.cnt.toApp ≤ (step s op).cnt.toApp ∧ s.cnt.fromLower ≤ (step s op).cnt.fromLower := by
  have hi' := step_inv hi op
  have g := step_grows s op
  rw [hi.cntW.1, hi.cntW.2, hi.cntD.1, hi.cntD.2, hi'.cntW.1, hi'.cntW.2, hi'.cntD.1, hi'.cntD.2]
  exact ⟨g.1, g.2.1, g.2.2, g.2.2⟩

/-- a send that fails - EAGAIN included - adds nothing to from_app -/
theorem C17_btls_refused_counts_nothing {s : St} (hi : Inv s) (buf : Bytes) (h : HAns) (ws : List WAns) (e : Nat)
    (hl : 0 < buf.length) (hr : (send s buf h ws).2.1 = .err e) : (send s buf h ws).1.cnt.fromApp = s.cnt.fromApp := by
  have hi' := send_inv hi buf h ws
  rw [hi'.cntW.1, hi.cntW.1, (C02btls.C02_btls_send_accepts_prefix s buf h ws hl).2 e hr]

end XcmModel.C17btls

