import XcmModel.Life
import XcmModel.Generated.Owner
/-!
# C08 — no resource leaks or double releases on any lifecycle path (ladders of xcm.c)

For every script of environment answers (xpoll_create, transport init / connect / server / accept / finish failing at any
point with any errno, a failing attribute, any number of EAGAIN restarts of a blocking accept or finish):
* a call that returns NULL leaves the ledger (socket structures, xpoll instances, transport states) exactly as it was;
* a call that returns a socket holds exactly one of each;
* xcm_close / xcm_cleanup of such a socket releases exactly one of each;
* no release of something not held ever happens (`badRelease` stays 0).
`C08_histories_balanced` lifts this to arbitrary histories of create / accept / close / cleanup calls.
The transport's own obligations (a failed init / connect / server / accept cleans up after itself; close and cleanup
release the transport state) are the contract of xcm_tp.h, exercised on the real transports by sys_life.
-/
namespace XcmModel.C08
open XcmModel XcmModel.Life

theorem rel_succ (n b : Nat) : rel (n + 1) b = (n, b) := by simp [rel]

theorem run_append (l : Ledger) (a b : List Ev) : l.run (a ++ b) = (l.run a).run b := by
  simp [Ledger.run, List.foldl_append]

theorem run_cons (l : Ledger) (e : Ev) (t : List Ev) : l.run (e :: t) = (l.apply e).run t := rfl
theorem run_nil (l : Ledger) : l.run [] = l := rfl

/-- events that touch nothing -/
def Neutral : Ev → Prop
  | .finishOk | .finishFail | .wait | .xpollFail | .initFail | .connectOk | .serverOk | .acceptOk => True
  | _ => False

theorem apply_neutral (l : Ledger) (e : Ev) (h : Neutral e) : l.apply e = l := by
  cases e <;> simp [Neutral] at h <;> rfl

theorem run_neutral (l : Ledger) (es : List Ev) (h : ∀ e ∈ es, Neutral e) : l.run es = l := by
  induction es generalizing l with
  | nil => rfl
  | cons e t ih =>
    rw [run_cons, apply_neutral l e (h e List.mem_cons_self)]
    exact ih l (fun x hx => h x (List.mem_cons_of_mem _ hx))

theorem finishLoop_neutral (fuel : Nat) (as : List Ans) : ∀ e ∈ (finishLoop fuel as).2, Neutral e := by
  induction fuel generalizing as with
  | zero => intro e he; simp [finishLoop] at he
  | succ f ih =>
    intro e he
    unfold finishLoop at he
    cases hn : nextAns as with
    | mk a r =>
      cases a with
      | none => simp [hn] at he; subst he; trivial
      | some x =>
        simp only [hn] at he
        split at he
        · simp only [List.cons_append, List.nil_append, List.mem_cons] at he
          rcases he with h | h | h
          · subst h; trivial
          · subst h; trivial
          · exact ih r e h
        · simp at he; subst he; trivial

/-- the net effect of a ladder on the ledger -/
structure Same (l l' : Ledger) : Prop where
  sock : l'.sock = l.sock
  xpoll : l'.xpoll = l.xpoll
  tp : l'.tp = l.tp
  bad : l'.badRelease = l.badRelease

structure Plus1 (l l' : Ledger) : Prop where
  sock : l'.sock = l.sock + 1
  xpoll : l'.xpoll = l.xpoll + 1
  tp : l'.tp = l.tp + 1
  bad : l'.badRelease = l.badRelease

/-- the outcome of a creation ladder: NULL = nothing held, a socket = one of each held -/
def Balanced (l : Ledger) (res : Option Nat) (evs : List Ev) : Prop :=
  match res with
  | some _ => Same l (l.run evs)
  | none => Plus1 l (l.run evs)

theorem C08_create_balanced (l : Ledger) (k : Kind) (blocking badAttr : Bool) (as : List Ans) :
    Balanced l (create k blocking badAttr as).1 (create k blocking badAttr as).2 := by
  unfold create
  cases h1 : nextAns as with
  | mk a1 r1 =>
    cases a1 with
    | some e => simp [Balanced, Ledger.run, Ledger.apply, rel_succ]; constructor <;> rfl
    | none =>
      simp only
      cases h2 : nextAns r1 with
      | mk a2 r2 =>
        cases a2 with
        | some e => simp [Balanced, Ledger.run, Ledger.apply, rel_succ]; constructor <;> rfl
        | none =>
          simp only
          cases badAttr with
          | true => simp [Balanced, Ledger.run, Ledger.apply, rel_succ]; constructor <;> rfl
          | false =>
            simp only [Bool.false_eq_true, if_false]
            cases h3 : nextAns r2 with
            | mk a3 r3 =>
              cases a3 with
              | some e =>
                cases k <;> simp [Balanced, Ledger.run, Ledger.apply, rel_succ] <;> constructor <;> rfl
              | none =>
                simp only
                cases k with
                | server => cases blocking <;> simp [Balanced, Ledger.run, Ledger.apply] <;> constructor <;> rfl
                | connect =>
                  cases blocking with
                  | false => simp [Balanced, Ledger.run, Ledger.apply]; constructor <;> rfl
                  | true =>
                    have hn := finishLoop_neutral 64 r3
                    cases hf : finishLoop 64 r3 with
                    | mk fr fe =>
                      rw [hf] at hn
                      cases fr with
                      | some e =>
                        simp only [Balanced, decide_true, Bool.and_self, if_true]
                        rw [run_append, run_append, run_neutral _ fe hn]
                        simp [Ledger.run, Ledger.apply, rel_succ]; constructor <;> rfl
                      | none =>
                        simp only [Balanced, decide_true, Bool.and_self, if_true]
                        rw [run_append, run_neutral _ fe hn]
                        simp [Ledger.run, Ledger.apply]; constructor <;> rfl

theorem same_trans {a b c : Ledger} (h1 : Same a b) (h2 : Same b c) : Same a c :=
  ⟨h2.sock.trans h1.sock, h2.xpoll.trans h1.xpoll, h2.tp.trans h1.tp, h2.bad.trans h1.bad⟩

theorem C08_accept_balanced (blocking badAttr : Bool) (fuel : Nat) :
    ∀ (l : Ledger) (as : List Ans), Balanced l (accept blocking badAttr fuel as).1 (accept blocking badAttr fuel as).2 := by
  induction fuel with
  | zero => intro l as; simp [accept, Balanced, Ledger.run]; constructor <;> rfl
  | succ f ih =>
    intro l as
    unfold accept
    cases h1 : nextAns as with
    | mk a1 r1 =>
      cases a1 with
      | some e => simp [Balanced, Ledger.run, Ledger.apply, rel_succ]; constructor <;> rfl
      | none =>
        simp only
        cases h2 : nextAns r1 with
        | mk a2 r2 =>
          cases a2 with
          | some e =>
            cases blocking <;> simp [Balanced, Ledger.run, Ledger.apply, rel_succ] <;> constructor <;> rfl
          | none =>
            simp only
            cases badAttr with
            | true => cases blocking <;> simp [Balanced, Ledger.run, Ledger.apply, rel_succ] <;> constructor <;> rfl
            | false =>
              simp only [Bool.false_eq_true, if_false]
              cases h3 : nextAns r2 with
              | mk a3 r3 =>
                cases a3 with
                | some e =>
                  simp only
                  by_cases hr : (blocking && decide (e = EAGAIN)) = true
                  · rw [if_pos hr]
                    have hrec := ih
                    cases hx : accept blocking false f r3 with
                    | mk res evs =>
                      simp only
                      -- the abandoned attempt leaves the ledger as it was, then the restart is balanced
                      have pre : Same l (l.run ((if blocking = true then [Ev.sockAcq, Ev.xpollAcq, Ev.wait] else [Ev.sockAcq, Ev.xpollAcq]) ++
                          [Ev.initOk, Ev.acceptFail e, Ev.sockRel, Ev.xpollRel])) := by
                        cases blocking <;> simp [Ledger.run, Ledger.apply, rel_succ] <;> constructor <;> rfl
                      have hrec2 := hrec (l.run ((if blocking = true then [Ev.sockAcq, Ev.xpollAcq, Ev.wait] else [Ev.sockAcq, Ev.xpollAcq]) ++
                          [Ev.initOk, Ev.acceptFail e, Ev.sockRel, Ev.xpollRel])) r3
                      rw [hx] at hrec2
                      simp only [Balanced] at hrec2 ⊢
                      rw [run_append]
                      cases res with
                      | some x => exact same_trans pre hrec2
                      | none =>
                        exact ⟨hrec2.sock.trans (by rw [pre.sock]), hrec2.xpoll.trans (by rw [pre.xpoll]), hrec2.tp.trans (by rw [pre.tp]),
                          hrec2.bad.trans pre.bad⟩
                  · rw [if_neg hr]
                    cases blocking <;> simp [Balanced, Ledger.run, Ledger.apply, rel_succ] <;> constructor <;> rfl
                | none =>
                  simp only
                  cases blocking with
                  | false => simp [Balanced, Ledger.run, Ledger.apply]; constructor <;> rfl
                  | true =>
                    simp only [if_true]
                    have hn := finishLoop_neutral 64 r3
                    cases hf : finishLoop 64 r3 with
                    | mk fr fe =>
                      rw [hf] at hn
                      cases fr with
                      | some e =>
                        simp only [Balanced]
                        rw [run_append, run_append, run_neutral _ fe hn]
                        simp [Ledger.run, Ledger.apply, rel_succ]; constructor <;> rfl
                      | none =>
                        simp only [Balanced]
                        rw [run_append, run_neutral _ fe hn]
                        simp [Ledger.run, Ledger.apply]; constructor <;> rfl

/-- closing (or cleaning up) a socket that holds one of each releases exactly one of each, and nothing that is not held -/
theorem C08_close_balanced (l : Ledger) (cleanup : Bool) (hs : 0 < l.sock) (hx : 0 < l.xpoll) (ht : 0 < l.tp) :
    let l' := l.run (closeEvs cleanup)
    l'.sock = l.sock - 1 ∧ l'.xpoll = l.xpoll - 1 ∧ l'.tp = l.tp - 1 ∧ l'.badRelease = l.badRelease := by
  obtain ⟨s, hs'⟩ : ∃ s, l.sock = s + 1 := ⟨l.sock - 1, by omega⟩
  obtain ⟨x, hx'⟩ : ∃ x, l.xpoll = x + 1 := ⟨l.xpoll - 1, by omega⟩
  obtain ⟨t, ht'⟩ : ∃ t, l.tp = t + 1 := ⟨l.tp - 1, by omega⟩
  cases cleanup <;> simp [closeEvs, Ledger.run, Ledger.apply, hs', hx', ht', rel_succ]

/-! ### histories -/

inductive Op where
  | create (k : Kind) (blocking badAttr : Bool) (as : List Ans)
  | accept (blocking badAttr : Bool) (as : List Ans)
  | close (cleanup : Bool)              -- of some live socket (ignored when there is none)

structure Sys where
  led : Ledger := {}
  live : Nat := 0

def sysStep (s : Sys) : Op → Sys
  | .create k b a as =>
    let r := create k b a as
    { led := s.led.run r.2, live := if r.1.isNone then s.live + 1 else s.live }
  | .accept b a as =>
    let r := Life.accept b a 64 as
    { led := s.led.run r.2, live := if r.1.isNone then s.live + 1 else s.live }
  | .close c => if s.live = 0 then s else { led := s.led.run (closeEvs c), live := s.live - 1 }

def SysInv (s : Sys) : Prop := s.led.sock = s.live ∧ s.led.xpoll = s.live ∧ s.led.tp = s.live ∧ s.led.badRelease = 0

theorem sysStep_inv (s : Sys) (op : Op) (h : SysInv s) : SysInv (sysStep s op) := by
  obtain ⟨h1, h2, h3, h4⟩ := h
  cases op with
  | create k b a as =>
    have bal := C08_create_balanced s.led k b a as
    simp only [sysStep]
    cases hr : (create k b a as).1 with
    | some e => rw [hr] at bal; simp only [Balanced] at bal; simp [SysInv, bal.sock, bal.xpoll, bal.tp, bal.bad, h1, h2, h3, h4]
    | none => rw [hr] at bal; simp only [Balanced] at bal; simp [SysInv, bal.sock, bal.xpoll, bal.tp, bal.bad, h1, h2, h3, h4]
  | accept b a as =>
    have bal := C08_accept_balanced b a 64 s.led as
    simp only [sysStep]
    cases hr : (Life.accept b a 64 as).1 with
    | some e => rw [hr] at bal; simp only [Balanced] at bal; simp [SysInv, bal.sock, bal.xpoll, bal.tp, bal.bad, h1, h2, h3, h4]
    | none => rw [hr] at bal; simp only [Balanced] at bal; simp [SysInv, bal.sock, bal.xpoll, bal.tp, bal.bad, h1, h2, h3, h4]
  | close c =>
    simp only [sysStep]
    by_cases hl : s.live = 0
    · rw [if_pos hl]; exact ⟨h1, h2, h3, h4⟩
    · rw [if_neg hl]
      have := C08_close_balanced s.led c (by omega) (by omega) (by omega)
      simp only at this
      simp only [SysInv]
      omega

/-- for every history of creation, accept, close and cleanup calls with arbitrary failures: the ledger holds exactly one
socket structure, one xpoll and one transport state per live socket, nothing was ever released that was not held, and
once every socket is closed nothing is held -/
theorem C08_histories_balanced (ops : List Op) :
    let s := ops.foldl sysStep {}
    s.led.sock = s.live ∧ s.led.xpoll = s.live ∧ s.led.tp = s.live ∧ s.led.badRelease = 0 ∧
    (s.live = 0 → s.led = {}) := by
  have gen : ∀ (ops : List Op) (s : Sys), SysInv s → SysInv (ops.foldl sysStep s) := by
    intro ops
    induction ops with
    | nil => intro s h; exact h
    | cons o t ih => intro s h; exact ih _ (sysStep_inv s o h)
  have h := gen ops {} ⟨rfl, rfl, rfl, rfl⟩
  intro s
  refine ⟨h.1, h.2.1, h.2.2.1, h.2.2.2, fun h0 => ?_⟩
  obtain ⟨a, b, c, d⟩ := h
  have e1 : s.led.sock = 0 := a.trans h0
  have e2 : s.led.xpoll = 0 := b.trans h0
  have e3 : s.led.tp = 0 := c.trans h0
  have e4 : s.led.badRelease = 0 := d
  cases hl : s.led with
  | mk sk xp tp bad =>
    rw [hl] at e1 e2 e3 e4
    simp only at e1 e2 e3 e4
    subst e1 e2 e3 e4
    rfl

/-- non-vacuity: a blocking accept that is restarted twice and then fails in finish holds nothing afterwards -/
example : (({} : Ledger).run (Life.accept true false 8 [none, none, some EAGAIN, none, none, some EAGAIN, none, none, none, some 104]).2) = {} := by decide

/-! ### cleanup locality at the source level (table regenerated from /repo on every run by extract/ext_owner.py)

`xcm_cleanup` in a forked child reaches the destructors with `owner = false`.  The epoll instances (and the files on disk)
are shared with the owner, so on that path no xpoll registration may be changed and nothing may be unlinked. -/

/-- every call that changes a shared object inside a function with an `owner` parameter is under an `if (owner ...)` -/
theorem C08_cleanup_sites_guarded : ∀ s ∈ Generated.ownerSites, s.guarded = true := by decide

/-- and the flag is handed on unchanged (never a literal `true`) to every callee that takes one -/
theorem C08_cleanup_delegations_pass_owner :
    ∀ d ∈ Generated.ownerDelegations, d.arg = "owner" ∨ d.arg = "false" ∨ d.guarded = true := by decide

/-- the chain starts right: every call into the destructors from a function without an owner parameter passes a literal,
and the `*_cleanup` operations (what `xcm_cleanup` reaches through `xcm_tp_socket_cleanup`) pass `false` -/
theorem C08_cleanup_entries_pass_false :
    ∀ e ∈ Generated.ownerEntries, (e.arg = "true" ∨ e.arg = "false") ∧ (e.isCleanup = true → e.arg = "false") := by decide

example : (Generated.ownerEntries.filter (·.isCleanup)).length ≥ 4 := by decide

/-- non-vacuity: the table is not empty and covers the control interface, the timers and the transports -/
example : Generated.ownerSites.length ≥ 9 ∧ "remove_client" ∈ Generated.ownerFunctions ∧ "timer_mgr_destroy" ∈ Generated.ownerFunctions := by
  decide

end XcmModel.C08
