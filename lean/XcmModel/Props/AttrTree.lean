import XcmModel.AttrTree
/-!
  Theorems about the attribute tree model (attr_tree.c over attr_node.c), for every tree and every path:
  an added value is found under its own name, adding a node leaves every unrelated name as it was, `get_all` lists exactly
  the readable values that were added, and every listed name is found again as that very attribute (C10, C19: the names
  `xcm_attr_get_all` reports are accepted by `xcm_attr_get` and denote the same attribute).
-/
namespace XcmModel.AttrTreeProps
open XcmModel XcmModel.AttrPath XcmModel.AttrTree

theorem find_append_fresh (t : Tree) (p : Path) (n : Node)
    (hfresh : ∀ e ∈ t, e.1 ≠ p) : (t ++ [(p, n)]).find? (fun e => e.1 == p) = some (p, n) := by
  rw [List.find?_append]
  have : t.find? (fun e => e.1 == p) = none := by
    apply List.find?_eq_none.mpr
    intro e he; simpa using hfresh e he
  simp [this]

/-- an added value node is found under its own path -/
theorem lookup_add_value_same (t : Tree) (p : Path) (id : Nat) (r : Bool) (hp : p ≠ [])
    (hfresh : ∀ e ∈ t, e.1 ≠ p) : lookup (add t p (.value id r)) p = .value id r := by
  simp [lookup, add, hp, find_append_fresh t p _ hfresh]

/-- an added (empty) list node is found as a list; its length counts the elements added under it -/
theorem lookup_add_list_same (t : Tree) (p : Path) (hp : p ≠ []) (hfresh : ∀ e ∈ t, e.1 ≠ p) :
    ∃ n, lookup (add t p .list) p = .list n := by
  simp [lookup, add, hp, find_append_fresh t p _ hfresh]

/-- `q` is a proper prefix of `p` -/
def ProperPrefix (q p : Path) : Prop := q.length < p.length ∧ p.take q.length = q

/-- adding a node at `p` changes the lookup of no other path, except that the proper prefixes of `p` become (or stay)
containers -/
theorem lookup_add_unrelated (t : Tree) (p q : Path) (n : Node) (hne : q ≠ p) (hnp : ¬ ProperPrefix q p) :
    lookup (add t p n) q = lookup t q := by
  unfold lookup add
  by_cases hq : q = []
  · simp [hq]
  · simp only [hq, if_false]
    have hf : (t ++ [(p, n)]).find? (fun e => e.1 == q) = t.find? (fun e => e.1 == q) := by
      rw [List.find?_append]
      cases h : t.find? (fun e => e.1 == q) with
      | some x => simp
      | none =>
        have : (p == q) = false := by simpa using Ne.symm hne
        simp [List.find?, this]
    have hn : nexts (t ++ [(p, n)]) q = nexts t q := by
      unfold nexts
      rw [List.filterMap_append]
      have : ¬ (q.length < p.length ∧ p.take q.length = q) := hnp
      simp [this]
    rw [hf, hn]

/-- `get_all` lists exactly the readable value nodes that were added, each once, under the path it was added with -/
theorem allValues_add_readable (t : Tree) (p : Path) (id : Nat) :
    allValues (add t p (.value id true)) = allValues t ++ [(p, id)] := by
  simp [allValues, add, List.filterMap_append]

theorem allValues_add_unreadable (t : Tree) (p : Path) (id : Nat) :
    allValues (add t p (.value id false)) = allValues t := by
  simp [allValues, add, List.filterMap_append]

theorem allValues_add_list (t : Tree) (p : Path) : allValues (add t p .list) = allValues t := by
  simp [allValues, add, List.filterMap_append]

/-- with distinct paths, the first entry with path `p` is the entry -/
theorem find_of_mem (t : Tree) (p : Path) (n : Node) (hm : (p, n) ∈ t) (nd : (t.map (·.1)).Nodup) :
    t.find? (fun e => e.1 == p) = some (p, n) := by
  induction t with
  | nil => cases hm
  | cons x r ih =>
    simp only [List.map_cons, List.nodup_cons] at nd
    rcases List.mem_cons.mp hm with e | e
    · subst e; simp
    · have hne : x.1 ≠ p := fun e' => nd.1 (by rw [e']; exact List.mem_map_of_mem (f := (·.1)) e)
      have : (x.1 == p) = false := by simpa using hne
      rw [List.find?_cons]; simp only [this]; exact ih e nd.2

/-- **every name listed by get_all is found again, as that very attribute** (paths are distinct because an add onto an
existing key is refused by `ut_assert(!attr_node_dict_has_key)`) -/
theorem listed_is_found (t : Tree) (nd : (t.map (·.1)).Nodup) (hne : ∀ e ∈ t, e.1 ≠ [])
    (p : Path) (id : Nat) (h : (p, id) ∈ allValues t) : lookup t p = .value id true := by
  unfold allValues at h
  obtain ⟨⟨q, n⟩, hm, hq⟩ := List.mem_filterMap.mp h
  cases n with
  | list => simp at hq
  | value i r =>
    cases r with
    | false => simp at hq
    | true =>
      simp only [Option.some.injEq, Prod.mk.injEq] at hq
      obtain ⟨rfl, rfl⟩ := hq
      have hp : q ≠ [] := hne _ hm
      simp [lookup, hp, find_of_mem t q _ hm nd]

/-- ... and nothing that is not listed is found as a readable value -/
theorem found_is_listed (t : Tree) (p : Path) (id : Nat) (h : lookup t p = .value id true) :
    (p, id) ∈ allValues t := by
  unfold lookup at h
  split at h
  · cases h
  · split at h
    · rename_i q i r hf
      simp only [Found.value.injEq] at h
      obtain ⟨rfl, rfl⟩ := h
      have hm := List.mem_of_find?_eq_some hf
      have hq : q = p := by simpa using List.find?_some hf
      subst hq
      exact List.mem_filterMap.mpr ⟨_, hm, rfl⟩
    · cases h
    · split at h <;> cases h

/-- the component-by-component walk of `node_lookup` either finds nothing or finds what the flat lookup finds -/
theorem lookupWalk_sound (t : Tree) (p : Path) : lookupWalk t p = lookup t p ∨ lookupWalk t p = .none := by
  unfold lookupWalk; split
  · exact Or.inl rfl
  · exact Or.inr rfl

/-- so whatever `xcm_attr_get` finds as a readable value is an attribute `xcm_attr_get_all` lists, under that name -/
theorem walk_found_is_listed (t : Tree) (p : Path) (id : Nat) (h : lookupWalk t p = .value id true) :
    (p, id) ∈ allValues t := by
  rcases lookupWalk_sound t p with e | e
  · exact found_is_listed t p id (by rw [← e]; exact h)
  · rw [e] at h; cases h

/-! non-vacuity: the tree of the harness's fixed prefix -/
example :
    let t : Tree := add (add (add (add [] [.key [97], .key [98]] (.value 1 true)) [.key [97], .key [108]] .list)
      [.key [97], .key [108], .index 0] (.value 2 true)) [.key [97], .key [108], .index 1, .key [120]] (.value 3 true)
    lookupWalk t [.key [97], .key [108], .index 1, .key [120]] = .value 3 true ∧
    lookupWalk t [.key [97], .key [108]] = .list 2 ∧ lookupWalk t [.key [97], .key [108], .index 2] = .none ∧
    lookupWalk t [.key [97], .index 0] = .none ∧ lookupWalk t [.key [97]] = .dict ∧
    allValues t = [([.key [97], .key [98]], 1), ([.key [97], .key [108], .index 0], 2), ([.key [97], .key [108], .index 1, .key [120]], 3)] := by
  decide

end XcmModel.AttrTreeProps
