import XcmModel.AttrMap
import XcmModel.AttrPath
import XcmModel.Lemmas.Libc
import Batteries.Data.List.Perm
/-!
# C19 — attribute maps are finite maps; attribute paths are canonical

Part 1: `xcm_attr_map` refines the mathematical finite map `Bytes → Option (Ty × Bytes)`.
Part 2: `attr_path` parse/print round trip and canonical form.

Environment assumptions: names and path strings are C strings (no interior NUL) – not
needed by any statement below (the model functions are total on all byte lists).
-/
namespace XcmModel.C19
open XcmModel XcmModel.AttrMap

/-- The specification: a finite map from names to typed values. -/
abbrev Spec := Bytes → Option (Ty × Bytes)

def abs (m : Map) : Spec := fun n => get m n

/-- Representation invariant: no two list entries carry the same name. -/
def Inv (m : Map) : Prop := (m.map (·.name)).Nodup

theorem inv_nil : Inv [] := by simp [Inv]

/-! ### lookup / del / add -/

theorem lookup_cons (a : Attr) (m : Map) (n : Bytes) :
    lookup (a :: m) n = if a.name = n then some a else lookup m n := by
  simp only [lookup, List.find?_cons]
  by_cases h : a.name = n
  · simp [h]
  · have : (a.name == n) = false := by simpa using h
    simp [this, h]

theorem lookup_none_iff (m : Map) (n : Bytes) : lookup m n = none ↔ n ∉ m.map (·.name) := by
  induction m with
  | nil => simp [lookup]
  | cons a m ih =>
    rw [lookup_cons]
    by_cases h : a.name = n
    · simp [h]
    · simp only [h, if_false, ih, List.map_cons, List.mem_cons, not_or]
      constructor
      · intro hh; exact ⟨fun e => h e.symm, hh⟩
      · intro hh; exact hh.2

theorem lookup_some_name {m : Map} {n : Bytes} {a : Attr} (h : lookup m n = some a) : a.name = n := by
  have := List.find?_some h
  simpa using this

theorem lookup_some_mem {m : Map} {n : Bytes} {a : Attr} (h : lookup m n = some a) : a ∈ m :=
  List.mem_of_find?_eq_some h

theorem del_cons (a : Attr) (m : Map) (n : Bytes) :
    del (a :: m) n = if a.name = n then m else a :: del m n := by
  simp only [del, List.eraseP_cons]
  by_cases h : a.name = n
  · simp [h]
  · have : (a.name == n) = false := by simpa using h
    simp [this, h]

theorem lookup_del_ne (m : Map) {n n' : Bytes} (h : n' ≠ n) : lookup (del m n) n' = lookup m n' := by
  induction m with
  | nil => simp [del]
  | cons a m ih =>
    rw [del_cons]
    by_cases ha : a.name = n
    · simp only [ha, if_true]
      rw [lookup_cons]
      have : ¬ a.name = n' := fun e => h (e.symm.trans ha)
      simp [this]
    · simp only [ha, if_false]
      rw [lookup_cons, lookup_cons, ih]

theorem names_del_sublist (m : Map) (n : Bytes) :
    ((del m n).map (·.name)).Sublist (m.map (·.name)) :=
  (List.eraseP_sublist (l := m)).map _

theorem inv_del {m : Map} (h : Inv m) (n : Bytes) : Inv (del m n) :=
  (names_del_sublist m n).nodup h

theorem lookup_del_self {m : Map} (h : Inv m) (n : Bytes) : lookup (del m n) n = none := by
  induction m with
  | nil => simp [del, lookup]
  | cons a m ih =>
    have hm : Inv m := by
      simp only [Inv, List.map_cons, List.nodup_cons] at h; exact h.2
    rw [del_cons]
    by_cases ha : a.name = n
    · simp only [ha, if_true]
      rw [lookup_none_iff]
      simp only [Inv, List.map_cons, List.nodup_cons] at h
      rw [← ha]; exact h.1
    · simp only [ha, if_false]
      rw [lookup_cons]; simp [ha, ih hm]

/-- `add` replaces: afterwards the name maps to exactly the new value, every other name is
untouched.  (No invariant needed: the new entry is at the head.) -/
theorem abs_add (m : Map) (a : Attr) (n : Bytes) :
    abs (add m a) n = if n = a.name then some (a.ty, a.val) else abs m n := by
  simp only [abs, AttrMap.get, add]
  rw [lookup_cons]
  by_cases h : n = a.name
  · simp [h]
  · have h' : ¬ a.name = n := fun e => h e.symm
    simp only [h', h, if_false]
    rw [lookup_del_ne m h]

theorem abs_del {m : Map} (hm : Inv m) (n n' : Bytes) :
    abs (del m n) n' = if n' = n then none else abs m n' := by
  simp only [abs, AttrMap.get]
  by_cases h : n' = n
  · subst h; simp [lookup_del_self hm]
  · simp [h, lookup_del_ne m h]

theorem inv_add {m : Map} (hm : Inv m) (a : Attr) : Inv (add m a) := by
  simp only [Inv, add, List.map_cons, List.nodup_cons]
  refine ⟨?_, inv_del hm a.name⟩
  rw [← lookup_none_iff]
  exact lookup_del_self hm a.name

/-! ### observers -/

/-- a typed lookup returns the value iff the stored type matches; `none` (C: `NULL`) on a
type mismatch or a missing name -/
theorem getTyped_spec (m : Map) (n : Bytes) (t : Ty) :
    getTyped m n t = match abs m n with
      | some (t', v) => if t' = t then some v else none
      | none => none := by
  simp only [getTyped, abs, AttrMap.get]
  cases lookup m n <;> simp

theorem exists_spec (m : Map) (n : Bytes) : AttrMap.exists m n = (abs m n).isSome := by
  simp only [AttrMap.exists, abs, AttrMap.get]
  cases lookup m n <;> simp

/-- `size` is the cardinality of the domain: the key list has no duplicates, has `size`
elements, and a name is in it iff it is mapped. -/
theorem size_spec {m : Map} (hm : Inv m) :
    size m = (m.map (·.name)).length ∧ (m.map (·.name)).Nodup ∧
      ∀ n, n ∈ m.map (·.name) ↔ (abs m n).isSome := by
  refine ⟨by simp [size], hm, fun n => ?_⟩
  have := lookup_none_iff m n
  simp only [abs, AttrMap.get]
  cases h : lookup m n with
  | none => simp [(this.mp h)]
  | some a =>
    simp only [Option.map_some, Option.isSome_some, iff_true]
    rw [← lookup_some_name h]
    exact List.mem_map_of_mem (lookup_some_mem h)

/-- `foreach` visits exactly the graph of the map, each binding once. -/
theorem foreach_spec {m : Map} (hm : Inv m) (a : Attr) :
    a ∈ foreach m ↔ abs m a.name = some (a.ty, a.val) := by
  simp only [foreach, abs, AttrMap.get]
  induction m with
  | nil => simp [lookup]
  | cons b m ih =>
    have hm' : Inv m := by
      simp only [Inv, List.map_cons, List.nodup_cons] at hm; exact hm.2
    have hb : b.name ∉ m.map (·.name) := by
      simp only [Inv, List.map_cons, List.nodup_cons] at hm; exact hm.1
    rw [lookup_cons, List.mem_cons]
    by_cases h : b.name = a.name
    · simp only [h, if_true, Option.map_some, Option.some.injEq, Prod.mk.injEq]
      constructor
      · rintro (rfl | hmem)
        · exact ⟨rfl, rfl⟩
        · exfalso; apply hb; rw [h]; exact List.mem_map_of_mem hmem
      · rintro ⟨h1, h2⟩
        left
        cases a; cases b; simp_all
    · simp only [h, if_false]
      rw [← ih hm']
      constructor
      · rintro (rfl | hmem)
        · exact absurd rfl h
        · exact hmem
      · intro hmem; exact Or.inr hmem

/-! ### add_all / clone -/

theorem inv_addAll {d : Map} (hd : Inv d) (s : Map) : Inv (addAll d s) := by
  simp only [addAll]
  induction s generalizing d with
  | nil => simpa
  | cons a s ih => simp only [List.foldl_cons]; exact ih (inv_add hd a)

/-- `add_all` overrides: names bound in `src` take `src`'s binding, all others keep
`dst`'s. -/
theorem abs_addAll (d : Map) {s : Map} (hs : Inv s) (n : Bytes) :
    abs (addAll d s) n = (abs s n).or (abs d n) := by
  simp only [addAll]
  induction s generalizing d with
  | nil => simp [abs, AttrMap.get, lookup]
  | cons a s ih =>
    have hs' : Inv s := by
      simp only [Inv, List.map_cons, List.nodup_cons] at hs; exact hs.2
    have ha : a.name ∉ s.map (·.name) := by
      simp only [Inv, List.map_cons, List.nodup_cons] at hs; exact hs.1
    simp only [List.foldl_cons]
    rw [ih (add d a) hs', abs_add]
    by_cases h : n = a.name
    · subst h
      have h1 : abs s a.name = none := by
        simp only [abs, AttrMap.get]; rw [(lookup_none_iff s a.name).mpr ha]; rfl
      have h2 : abs (a :: s) a.name = some (a.ty, a.val) := by
        simp only [abs, AttrMap.get]; rw [lookup_cons]; simp
      simp [h1, h2]
    · have h2 : abs (a :: s) n = abs s n := by
        simp only [abs, AttrMap.get]; rw [lookup_cons]
        have : ¬ a.name = n := fun e => h e.symm
        simp [this]
      simp [h, h2]

/-- a clone denotes the same finite map (it is built by `foreach`+`add`, so its *list*
order is reversed, which is why this is a statement about `abs`). -/
theorem abs_clone {m : Map} (hm : Inv m) : abs (clone m) = abs m := by
  funext n
  simp only [clone]
  rw [abs_addAll [] hm]
  cases h : abs m n <;> simp [abs, AttrMap.get, lookup]

theorem inv_clone (m : Map) : Inv (clone m) := inv_addAll inv_nil m

/-! ### equality is extensional (insertion-order independent) -/

theorem equal_iff {a b : Map} (ha : Inv a) (hb : Inv b) : equal a b = true ↔ abs a = abs b := by
  constructor
  · intro h
    simp only [equal, Bool.and_eq_true, beq_iff_eq, List.all_eq_true] at h
    obtain ⟨hlen, hall⟩ := h
    -- every binding of a is a binding of b
    have hsub : ∀ x ∈ a, abs b x.name = some (x.ty, x.val) := by
      intro x hx
      have := hall x hx
      simp only [abs, AttrMap.get]
      cases hl : lookup b x.name with
      | none => simp [hl] at this
      | some y =>
        simp only [hl, Bool.and_eq_true, decide_eq_true_eq, beq_iff_eq] at this
        simp [this.1, this.2]
    -- keys a ⊆ keys b, no duplicates, same length ⇒ keys b ⊆ keys a
    have hk : a.map (·.name) ⊆ b.map (·.name) := by
      intro n hn
      obtain ⟨x, hx, rfl⟩ := List.mem_map.mp hn
      have := hsub x hx
      rw [(size_spec hb).2.2]; simp [this]
    have hperm : (a.map (·.name)).Perm (b.map (·.name)) :=
      (List.subperm_of_subset ha hk).perm_of_length_le (by simp [hlen])
    funext n
    by_cases hn : n ∈ a.map (·.name)
    · obtain ⟨x, hx, rfl⟩ := List.mem_map.mp hn
      rw [hsub x hx]
      exact (foreach_spec ha x).mp hx
    · have hn' : n ∉ b.map (·.name) := fun h' => hn (hperm.symm.subset h')
      simp only [abs, AttrMap.get]
      rw [(lookup_none_iff a n).mpr hn, (lookup_none_iff b n).mpr hn']
  · intro h
    simp only [equal, Bool.and_eq_true, beq_iff_eq, List.all_eq_true]
    have hkeys : ∀ n, n ∈ a.map (·.name) ↔ n ∈ b.map (·.name) := by
      intro n; rw [(size_spec ha).2.2, (size_spec hb).2.2, h]
    have hperm : (a.map (·.name)).Perm (b.map (·.name)) :=
      (List.perm_ext_iff_of_nodup ha hb).mpr hkeys
    refine ⟨by simpa using hperm.length_eq, ?_⟩
    intro x hx
    have hx' := (foreach_spec ha x).mp hx
    rw [h] at hx'
    simp only [abs, AttrMap.get] at hx'
    cases hl : lookup b x.name with
    | none => simp [hl] at hx'
    | some y =>
      simp only [hl, Option.map_some, Option.some.injEq, Prod.mk.injEq] at hx'
      simp [hx'.1, hx'.2]

/-! ### The refinement over whole operation histories on any number of maps

The table of maps is a total function from handles to maps plus the next free handle
(`xcm_attr_map_create`/`clone` return fresh handles); value semantics of the table is what
"clones are independent deep copies" means, and the harness is what checks that the C
implementation has value semantics (it scribbles over and frees caller buffers, mutates
clones and originals independently and compares every map with the model). -/

inductive Op where
  | new
  | add (i : Nat) (a : Attr)
  | del (i : Nat) (n : Bytes)
  | clone (i : Nat)
  | addAll (dst src : Nat)
  | get (i : Nat) (n : Bytes)
  | getTyped (i : Nat) (n : Bytes) (t : Ty)
  | exists (i : Nat) (n : Bytes)
  | equal (i j : Nat)

inductive Out where
  | unit
  | val (v : Option (Ty × Bytes))
  | tval (v : Option Bytes)
  | bool (b : Bool)
  deriving DecidableEq

structure CState where
  maps : Nat → Map
  next : Nat

structure SState where
  maps : Nat → Spec
  next : Nat

def upd {α : Type} (f : Nat → α) (i : Nat) (v : α) : Nat → α := fun k => if k = i then v else f k

/-- concrete machine: a table of list-represented maps -/
def cstep (σ : CState) : Op → CState × Out
  | .new => ({ maps := upd σ.maps σ.next [], next := σ.next + 1 }, .unit)
  | .add i a => ({ σ with maps := upd σ.maps i (AttrMap.add (σ.maps i) a) }, .unit)
  | .del i n => ({ σ with maps := upd σ.maps i (AttrMap.del (σ.maps i) n) }, .unit)
  | .clone i => ({ maps := upd σ.maps σ.next (AttrMap.clone (σ.maps i)), next := σ.next + 1 }, .unit)
  | .addAll d s =>
    (if d = s then σ else { σ with maps := upd σ.maps d (AttrMap.addAll (σ.maps d) (σ.maps s)) }, .unit)
  | .get i n => (σ, .val (AttrMap.get (σ.maps i) n))
  | .getTyped i n t => (σ, .tval (AttrMap.getTyped (σ.maps i) n t))
  | .exists i n => (σ, .bool (AttrMap.exists (σ.maps i) n))
  | .equal i j => (σ, .bool (AttrMap.equal (σ.maps i) (σ.maps j)))

/-- abstract machine: a table of mathematical finite maps.  Extensional equality of
functions is not computable, so the spec's `equal` is decided classically; this is the
*specification*, it is never executed. -/
noncomputable def sstep (σ : SState) : Op → SState × Out
  | .new => ({ maps := upd σ.maps σ.next (fun _ => none), next := σ.next + 1 }, .unit)
  | .add i a =>
    ({ σ with maps := upd σ.maps i (fun n => if n = a.name then some (a.ty, a.val) else σ.maps i n) }, .unit)
  | .del i n => ({ σ with maps := upd σ.maps i (fun n' => if n' = n then none else σ.maps i n') }, .unit)
  | .clone i => ({ maps := upd σ.maps σ.next (σ.maps i), next := σ.next + 1 }, .unit)
  | .addAll d s =>
    (if d = s then σ else { σ with maps := upd σ.maps d (fun n => (σ.maps s n).or (σ.maps d n)) }, .unit)
  | .get i n => (σ, .val (σ.maps i n))
  | .getTyped i n t => (σ, .tval (match σ.maps i n with
      | some (t', v) => if t' = t then some v else none
      | none => none))
  | .exists i n => (σ, .bool (σ.maps i n).isSome)
  | .equal i j => (σ, .bool (@decide (σ.maps i = σ.maps j) (Classical.propDecidable _)))

def crun : CState → List Op → CState × List Out
  | σ, [] => (σ, [])
  | σ, op :: ops =>
    let r := cstep σ op
    let r' := crun r.1 ops
    (r'.1, r.2 :: r'.2)

noncomputable def srun : SState → List Op → SState × List Out
  | σ, [] => (σ, [])
  | σ, op :: ops =>
    let r := sstep σ op
    let r' := srun r.1 ops
    (r'.1, r.2 :: r'.2)

def absS (σ : CState) : SState := { maps := fun k => abs (σ.maps k), next := σ.next }

def InvS (σ : CState) : Prop := ∀ k, Inv (σ.maps k)

theorem upd_abs (f : Nat → Map) (i : Nat) (m : Map) :
    (fun k => abs (upd f i m k)) = upd (fun k => abs (f k)) i (abs m) := by
  funext k; simp only [upd]; split <;> rfl

theorem inv_upd {f : Nat → Map} (h : ∀ k, Inv (f k)) (i : Nat) {m : Map} (hm : Inv m) :
    ∀ k, Inv (upd f i m k) := by
  intro k; simp only [upd]; split
  · exact hm
  · exact h k

theorem cstep_refines (σ : CState) (h : InvS σ) (op : Op) :
    absS (cstep σ op).1 = (sstep (absS σ) op).1 ∧ (cstep σ op).2 = (sstep (absS σ) op).2 ∧
    InvS (cstep σ op).1 := by
  cases op with
  | new =>
    refine ⟨?_, rfl, inv_upd h _ inv_nil⟩
    simp only [cstep, sstep, absS, upd_abs]
    congr
  | add i a =>
    refine ⟨?_, rfl, inv_upd h _ (inv_add (h i) a)⟩
    simp only [cstep, sstep, absS, upd_abs]
    congr 2
    funext n; exact abs_add _ _ _
  | del i n =>
    refine ⟨?_, rfl, inv_upd h _ (inv_del (h i) n)⟩
    simp only [cstep, sstep, absS, upd_abs]
    congr 2
    funext n'; exact abs_del (h i) _ _
  | clone i =>
    refine ⟨?_, rfl, inv_upd h _ (inv_clone _)⟩
    simp only [cstep, sstep, absS, upd_abs, abs_clone (h i)]
  | addAll d s =>
    by_cases hds : d = s
    · subst hds; simp only [cstep, sstep, if_true]; exact ⟨trivial, trivial, h⟩
    · refine ⟨?_, rfl, ?_⟩
      · simp only [cstep, sstep, hds, if_false, absS, upd_abs]
        congr 2
        funext n; exact abs_addAll _ (h s) _
      · simp only [cstep, hds, if_false]
        exact inv_upd h _ (inv_addAll (h d) _)
  | get i n => exact ⟨rfl, rfl, h⟩
  | getTyped i n t =>
    refine ⟨rfl, ?_, h⟩
    simp only [cstep, sstep, absS]; rw [getTyped_spec]
  | «exists» i n =>
    refine ⟨rfl, ?_, h⟩
    simp only [cstep, sstep, absS]; rw [exists_spec]
  | equal i j =>
    refine ⟨rfl, ?_, h⟩
    simp only [cstep, sstep, absS]
    congr 1
    have := equal_iff (h i) (h j)
    by_cases he : abs (σ.maps i) = abs (σ.maps j)
    · simp [he, this.mpr he]
    · have : equal (σ.maps i) (σ.maps j) = false := by
        cases hb : equal (σ.maps i) (σ.maps j)
        · rfl
        · exact absurd (this.mp hb) he
      simp [he, this]

/-- **C19 (maps)**: for every history of operations on any number of maps, the C-shaped
list implementation and the mathematical finite-map specification produce the same
outputs and stay related by `abs`.  Histories are unbounded. -/
theorem C19_refines (ops : List Op) (σ : CState) (h : InvS σ) :
    absS (crun σ ops).1 = (srun (absS σ) ops).1 ∧ (crun σ ops).2 = (srun (absS σ) ops).2 ∧
    InvS (crun σ ops).1 := by
  induction ops generalizing σ with
  | nil => exact ⟨rfl, rfl, h⟩
  | cons op ops ih =>
    obtain ⟨h1, h2, h3⟩ := cstep_refines σ h op
    obtain ⟨i1, i2, i3⟩ := ih (cstep σ op).1 h3
    simp only [crun, srun]
    rw [← h1, ← h2]
    exact ⟨i1, by rw [i2], i3⟩

def CState.init : CState := { maps := fun _ => [], next := 0 }

theorem invS_init : InvS CState.init := fun _ => inv_nil

/-- stored values are byte-exact copies of what was supplied (type, length and bytes), and
they stay so under any later operations on *other* names or other maps -/
theorem C19_stored_bytes_exact (m : Map) (a : Attr) :
    AttrMap.get (AttrMap.add m a) a.name = some (a.ty, a.val) ∧
    AttrMap.getTyped (AttrMap.add m a) a.name a.ty = some a.val := by
  have h := abs_add m a a.name
  simp only [abs, if_true] at h
  refine ⟨h, ?_⟩
  rw [getTyped_spec]; simp only [abs]; rw [h]; simp

/-- non-vacuity: a concrete history with replacement, a clone diverging from its original and
an order-independent equality -/
example :
    let a1 : Attr := ⟨[97], .str, [120, 0]⟩
    let a2 : Attr := ⟨[98], .bool, [1]⟩
    let a1' : Attr := ⟨[97], .bin, []⟩
    (crun CState.init [.new, .add 0 a1, .add 0 a2, .new, .add 1 a2, .add 1 a1, .equal 0 1,
      .clone 0, .add 2 a1', .get 0 [97], .get 2 [97], .equal 0 2, .getTyped 2 [97] .str]).2
    = [.unit, .unit, .unit, .unit, .unit, .unit, .bool true, .unit, .unit,
       .val (some (.str, [120, 0])), .val (some (.bin, [])), .bool false, .tval none] := by
  decide


/-! ## Part 2 — attribute paths -/

section Path
open XcmModel.AttrPath XcmModel.Libc

/-- well-formed components: what `attr_path_parse` can produce -/
def CompWF : Comp → Prop
  | .key k => k ≠ [] ∧ ∀ c ∈ k, isKeyChar c = true
  | .index i => i < LONG_MAX

theorem takeWhile_length_le (p : UInt8 → Bool) (s : Bytes) : (s.takeWhile p).length ≤ s.length := by
  induction s with
  | nil => simp
  | cons a s ih => simp only [List.takeWhile_cons]; split <;> simp <;> omega

theorem mem_takeWhile_imp {p : UInt8 → Bool} {s : Bytes} {x : UInt8} (h : x ∈ s.takeWhile p) :
    p x = true := by
  have := List.all_takeWhile (l := s) (p := p)
  rw [List.all_eq_true] at this
  exact this x h

theorem parseKey_some {s : Bytes} {c : Comp} {n : Nat} (h : parseKey s = some (c, n)) :
    CompWF c ∧ n ≤ s.length ∧ 1 ≤ n ∧
      ∃ k, c = .key k ∧ n = k.length := by
  simp only [parseKey] at h
  split at h
  · cases h
  · rename_i hne
    simp only [Option.some.injEq, Prod.mk.injEq] at h
    obtain ⟨rfl, rfl⟩ := h
    refine ⟨⟨?_, ?_⟩, takeWhile_length_le _ _, ?_, _, rfl, rfl⟩
    · intro e; rw [e] at hne; simp at hne
    · intro x hx; exact (mem_takeWhile_imp hx)
    · cases hk : s.takeWhile isKeyChar with
      | nil => rw [hk] at hne; simp at hne
      | cons _ _ => simp

theorem strtol_consumed_le (s : Bytes) : (strtol s).2 ≤ s.length := by
  simp only [strtol]
  split
  · simp
  · simp only
    have h1 : (s.takeWhile isSpace).length + (s.dropWhile isSpace).length = s.length := by
      rw [← List.length_append, List.takeWhile_append_dropWhile]
    have h2 : (strtolSign (s.dropWhile isSpace)).2.2 + (strtolSign (s.dropWhile isSpace)).2.1.length
        = (s.dropWhile isSpace).length := by
      simp only [strtolSign]
      split
      · rename_i heq; simp [heq]; omega
      · rename_i heq; simp [heq]; omega
      · simp
    have h3 := takeWhile_length_le isDigit (strtolSign (s.dropWhile isSpace)).2.1
    omega

theorem parseIndex_some {s : Bytes} {c : Comp} {n : Nat} (h : parseIndex s = some (c, n)) :
    CompWF c ∧ n ≤ s.length ∧ ∃ i, c = .index i ∧ (natToDec i).length + 1 ≤ n := by
  simp only [parseIndex] at h
  generalize hst : strtol s = st at h
  obtain ⟨v, m⟩ := st
  simp only at h
  split at h; · cases h
  split at h; · cases h
  split at h; · cases h
  split at h; · cases h
  rename_i hm h93 hneg hmax
  simp only [Option.some.injEq, Prod.mk.injEq] at h
  obtain ⟨rfl, rfl⟩ := h
  have hm' : m ≠ 0 := by simpa using hm
  have h93' : s[m]? = some 93 := by simpa using h93
  have hlen : m < s.length := by
    rcases Nat.lt_or_ge m s.length with h' | h'
    · exact h'
    · rw [List.getElem?_eq_none h'] at h93'; cases h93'
  -- unfold strtol to learn the shape of v and m
  simp only [strtol] at hst
  split at hst
  · simp only [Prod.mk.injEq] at hst; exact absurd hst.2.symm hm'
  · rename_i hds
    simp only [Prod.mk.injEq] at hst
    obtain ⟨hv, hmm⟩ := hst
    generalize hsg : strtolSign (s.dropWhile isSpace) = sg at hv hmm hds
    obtain ⟨neg, r2, sl⟩ := sg
    simp only at hv hmm hds
    have hdne : r2.takeWhile isDigit ≠ [] := by
      intro e; rw [e] at hds; simp at hds
    have hdig : ∀ c ∈ r2.takeWhile isDigit, isDigit c = true := fun c hc => mem_takeWhile_imp hc
    have hlen2 := natToDec_digitsVal_length _ hdne hdig
    have hvnn : 0 ≤ v := by omega
    have hvmax : v ≠ (LONG_MAX : Int) := by simpa using hmax
    refine ⟨?_, by omega, v.toNat, rfl, ?_⟩
    · -- v.toNat < LONG_MAX
      show v.toNat < LONG_MAX
      simp only [strtolVal] at hv
      have : v ≤ (LONG_MAX : Int) := by
        rw [← hv]; split <;> split <;> omega
      omega
    · -- printed index is no longer than the digits consumed
      have hval : v.toNat ≤ digitsVal (r2.takeWhile isDigit) ∧
          (v.toNat = digitsVal (r2.takeWhile isDigit) ∨ v.toNat = 0) := by
        simp only [strtolVal] at hv
        rw [← hv]
        split <;> split <;> omega
      rcases hval.2 with he | he
      · rw [he]; omega
      · rw [he]
        have : (natToDec 0).length = 1 := by decide
        have : 1 ≤ (r2.takeWhile isDigit).length := by
          cases hk : r2.takeWhile isDigit with
          | nil => exact absurd hk hdne
          | cons _ _ => simp
        omega

theorem parseComp_some {s : Bytes} {c : Comp} {n : Nat} (h : parseComp s = some (c, n)) :
    CompWF c ∧ (printComp c).length ≤ n ∧ n ≤ s.length := by
  unfold parseComp at h
  split at h
  · cases h
  · rename_i t
    cases hi : parseIndex t with
    | none => simp [hi] at h
    | some r =>
      obtain ⟨c', n'⟩ := r
      simp only [hi, Option.map_some, Option.some.injEq, Prod.mk.injEq] at h
      obtain ⟨rfl, rfl⟩ := h
      obtain ⟨hwf, hle, i, rfl, hl⟩ := parseIndex_some hi
      refine ⟨hwf, ?_, by simp; omega⟩
      simp [printComp]; omega
  · rename_i t
    cases hi : parseKey t with
    | none => simp [hi] at h
    | some r =>
      obtain ⟨c', n'⟩ := r
      simp only [hi, Option.map_some, Option.some.injEq, Prod.mk.injEq] at h
      obtain ⟨rfl, rfl⟩ := h
      obtain ⟨hwf, hle, _, k, rfl, rfl⟩ := parseKey_some hi
      refine ⟨hwf, ?_, by simp; omega⟩
      simp [printComp]
  · cases h

theorem parseLoop_nonroot {fuel : Nat} {s : Bytes} {cnt : Nat} {p : Path}
    (h : parseLoop fuel s false cnt = some p) :
    (∀ c ∈ p, CompWF c) ∧ (p = [] ∨ cnt + p.length ≤ Generated.ATTR_PATH_COMP_MAX) ∧
      (p.flatMap printComp).length ≤ s.length := by
  induction fuel generalizing s cnt p with
  | zero => simp [parseLoop] at h
  | succ f ih =>
    simp only [parseLoop] at h
    split at h
    · simp only [Option.some.injEq] at h; subst h; simp
    · split at h
      · cases h
      · rename_i hcnt
        simp only [Bool.false_eq_true, if_false] at h
        cases hc : parseComp s with
        | none => simp [hc] at h
        | some r =>
          obtain ⟨c, n⟩ := r
          simp only [hc] at h
          cases hr : parseLoop f (s.drop n) false (cnt + 1) with
          | none => simp [hr] at h
          | some p' =>
            simp only [hr, Option.map_some, Option.some.injEq] at h
            subst h
            obtain ⟨hwf, hpl, hns⟩ := parseComp_some hc
            obtain ⟨i1, i2, i3⟩ := ih hr
            refine ⟨?_, Or.inr ?_, ?_⟩
            · intro c' hc'
              simp only [List.mem_cons] at hc'
              rcases hc' with rfl | hc'
              · exact hwf
              · exact i1 _ hc'
            · rcases i2 with rfl | i2
              · simp; omega
              · simp; omega
            · simp only [List.flatMap_cons, List.length_append]
              simp only [List.length_drop] at i3
              omega

/-- the bytes `attr_path_to_str` produces (defined whenever `print` is) -/
theorem print_nonroot (p : Path) : print p false = some (p.flatMap printComp) := by
  cases p <;> rfl

theorem parse_some {s : Bytes} {root : Bool} {p : Path} (h : parse s root = some p) :
    (∀ c ∈ p, CompWF c) ∧ p.length ≤ Generated.ATTR_PATH_COMP_MAX ∧
      s.length ≤ Generated.ATTR_PATH_NAME_MAX ∧
      ∃ t, print p root = some t ∧ t.length ≤ s.length := by
  simp only [parse] at h
  split at h
  · cases h
  · rename_i hlen
    have hlen' : s.length ≤ Generated.ATTR_PATH_NAME_MAX := by omega
    cases root with
    | false =>
      obtain ⟨h1, h2, h3⟩ := parseLoop_nonroot h
      refine ⟨h1, ?_, hlen', _, print_nonroot p, h3⟩
      rcases h2 with rfl | h2
      · simp
      · omega
    | true =>
      simp only [parseLoop] at h
      split at h
      · simp only [Option.some.injEq] at h; subst h
        exact ⟨by simp, by simp, hlen', [], rfl, by simp⟩
      · split at h
        · cases h
        · simp only [if_true] at h
          cases hc : parseKey s with
          | none => simp [hc] at h
          | some r =>
            obtain ⟨c, n⟩ := r
            simp only [hc] at h
            cases hr : parseLoop s.length (s.drop n) false (0 + 1) with
            | none => simp [hr] at h
            | some p' =>
              simp only [hr, Option.map_some, Option.some.injEq] at h
              subst h
              obtain ⟨hwf, hns, _, k, rfl, rfl⟩ := parseKey_some hc
              obtain ⟨i1, i2, i3⟩ := parseLoop_nonroot hr
              refine ⟨?_, ?_, hlen', k ++ p'.flatMap printComp, rfl, ?_⟩
              · intro c' hc'
                simp only [List.mem_cons] at hc'
                rcases hc' with rfl | hc'
                · exact hwf
                · exact i1 _ hc'
              · rcases i2 with rfl | i2
                · simp [Generated.ATTR_PATH_COMP_MAX]
                · simp; omega
              · simp only [List.length_append]
                simp only [List.length_drop] at i3
                omega

/-! ### printing then parsing -/

theorem head_flatMap_special (p : Path) :
    ∀ x, (p.flatMap printComp).head? = some x → isKeyChar x = false := by
  intro x hx
  cases p with
  | nil => simp at hx
  | cons c p =>
    cases c with
    | key k =>
      simp only [List.flatMap_cons, printComp, List.cons_append, List.head?_cons, Option.some.injEq] at hx
      subst hx; decide
    | index i =>
      simp only [List.flatMap_cons, printComp, List.cons_append, List.head?_cons, Option.some.injEq] at hx
      subst hx; decide

theorem takeWhile_append_stop (f : UInt8 → Bool) (k rest : Bytes) (hk : ∀ x ∈ k, f x = true)
    (hr : ∀ x, rest.head? = some x → f x = false) : (k ++ rest).takeWhile f = k := by
  rw [List.takeWhile_append_of_pos hk]
  cases rest with
  | nil => simp
  | cons r rs => simp [List.takeWhile_cons, hr r rfl]

theorem parseKey_print (k rest : Bytes) (hne : k ≠ []) (hk : ∀ x ∈ k, isKeyChar x = true)
    (hr : ∀ x, rest.head? = some x → isKeyChar x = false) :
    parseKey (k ++ rest) = some (.key k, k.length) := by
  simp only [parseKey, takeWhile_append_stop isKeyChar k rest hk hr]
  cases k with
  | nil => exact absurd rfl hne
  | cons _ _ => simp

theorem parseIndex_print (i : Nat) (rest : Bytes) (hi : i < LONG_MAX) :
    parseIndex (natToDec i ++ 93 :: rest) = some (.index i, (natToDec i).length + 1) := by
  have hst := strtol_digits (natToDec i) (93 :: rest) (natToDec_ne_nil i) (natToDec_digits i)
    (by intro c hc; simp only [List.head?_cons, Option.some.injEq] at hc; subst hc; decide)
  rw [digitsVal_natToDec] at hst
  have hnot : ¬ i > LONG_MAX := by omega
  simp only [hnot, if_false] at hst
  simp only [parseIndex, hst]
  have hl : (natToDec i).length ≠ 0 := by
    have := natToDec_ne_nil i
    cases h : natToDec i with
    | nil => exact absurd h this
    | cons _ _ => simp
  have h93 : (natToDec i ++ 93 :: rest)[(natToDec i).length]? = some 93 := by
    rw [List.getElem?_append_right (Nat.le_refl _)]; simp
  simp only [beq_iff_eq, hl, if_false, h93, bne_self_eq_false, Bool.false_eq_true]
  have h1 : ¬ ((i : Int) < 0) := by omega
  have h2 : ¬ ((i : Int) = (LONG_MAX : Int)) := by omega
  simp [h1, h2]

theorem parseComp_print (c : Comp) (rest : Bytes) (hc : CompWF c)
    (hr : ∀ x, rest.head? = some x → isKeyChar x = false) :
    parseComp (printComp c ++ rest) = some (c, (printComp c).length) := by
  cases c with
  | key k =>
    obtain ⟨hne, hk⟩ := hc
    simp only [printComp, List.cons_append, parseComp, parseKey_print k rest hne hk hr]
    simp
  | index i =>
    have hi : i < LONG_MAX := hc
    have e : printComp (.index i) ++ rest = 91 :: (natToDec i ++ 93 :: rest) := by simp [printComp]
    rw [e]
    simp only [parseComp, parseIndex_print i rest hi]
    simp [printComp]

theorem parseLoop_print (p : Path) (fuel cnt : Nat) (hwf : ∀ c ∈ p, CompWF c)
    (hcnt : cnt + p.length ≤ Generated.ATTR_PATH_COMP_MAX)
    (hf : (p.flatMap printComp).length < fuel) :
    parseLoop fuel (p.flatMap printComp) false cnt = some p := by
  induction p generalizing fuel cnt with
  | nil =>
    cases fuel with
    | zero => omega
    | succ f => simp [parseLoop]
  | cons c p ih =>
    cases fuel with
    | zero => omega
    | succ f =>
      have hc := hwf c (by simp)
      have hne : (printComp c ++ p.flatMap printComp).isEmpty = false := by
        cases c <;> simp [printComp]
      simp only [List.length_cons] at hcnt
      have hlt : ¬ cnt ≥ Generated.ATTR_PATH_COMP_MAX := by omega
      simp only [List.flatMap_cons, parseLoop, hne, Bool.false_eq_true, if_false, hlt,
        parseComp_print c _ hc (head_flatMap_special p), List.drop_left]
      simp only [List.flatMap_cons, List.length_append] at hf
      have hpl : 1 ≤ (printComp c).length := by cases c <;> simp [printComp]
      rw [ih f (cnt + 1) (fun c' hc' => hwf c' (List.mem_cons_of_mem _ hc')) (by omega) (by omega)]
      rfl

/-- **C19 (paths), round trip**: whatever `attr_path_parse` accepts prints
(`attr_path_to_str`) to a string that is *no longer* than the input and parses back to an
equal path. -/
theorem C19_path_roundtrip (s : Bytes) (root : Bool) (p : Path) (h : parse s root = some p) :
    ∃ t, print p root = some t ∧ t.length ≤ s.length ∧ parse t root = some p := by
  obtain ⟨hwf, hcnt, hlen, t, ht, htl⟩ := parse_some h
  refine ⟨t, ht, htl, ?_⟩
  have htmax : ¬ t.length > Generated.ATTR_PATH_NAME_MAX := by omega
  simp only [parse, htmax, if_false]
  cases root with
  | false =>
    rw [print_nonroot] at ht
    simp only [Option.some.injEq] at ht; subst ht
    exact parseLoop_print p _ 0 hwf (by omega) (by omega)
  | true =>
    cases p with
    | nil =>
      simp only [print, Option.some.injEq] at ht; subst ht
      simp [parseLoop]
    | cons c p' =>
      cases c with
      | index i => simp [print] at ht
      | key k =>
        simp only [print, Option.some.injEq] at ht; subst ht
        obtain ⟨hne, hk⟩ : CompWF (.key k) := hwf _ (by simp)
        have hne' : (k ++ p'.flatMap printComp).isEmpty = false := by
          cases k with
          | nil => exact absurd rfl hne
          | cons _ _ => simp
        have h0 : ¬ (0 : Nat) ≥ Generated.ATTR_PATH_COMP_MAX := by decide
        simp only [parseLoop, hne', Bool.false_eq_true, if_false, h0, if_true,
          parseKey_print k _ hne hk (head_flatMap_special p'), List.drop_left]
        simp only [List.length_cons] at hcnt
        have hkl : 1 ≤ k.length := by
          cases k with
          | nil => exact absurd rfl hne
          | cons _ _ => simp
        have hal : (k ++ p'.flatMap printComp).length = k.length + (p'.flatMap printComp).length :=
          List.length_append
        rw [parseLoop_print p' _ (0 + 1) (fun c' hc' => hwf c' (List.mem_cons_of_mem _ hc'))
          (by omega) (by omega)]
        rfl

/-- **canonical form**: the printed form of a parsed path is a fixed point of parse∘print -/
theorem C19_path_canonical (s : Bytes) (root : Bool) (p : Path) (t : Bytes)
    (h : parse s root = some p) (ht : print p root = some t) :
    ∃ p', parse t root = some p' ∧ print p' root = some t := by
  obtain ⟨t', ht', _, hp⟩ := C19_path_roundtrip s root p h
  rw [ht] at ht'; cases ht'
  exact ⟨p, hp, ht⟩

/-- canonicalisation never lengthens a name (so it stays within the length limit) -/
theorem C19_path_no_longer (s : Bytes) (root : Bool) (p : Path) (t : Bytes)
    (h : parse s root = some p) (ht : print p root = some t) :
    t.length ≤ s.length ∧ t.length ≤ Generated.ATTR_PATH_NAME_MAX := by
  obtain ⟨_, _, hlen, t', ht', htl⟩ := parse_some h
  rw [ht] at ht'; cases ht'
  exact ⟨htl, by omega⟩

/-- strings over the length limit are rejected -/
theorem C19_path_rejects_long (s : Bytes) (root : Bool)
    (h : s.length > Generated.ATTR_PATH_NAME_MAX) : parse s root = none := by
  simp [parse, h]

/-- the component array of `struct attr_path` is never overrun -/
theorem C19_path_comp_bound (s : Bytes) (root : Bool) (p : Path) (h : parse s root = some p) :
    p.length ≤ Generated.ATTR_PATH_COMP_MAX := (parse_some h).2.1

/-- accepted paths are inside the documented syntax: keys are non-empty and free of
`[`, `]`, `.`; indices are non-negative and below `LONG_MAX`; `attr_path_to_str` never trips
its assertion on them -/
theorem C19_path_parse_wf (s : Bytes) (root : Bool) (p : Path) (h : parse s root = some p) :
    (∀ c ∈ p, CompWF c) ∧ (print p root).isSome := by
  obtain ⟨hwf, _, _, t, ht, _⟩ := parse_some h
  exact ⟨hwf, by simp [ht]⟩

/-- non-vacuity: `xcm.x[ 007].y` parses, prints canonically (`xcm.x[7].y`) and re-parses -/
example : parse [120, 99, 109, 46, 120, 91, 32, 48, 48, 55, 93, 46, 121] true
      = some [.key [120, 99, 109], .key [120], .index 7, .key [121]]
    ∧ print [.key [120, 99, 109], .key [120], .index 7, .key [121]] true
      = some [120, 99, 109, 46, 120, 91, 55, 93, 46, 121] := by
  decide

end Path

end XcmModel.C19
