import XcmModel.Lemmas.Tp
import XcmModel.Lemmas.Btls
import XcmModel.Props.C16
import XcmModel.Lemmas.Framing
import XcmModel.Lemmas.Api
/-
  C04 - the event-loop contract is live: no lost wake-ups, blocking calls return.

  Liveness is proved in its safety form, layer by layer: *whenever a cause of possible progress
  exists, the corresponding layer has asked the layer below to be woken for it*, down to the kernel's
  epoll interest list (C16_readable_when_met: a true requested event or a ringing bell makes the
  socket's fd readable - K-epoll).  Together with a strictly decreasing measure per step (bytes left to
  flush, addresses left to try, loop iterations of the blocking wrappers) this is the contract of
  the property; the composition over real time (K-progress: a writable socket accepts at least one
  byte, data in flight becomes readable) is an assumption and is measured by sys_loop.
-/
namespace XcmModel.C04
open XcmModel

/-! ### framing layer (tcp, tls): a buffered message keeps the lower layer's SENDABLE interest alive -/

/-- **no lost wake-up for a pending flush**: while any byte of an accepted message is still buffered,
`tcp_update`/`tls_update` ask the lower socket for SENDABLE, whatever condition the application awaits
(even 0) - so the connection's fd becomes readable as soon as the lower socket can take bytes -/
theorem C04_pending_flush_is_watched (s : Framing.St) (cond : Nat) (h : s.sbuf ≠ []) :
    Framing.lowerCondition s cond &&& Generated.XCM_SO_SENDABLE ≠ 0 := by
  have : s.sbuf.isEmpty = false := by cases hs : s.sbuf <;> simp_all
  simp only [Framing.lowerCondition, this, Bool.false_eq_true, if_false]
  simp [Generated.XCM_SO_SENDABLE, Nat.and_or_distrib_right]

/-- and nothing more is asked for than the application's own condition once the buffer is empty
(quiet when idle, C16) -/
theorem C04_idle_asks_nothing_extra (s : Framing.St) (cond : Nat) (h : s.sbuf = []) :
    Framing.lowerCondition s cond = cond := by
  simp [Framing.lowerCondition, h]

/-- the application's own interest is always passed down -/
theorem C04_condition_passed_down (s : Framing.St) (cond bit : Nat) (h : cond &&& bit ≠ 0) :
    Framing.lowerCondition s cond &&& bit ≠ 0 := by
  unfold Framing.lowerCondition
  split
  · exact h
  · intro hc
    apply h
    have : (cond ||| Generated.XCM_SO_SENDABLE) &&& bit = (cond &&& bit) ||| (Generated.XCM_SO_SENDABLE &&& bit) :=
      Nat.and_or_distrib_right ..
    rw [this] at hc
    exact (Nat.or_eq_zero_iff.mp hc).1

/-- **progress of a flush**: when the lower layer takes bytes (any positive count), the number of
bytes still to flush strictly decreases, or the frame is gone -/
theorem C04_flush_progress (s : Framing.St) (env : Framing.Env) (k : Nat)
    (hne : s.sbuf ≠ []) (hw : s.sent < s.sbuf.length) (herr : env.txErr = none) :
    let r := Framing.tryFinishSend s env [.ok k]
    r.1.sbuf = [] ∨ (r.1.sbuf = s.sbuf ∧ r.1.sbuf.length - r.1.sent < s.sbuf.length - s.sent) := by
  have hemp : s.sbuf.isEmpty = false := by cases hs : s.sbuf <;> simp_all
  simp only [Framing.tryFinishSend, Framing.tryFinishSendAux, hemp, herr, Bool.false_eq_true, if_false]
  by_cases hdone : s.sent + max 1 (min k (s.sbuf.length - s.sent)) = s.sbuf.length
  · rw [if_pos hdone]; left; rfl
  · rw [if_neg hdone]
    right
    exact ⟨rfl, by show s.sbuf.length - (s.sent + max 1 (min k (s.sbuf.length - s.sent))) < s.sbuf.length - s.sent; omega⟩

/-! ### btcp: every cause of progress is watched -/

/-- established: awaited input/output is registered on the data descriptor; terminal states and a
completed resolution ring the bell (so the fd is readable whatever the condition) -/
theorem C04_btcp_wake (cond : Nat) (q : Bool) (e : Nat) :
    (∃ ev, Btcp.connUpdate .ready cond q = (false, some ev)
        ∧ (cond &&& Generated.XCM_SO_RECEIVABLE ≠ 0 → ev &&& 1 ≠ 0)
        ∧ (cond &&& Generated.XCM_SO_SENDABLE ≠ 0 → ev &&& 4 ≠ 0))
    ∧ (Btcp.connUpdate .closed cond q).1 = true
    ∧ (Btcp.connUpdate (.bad e) cond q).1 = true
    ∧ (Btcp.connUpdate .resolving cond true).1 = true := by
  refine ⟨⟨_, rfl, ?_, ?_⟩, rfl, rfl, rfl⟩
  · intro h
    by_cases h2 : cond &&& Generated.XCM_SO_SENDABLE ≠ 0 <;> simp [h, h2]
  · intro h
    by_cases h2 : cond &&& Generated.XCM_SO_RECEIVABLE ≠ 0 <;> simp [h, h2]

/-- connecting: the attempt's descriptor is registered for EPOLLOUT and its timer is armed; the Happy
Eyeballs delay has its timer armed (from the Tconnect invariant, for every history) -/
theorem C04_connect_phase_watched (addrs : List Tconnect.Fam) (fd4 fd6 hl delay : Bool) (s0 : List Tconnect.Tok)
    (scripts : List (List Tconnect.Tok)) :
    let t := C13.runTrack (Tconnect.trackCreate addrs fd4 fd6 hl delay s0 []).1 scripts
    (t.state = .connecting → t.reg = true ∧ t.timer = true) ∧ (t.state = .initialDelay → t.timer = true) :=
  C13.C13_waiting_is_watched _ (C13.reachable_good addrs fd4 fd6 hl delay s0 scripts)

/-! ### the blocking forms return once the awaited event has happened (xcm.c) -/

/-- a transport that refuses `k` times (EAGAIN), each time followed by a wake-up, and then accepts -/
def refusals (k : Nat) : List Api.Ans := (List.replicate k [Api.Ans.err Api.EAGAIN, Api.Ans.ok 0]).flatten

theorem msgBsend_returns (k fuel len n : Nat) (rest : List Api.Ans) (tr : List Api.Call) (hf : k < fuel) :
    (Api.msgBsend fuel len (refusals k ++ Api.Ans.ok n :: rest) tr).1 = .rc 0
    ∧ (Api.msgBsend fuel len (refusals k ++ Api.Ans.ok n :: rest) tr).2.1 = rest := by
  induction k generalizing fuel tr with
  | zero =>
    cases fuel with
    | zero => omega
    | succ f => simp [refusals, Api.msgBsend, Api.next]
  | succ j ih =>
    cases fuel with
    | zero => omega
    | succ f =>
      have hr : refusals (j + 1) = Api.Ans.err Api.EAGAIN :: Api.Ans.ok 0 :: refusals j := by
        simp [refusals, List.replicate_succ]
      rw [hr]
      simp only [List.cons_append, Api.msgBsend, Api.next, Api.socketWait, ne_eq, not_true_eq_false, if_false]
      exact ih f _ (by omega)

theorem socketFinish_returns (j fuel : Nat) (rest : List Api.Ans) (tr : List Api.Call) (hf : j < fuel) :
    (Api.socketFinish fuel (refusals j ++ Api.Ans.ok 0 :: rest) tr).1 = .rc 0 := by
  induction j generalizing fuel tr with
  | zero =>
    cases fuel with
    | zero => omega
    | succ f => simp [refusals, Api.socketFinish, Api.next]
  | succ i ih =>
    cases fuel with
    | zero => omega
    | succ f =>
      have hr : refusals (i + 1) = Api.Ans.err Api.EAGAIN :: Api.Ans.ok 0 :: refusals i := by
        simp [refusals, List.replicate_succ]
      rw [hr]
      simp only [List.cons_append, Api.socketFinish, Api.next, Api.socketWait, true_or, if_true]
      exact ih f _ (by omega)

/-- **blocking xcm_send returns as soon as the transport accepts the message**: after any number of
refusals, each followed by a wake-up, the first acceptance ends the loop with success; the flush
(`socket_finish`) likewise ends at the first success -/
theorem C04_blocking_send_returns (k j len n : Nat) :
    (Api.send { blocking := true, bytestream := false } len (refusals k ++ Api.Ans.ok n :: (refusals j ++ [Api.Ans.ok 0]))).1 = .rc 0 := by
  have hs : Api.send { blocking := true, bytestream := false } len (refusals k ++ Api.Ans.ok n :: (refusals j ++ [Api.Ans.ok 0]))
      = Api.finishAfter (Api.msgBsend (Api.fuelOf (refusals k ++ Api.Ans.ok n :: (refusals j ++ [Api.Ans.ok 0]))) len
          (refusals k ++ Api.Ans.ok n :: (refusals j ++ [Api.Ans.ok 0])) []) := by simp [Api.send]
  rw [hs]
  have hlen : (refusals k).length = 2 * k := by
    unfold refusals; induction k with
    | zero => rfl
    | succ i ih => simp [List.replicate_succ] at ih ⊢; omega
  have hm := msgBsend_returns k (Api.fuelOf (refusals k ++ Api.Ans.ok n :: (refusals j ++ [Api.Ans.ok 0]))) len n
    (refusals j ++ [Api.Ans.ok 0]) [] (by simp [Api.fuelOf, hlen]; omega)
  cases hmb : Api.msgBsend (Api.fuelOf (refusals k ++ Api.Ans.ok n :: (refusals j ++ [Api.Ans.ok 0]))) len
      (refusals k ++ Api.Ans.ok n :: (refusals j ++ [Api.Ans.ok 0])) [] with
  | mk r rest2 =>
    obtain ⟨t, tr⟩ := rest2
    rw [hmb] at hm
    simp only at hm
    obtain ⟨hr, ht⟩ := hm
    subst hr; subst ht
    simp only [Api.finishAfter]
    have hlen2 : (refusals j).length = 2 * j := by
      unfold refusals; induction j with
      | zero => rfl
      | succ i ih => simp [List.replicate_succ] at ih ⊢; omega
    have hfin := socketFinish_returns j (Api.fuelOf (refusals j ++ [Api.Ans.ok 0])) [] tr (by simp [Api.fuelOf, hlen2]; omega)
    cases hsf : Api.socketFinish (Api.fuelOf (refusals j ++ [Api.Ans.ok 0])) (refusals j ++ [Api.Ans.ok 0]) tr with
    | mk r2 rest3 =>
      obtain ⟨t3, tr3⟩ := rest3
      rw [hsf] at hfin
      simp only at hfin
      subst hfin
      rfl

/-- non-blocking mode never loops at all (C05), so "returns" is immediate there -/
theorem C04_nonblocking_single_call (bs : Bool) (len : Nat) (script : List Api.Ans) :
    (Api.send { blocking := false, bytestream := bs } len script).2.length = 1 := by
  simp only [Api.send]
  cases (Api.next script).1 <;> simp

/-- non-vacuity: a message refused twice, accepted, its flush refused once -/
example : (Api.send { blocking := true, bytestream := false } 10 (refusals 2 ++ Api.Ans.ok 0 :: (refusals 1 ++ [Api.Ans.ok 0]))).1 = .rc 0 := by
  decide

end XcmModel.C04

/-! ## btls: `conn_update` of xcm_tp_btls.c never leaves a waiter without a wake-up source -/
namespace XcmModel.C04btls
open XcmModel XcmModel.Btls

theorem rs_cases {n : Nat} (h : isRS n) : n = 1 ∨ n = 2 := by
  rcases h with h | h <;> simp [h, RECEIVABLE, SENDABLE, Generated.XCM_SO_RECEIVABLE, Generated.XCM_SO_SENDABLE]

/-- while the TLS handshake is in progress the TCP socket below is always watched for what OpenSSL said it
needs - whatever the application awaits, 0 included - so the handshake completes or fails without help -/
theorem C04_btls_handshake_watched (s : St) (hi : WInv s) (hs : s.state = .handshaking) (cond : Nat) (hp : Bool) :
    connUpdate s cond hp = (false, s.sslWants, true, false) ∧ s.sslWants ≠ 0 := by
  have hw := rs_cases (hi.hsWants hs)
  refine ⟨?_, by omega⟩
  have hne : ¬ s.sslWants = 0 := by omega
  unfold connUpdate connUpdateCore
  simp [hs, hne]

theorem core_waiter (s : St) (hi : WInv s) (hs : s.state = .ready) (cond : Nat) (hp : Bool)
    (hc : cond = 1 ∨ cond = 2 ∨ cond = 3) :
    (connUpdateCore s cond hp).2.2.2 = false ∧
    ((connUpdateCore s cond hp).1 = true ∨ ((connUpdateCore s cond hp).2.1 ≠ 0 ∧ (connUpdateCore s cond hp).2.2.1 = true)) := by
  unfold connUpdateCore
  simp only [hs]
  by_cases h0 : s.sslCondition = 0
  · rcases hc with hc | hc | hc <;> cases hp <;>
      simp [hc, h0, RECEIVABLE, SENDABLE, Generated.XCM_SO_RECEIVABLE, Generated.XCM_SO_SENDABLE]
  · obtain ⟨hw, hcd⟩ := hi.condWants h0
    have hw := rs_cases hw
    have hcd := rs_cases hcd
    rcases hc with hc | hc | hc <;> rcases hw with hw | hw <;> rcases hcd with hcd | hcd <;> cases hp <;>
      simp [hc, hw, hcd, RECEIVABLE, SENDABLE, Generated.XCM_SO_RECEIVABLE, Generated.XCM_SO_SENDABLE]

/-- ready connection, non-zero awaited condition: either the bell rings (the fd is readable at once) or the TCP
socket below is asked to watch something - never neither -/
theorem C04_btls_waiter_has_source (s : St) (hi : WInv s) (hs : s.state = .ready) (cond : Nat) (hp : Bool)
    (hc : cond = 1 ∨ cond = 2 ∨ cond = 3) :
    (connUpdate s cond hp).2.2.2 = false ∧
    ((connUpdate s cond hp).1 = true ∨ ((connUpdate s cond hp).2.1 ≠ 0 ∧ (connUpdate s cond hp).2.2.1 = true)) := by
  obtain ⟨h1, h2, h3⟩ := connUpdate_core s cond hp
  obtain ⟨c1, c2⟩ := core_waiter s hi hs cond hp hc
  rw [h1, h2]
  refine ⟨c1, ?_⟩
  rcases c2 with c2 | ⟨c2, c3⟩
  · exact Or.inl c2
  · exact Or.inr ⟨h3 c2, c3⟩

/-- output that XCM accepted and still retains (SSL_write could not complete) is never left without a source of
wake-up, whatever the application awaits - 0 included: either the bell rings or the TCP socket below is watched
for what the last flush attempt needed (SENDABLE if unknown), and the next send/finish call flushes -/
theorem C04_btls_retained_output_watched (s : St) (hs : s.state = .ready) (hp : s.pend ≠ []) (cond : Nat) (pending : Bool) :
    (connUpdate s cond pending).1 = true ∨
    ((connUpdate s cond pending).2.1 ≠ 0 ∧ (connUpdate s cond pending).2.2.1 = true) := by
  have hne : (s.pend.isEmpty = true) = False := by simp [hp]
  have hx : (if s.pendWants ≠ 0 then s.pendWants else SENDABLE) ≠ 0 := by
    split
    · assumption
    · simp [SENDABLE, Generated.XCM_SO_SENDABLE]
  unfold connUpdate
  simp only [hs, hne, not_false_eq_true, and_self, if_true]
  have hcore : (connUpdateCore s cond pending).1 = true ∨ (connUpdateCore s cond pending).2.2.1 = true := by
    unfold connUpdateCore
    simp only [hs]
    repeat' split
    all_goals simp
  rcases hcore with h | h
  · exact Or.inl h
  · exact Or.inr ⟨fun h2 => hx (Nat.or_eq_zero_iff.mp h2).2, h⟩

/-- closed or failed: the bell rings, so the application is woken to collect the terminal condition -/
theorem C04_btls_terminal_rings (s : St) (ht : Terminal s) (cond : Nat) (hp : Bool) :
    (connUpdate s cond hp).1 = true := by
  rw [(connUpdate_core s cond hp).1]
  unfold connUpdateCore
  rcases ht with h | ⟨e, h⟩ <;> simp [h]

/-- decrypted bytes already sitting in OpenSSL make a RECEIVABLE waiter readable immediately -/
theorem C04_btls_pending_rings (s : St) (hs : s.state = .ready) (cond : Nat) (hc : cond = 1 ∨ cond = 3) :
    (connUpdate s cond true).1 = true := by
  rw [(connUpdate_core s cond true).1]
  unfold connUpdateCore
  rcases hc with hc | hc <;> simp [hs, hc, RECEIVABLE, Generated.XCM_SO_RECEIVABLE]

end XcmModel.C04btls

/-! ## ux / uxf: every awaited condition is watched on the socket's own descriptor, independently of the others -/
namespace XcmModel.C04ux
open XcmModel

/-- `conn_event`: awaiting RECEIVABLE watches the descriptor for input, awaiting SENDABLE watches it for output, and
awaiting both watches both - neither request displaces the other (so a message arriving while output is blocked by
back-pressure still wakes the application up) -/
theorem C04_ux_each_condition_watched (cond : Nat) :
    (cond &&& Generated.XCM_SO_RECEIVABLE ≠ 0 → Ux.connEvent cond &&& Ux.EPOLLIN ≠ 0) ∧
    (cond &&& Generated.XCM_SO_SENDABLE ≠ 0 → Ux.connEvent cond &&& Ux.EPOLLOUT ≠ 0) ∧
    Ux.connEvent (Generated.XCM_SO_RECEIVABLE ||| Generated.XCM_SO_SENDABLE) = Ux.EPOLLIN ||| Ux.EPOLLOUT := by
  refine ⟨fun h => ?_, fun h => ?_, by decide⟩
  · unfold Ux.connEvent
    rw [if_pos h]
    split <;> simp [Ux.EPOLLIN, Ux.EPOLLOUT]
  · unfold Ux.connEvent
    rw [if_pos h]
    split <;> simp [Ux.EPOLLIN, Ux.EPOLLOUT]

/-- a listening ux/uxf socket awaiting ACCEPTABLE is watched for input -/
theorem C04_ux_server_watched : Ux.serverEvent Generated.XCM_SO_ACCEPTABLE = Ux.EPOLLIN := by decide

end XcmModel.C04ux

/-! ## the dispatch layer xcm_tp.c: what a socket's fd watches is re-evaluated after every call -/
namespace XcmModel.C04tp
open XcmModel XcmModel.Tp

/-- on every socket the application sees (auto_update), each xcm_send / xcm_receive / xcm_finish ends - for every
answer of the transport, success included, and whether or not the control interface was serviced - with the
transport's `update`: a message left in a send buffer, a newly blocked TLS operation or a state change is
reflected in the fd registrations before the call returns, without a further xcm_await -/
theorem C04_registrations_refreshed (s : Sock) (a : Ans) (h : s.auto = true) :
    (send s a).2.getLast? = some .update ∧ (receive s a).2.getLast? = some .update ∧
    (finish s a).2.getLast? = some .update :=
  ⟨update_last_send s a h, update_last_receive s a h, update_last_finish s a h⟩

/-- a successful connect / accept leaves the new connection's registrations evaluated, and every accept -
successful or not - re-evaluates the server socket's -/
theorem C04_new_sockets_registered (s srv : Sock) (a : Ans) (h : s.auto = true) (ok : isFail a = false) :
    (connect s a).2.getLast? = some .update ∧ Call.update ∈ (accept s srv a).2.2 ∧
    (∀ a', (accept s srv a').2.2.getLast? = some .updateServer) :=
  ⟨update_last_connect s a h ok, (accept_updates s srv a).2 h ok, fun a' => (accept_updates s srv a').1⟩

end XcmModel.C04tp

/-! ## composition along a stack: from "a message is buffered" to "the socket's descriptor is readable" -/
namespace XcmModel.C04stack
open XcmModel XcmModel.Xpoll

/-- tcp transport over an established btcp connection: while a byte of an accepted message is buffered, btcp registers its
kernel socket for output - whatever the application awaits, 0 included -/
theorem C04_tcp_stack_registers_output (fr : Framing.St) (cond : Nat) (q : Bool) (h : fr.sbuf ≠ []) :
    ∃ ev, Btcp.connUpdate .ready (Framing.lowerCondition fr cond) q = (false, some ev) ∧ ev &&& 4 ≠ 0 := by
  obtain ⟨⟨ev, h1, _, h3⟩, _⟩ := C04.C04_btcp_wake (Framing.lowerCondition fr cond) q 0
  exact ⟨ev, h1, h3 (C04.C04_pending_flush_is_watched fr cond h)⟩

/-- ... hence, in every reachable state of the socket's xpoll instance in which that registration stands, a writable kernel
socket (`ready fd ev` for every mask that asks for output: K-epoll) makes the XCM socket's descriptor readable: the
buffered message's flush cannot be forgotten (framing + btcp + xpoll composed) -/
theorem C04_tcp_stack_wakeup {x : X} (hx : C16.Reach x) (fr : Framing.St) (cond : Nat) (q : Bool) (h : fr.sbuf ≠ [])
    (ready : Nat → Nat → Bool) (i fd ev : Nat)
    (hupd : Btcp.connUpdate .ready (Framing.lowerCondition fr cond) q = (false, some ev))
    (hreg : x.slots[i]? = some (some (fd, ev))) (hfd : fd ≠ ACTIVE)
    (hwritable : ∀ m, m &&& 4 ≠ 0 → ready fd m = true) :
    readable x ready = true := by
  obtain ⟨ev', h1, h2⟩ := C04_tcp_stack_registers_output fr cond q h
  rw [hupd] at h1
  have hev : ev = ev' := by
    have := congrArg Prod.snd h1
    simpa using this
  subst hev
  have hne : ev ≠ 0 := by
    intro h0; rw [h0] at h2; simp at h2
  exact (C16.C16_readable_when_met hx ready).2 i fd ev hreg hfd hne (hwritable ev h2)

/-- tls transport over an established, ready btls connection: while a byte of an accepted message is buffered, either the
bell rings (the descriptor is readable at once) or the TCP socket below the TLS layer is asked to watch something and is
updated - the flush has a source of wake-up through all three layers -/
theorem C04_tls_stack_has_source (fr : Framing.St) (cond : Nat) (s : Btls.St) (hi : Btls.WInv s) (hs : s.state = .ready)
    (hp : Bool) (h : fr.sbuf ≠ []) (hc : cond ≤ 3) :
    (Btls.connUpdate s (Framing.lowerCondition fr cond) hp).1 = true ∨
    ((Btls.connUpdate s (Framing.lowerCondition fr cond) hp).2.1 ≠ 0 ∧ (Btls.connUpdate s (Framing.lowerCondition fr cond) hp).2.2.1 = true) := by
  have hw := C04.C04_pending_flush_is_watched fr cond h
  have hl : Framing.lowerCondition fr cond = 1 ∨ Framing.lowerCondition fr cond = 2 ∨ Framing.lowerCondition fr cond = 3 := by
    have hemp : fr.sbuf.isEmpty = false := by cases hq : fr.sbuf <;> simp_all
    simp only [Framing.lowerCondition, hemp, Bool.false_eq_true, if_false, Generated.XCM_SO_SENDABLE]
    have : cond = 0 ∨ cond = 1 ∨ cond = 2 ∨ cond = 3 := by omega
    rcases this with c | c | c | c <;> simp [c]
  exact (C04btls.C04_btls_waiter_has_source s hi hs _ hp hl).2

end XcmModel.C04stack


/-! non-vacuity of the composed statement: a concrete reachable xpoll state, a buffered message, the registration btcp makes -/
namespace XcmModel.C04stack
open XcmModel XcmModel.Xpoll

example :
    let fr : Framing.St := { sbuf := [0, 0, 0, 1, 7] }
    let x : X := (fdRegAdd {} 5 4).1
    C16.Reach x ∧ fr.sbuf ≠ [] ∧ x.slots[0]? = some (some (5, 4)) ∧ (5 : Nat) ≠ ACTIVE ∧
    Btcp.connUpdate .ready (Framing.lowerCondition fr 0) false = (false, some 4) := by
  refine ⟨C16.Reach.fdAdd 5 4 C16.Reach.init (by decide) (by decide), by decide, by decide, by decide, by decide⟩

end XcmModel.C04stack
