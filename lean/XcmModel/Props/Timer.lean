import XcmModel.TimerMgr
/-!
  Theorems about the timer manager (libxcm/core/timer_mgr.c), the layer that turns the deadlines of the connect
  attempts (tcp.connect_timeout), of the Happy Eyeballs delay and of name resolution (dns.timeout) into the
  readability of one timerfd.  The `Tconnect` and `DnsSync` models take "the timer fired" as an input; these
  theorems are what justifies that: for every history of schedule / cancel / ack / reschedule calls

  * the timerfd is armed exactly at the earliest live deadline, and disarmed when no timer is live
    (`timer_inv_run`), hence
  * a live timer whose deadline has passed makes the socket's fd readable - no timeout is lost (C04, C13), and
  * the timerfd is readable only while some live timer's deadline has been reached - a cancelled or acknowledged
    timer leaves no wake-up behind (C16);
  * timer ids are never reused, a cancel removes exactly the timer it names, and a stale id removes nothing, so
    one user's cancel cannot take away another user's deadline (the connect timer vs. the DNS timer).
-/
namespace XcmModel.TimerProps
open XcmModel XcmModel.TimerMgr

/-! ### the candidate loop computes the minimum -/

theorem candidate_le_first (c : Nat) (r : List Timer) : candidate c r ≤ c := by
  induction r generalizing c with
  | nil => simp [candidate]
  | cons m r ih =>
    simp only [candidate, List.foldl_cons]
    split
    · have := ih m.expiry; simp only [candidate] at this; omega
    · exact ih c

theorem candidate_le_mem (c : Nat) (r : List Timer) : ∀ m ∈ r, candidate c r ≤ m.expiry := by
  induction r generalizing c with
  | nil => simp
  | cons x r ih =>
    intro m hm
    simp only [candidate, List.foldl_cons]
    rcases List.mem_cons.mp hm with h | h
    · subst h
      split
      · exact candidate_le_first _ r
      · have := candidate_le_first c r; simp only [candidate] at this; omega
    · exact ih _ m h

theorem candidate_attained (c : Nat) (r : List Timer) : candidate c r = c ∨ ∃ m ∈ r, candidate c r = m.expiry := by
  induction r generalizing c with
  | nil => simp [candidate]
  | cons x r ih =>
    simp only [candidate, List.foldl_cons]
    split
    · rcases ih x.expiry with h | ⟨m, hm, h⟩
      · exact Or.inr ⟨x, by simp, h⟩
      · exact Or.inr ⟨m, by simp [hm], h⟩
    · rcases ih c with h | ⟨m, hm, h⟩
      · exact Or.inl h
      · exact Or.inr ⟨m, by simp [hm], h⟩

theorem armValue_mono {a b : Nat} (h : a ≤ b) : armValue a ≤ armValue b := by
  unfold armValue; split <;> split <;> omega

/-! ### the invariant -/

/-- the timerfd's setting agrees with the list: disarmed iff empty, else the earliest live deadline -/
def ArmedOk (s : State) : Prop :=
  (s.timers = [] → s.armed = none) ∧
  (s.timers ≠ [] → ∃ a, s.armed = some a ∧ (∀ t ∈ s.timers, a ≤ armValue t.expiry) ∧ ∃ t ∈ s.timers, a = armValue t.expiry)

def Inv (s : State) : Prop :=
  ArmedOk s ∧ (∀ t ∈ s.timers, t.id < s.nextId) ∧ (s.timers.map (·.id)).Nodup

theorem updateEpoll_armedOk (s : State) : ArmedOk (updateEpoll s) := by
  unfold updateEpoll ArmedOk
  cases h : s.timers with
  | nil => simp
  | cons t ts =>
    simp only
    refine ⟨by simp, fun _ => ⟨_, rfl, ?_, ?_⟩⟩
    · intro x hx
      apply armValue_mono
      rcases List.mem_cons.mp hx with e | e
      · subst e; exact candidate_le_first _ _
      · exact candidate_le_mem _ _ x e
    · rcases candidate_attained t.expiry ts with e | ⟨m, hm, e⟩
      · exact ⟨t, by simp, by rw [e]⟩
      · exact ⟨m, by simp [hm], by rw [e]⟩

@[simp] theorem updateEpoll_timers (s : State) : (updateEpoll s).timers = s.timers := by
  unfold updateEpoll; split <;> rfl

@[simp] theorem updateEpoll_nextId (s : State) : (updateEpoll s).nextId = s.nextId := by
  unfold updateEpoll; split <;> rfl

theorem inv_init : Inv ({} : State) := by
  refine ⟨⟨fun _ => rfl, fun h => absurd rfl h⟩, by simp, by simp⟩

theorem removeFirst_sub (ts : List Timer) (id : Int) : ∀ t ∈ removeFirst ts id, t ∈ ts := by
  induction ts with
  | nil => simp [removeFirst]
  | cons x r ih =>
    intro t ht
    simp only [removeFirst] at ht
    split at ht
    · exact List.mem_cons_of_mem _ ht
    · rcases List.mem_cons.mp ht with e | e
      · simp [e]
      · exact List.mem_cons_of_mem _ (ih t e)

/-- with distinct ids, removing the first match is removing every timer of that id and no other -/
theorem removeFirst_eq_filter (ts : List Timer) (id : Int) (nd : (ts.map (·.id)).Nodup) :
    removeFirst ts id = ts.filter (fun t => ((t.id : Int) != id)) := by
  induction ts with
  | nil => simp [removeFirst]
  | cons x r ih =>
    simp only [List.map_cons, List.nodup_cons] at nd
    simp only [removeFirst]
    by_cases hx : ((x.id : Int) == id) = true
    · simp only [hx, if_true]
      have hne : ((x.id : Int) != id) = false := by simp [bne, hx]
      rw [List.filter_cons]; simp only [hne]
      -- no other timer carries this id
      symm
      apply List.filter_eq_self.mpr
      intro t ht
      have : t.id ≠ x.id := fun e => nd.1 (by rw [← e]; exact List.mem_map_of_mem ht)
      have hxe : (x.id : Int) = id := by simpa using hx
      simp only [bne_iff_ne, ne_eq]
      intro e; apply this; have := e.trans hxe.symm; exact_mod_cast this
    · have hx' : ((x.id : Int) == id) = false := by simpa using hx
      simp only [hx', Bool.false_eq_true, if_false]
      rw [List.filter_cons]
      have : ((x.id : Int) != id) = true := by simp [bne, hx']
      simp only [this, if_true]
      rw [ih nd.2]

theorem removeFirst_nodup (ts : List Timer) (id : Int) (nd : (ts.map (·.id)).Nodup) :
    ((removeFirst ts id).map (·.id)).Nodup := by
  rw [removeFirst_eq_filter ts id nd]
  exact (List.Nodup.sublist (List.Sublist.map _ List.filter_sublist) nd)

theorem schedule_inv (s : State) (now : Nat) (rel : Int) (h : Inv s) : Inv (schedule s now rel).1 := by
  obtain ⟨_, hid, nd⟩ := h
  unfold schedule scheduleAbs
  refine ⟨updateEpoll_armedOk _, ?_, ?_⟩
  · intro t ht
    simp only [updateEpoll_timers, updateEpoll_nextId, List.mem_cons] at ht ⊢
    rcases ht with e | e
    · subst e; simp
    · have := hid t e; omega
  · simp only [updateEpoll_timers, List.map_cons, List.nodup_cons]
    refine ⟨?_, nd⟩
    intro hm
    obtain ⟨t, ht, e⟩ := List.mem_map.mp hm
    have := hid t ht; omega

theorem tryCancel_inv (s : State) (id : Int) (h : Inv s) : Inv (tryCancel s id).1 := by
  unfold tryCancel
  split
  · obtain ⟨_, hid, nd⟩ := h
    refine ⟨updateEpoll_armedOk _, ?_, ?_⟩
    · intro t ht
      simp only [updateEpoll_timers, updateEpoll_nextId] at ht ⊢
      exact hid t (removeFirst_sub _ _ t ht)
    · simp only [updateEpoll_timers]
      exact removeFirst_nodup _ _ nd
  · exact h

theorem step_inv (s s' : State) (o : Op) (h : Inv s) (hs : step s o = some s') : Inv s' := by
  cases o with
  | schedule now rel => simp only [step, Option.some.injEq] at hs; subst hs; exact schedule_inv s now rel h
  | cancel id => simp only [step, cancel, Option.some.injEq] at hs; subst hs; exact tryCancel_inv s id h
  | ack id =>
    simp only [step, ack] at hs
    split at hs
    · rename_i r heq
      split at heq
      · cases heq; simp only [Option.some.injEq] at hs; subst hs; exact tryCancel_inv s id h
      · cases heq
    · cases hs
  | reschedule now rel id =>
    simp only [step, reschedule, Option.some.injEq] at hs; subst hs
    apply schedule_inv
    split
    · exact tryCancel_inv s id h
    · exact h

/-- **for every history** of timer-manager calls that does not abort, the invariant holds at the end -/
theorem timer_inv_run (ops : List Op) (s s' : State) (h : Inv s) (hr : run s ops = some s') : Inv s' := by
  induction ops generalizing s with
  | nil => simp only [run, Option.some.injEq] at hr; subst hr; exact h
  | cons o os ih =>
    simp only [run] at hr
    split at hr
    · rename_i s1 h1; exact ih s1 (step_inv s s1 o h h1) hr
    · cases hr

/-! ### consequences of the invariant for one state (used by the layers that own a timer manager) -/

theorem wakes_of_inv (s : State) (h : Inv s) (t : Timer) (ht : t ∈ s.timers) (now : Nat)
    (hexp : armValue t.expiry ≤ now) : readable s now = true := by
  obtain ⟨⟨_, hne⟩, _, _⟩ := h
  obtain ⟨a, ha, hle, _⟩ := hne (List.ne_nil_of_mem ht)
  have := hle t ht
  simp only [readable, ha, decide_eq_true_eq]; omega

theorem quiet_of_inv (s : State) (h : Inv s) (now : Nat) (hrd : readable s now = true) :
    ∃ t ∈ s.timers, t.expiry ≤ now := by
  obtain ⟨⟨he, hne⟩, _, _⟩ := h
  by_cases hem : s.timers = []
  · simp [readable, he hem] at hrd
  · obtain ⟨a, ha, _, t, ht, e⟩ := hne hem
    refine ⟨t, ht, ?_⟩
    simp only [readable, ha, decide_eq_true_eq] at hrd
    subst e; unfold armValue at hrd; split at hrd <;> omega

theorem cancel_inv (s : State) (id : Int) (h : Inv s) : Inv (cancel s id).1 := tryCancel_inv s id h

theorem reschedule_inv (s : State) (now : Nat) (rel : Int) (id : Int) (h : Inv s) : Inv (reschedule s now rel id).1 := by
  unfold reschedule
  apply schedule_inv
  split
  · exact tryCancel_inv s id h
  · exact h

@[simp] theorem cancel_nextId (s : State) (id : Int) : (cancel s id).1.nextId = s.nextId := by
  unfold cancel tryCancel; split <;> simp

/-- cancelling one id leaves the lookup of every other id as it was -/
theorem find_cancel_other (s : State) (id id' : Int) (hne : id' ≠ id) : find (cancel s id).1 id' = find s id' := by
  unfold cancel tryCancel
  split
  · simp only [find, updateEpoll_timers]
    induction s.timers with
    | nil => simp [removeFirst]
    | cons x r ih =>
      simp only [removeFirst]
      by_cases hx : ((x.id : Int) == id) = true
      · have hxe : (x.id : Int) = id := by simpa using hx
        have : ((x.id : Int) == id') = false := by simp [hxe]; exact fun e => hne e.symm
        simp [hx, List.find?_cons, this]
      · have hx' : ((x.id : Int) == id) = false := by simpa using hx
        simp only [hx', Bool.false_eq_true, if_false, List.find?_cons]
        split
        · rfl
        · exact ih
  · rfl

/-- scheduling leaves the lookup of every id already handed out as it was, and the new id denotes the new timer -/
theorem find_schedule (s : State) (now : Nat) (rel : Int) (id' : Int) :
    find (schedule s now rel).1 id' =
      if (s.nextId : Int) = id' then some { id := s.nextId, expiry := now + rel.toNat } else find s id' := by
  simp only [schedule, scheduleAbs, find, updateEpoll_timers, List.find?_cons]
  by_cases h : (s.nextId : Int) = id'
  · simp [h]
  · have : ((s.nextId : Int) == id') = false := by simpa using h
    simp [this, h]

@[simp] theorem schedule_nextId (s : State) (now : Nat) (rel : Int) : (schedule s now rel).1.nextId = s.nextId + 1 := by
  simp [schedule, scheduleAbs]

@[simp] theorem schedule_id (s : State) (now : Nat) (rel : Int) : (schedule s now rel).2 = s.nextId := rfl

/-! ### C04 / C13: no deadline is lost -/

/-- a live timer whose deadline has been reached makes the timerfd (hence the socket's fd) readable, whatever
else was scheduled, cancelled or acknowledged before -/
theorem C04_expired_timer_wakes (ops : List Op) (s : State) (hr : run {} ops = some s)
    (t : Timer) (ht : t ∈ s.timers) (now : Nat) (hexp : armValue t.expiry ≤ now) : readable s now = true := by
  obtain ⟨⟨_, hne⟩, _, _⟩ := timer_inv_run ops {} s inv_init hr
  obtain ⟨a, ha, hle, _⟩ := hne (List.ne_nil_of_mem ht)
  have := hle t ht
  simp only [readable, ha, decide_eq_true_eq]; omega

/-- in particular whenever `timer_mgr_has_expired` would say yes, the fd is readable: the owner's process function
is reached -/
theorem C13_has_expired_implies_readable (ops : List Op) (s : State) (hr : run {} ops = some s)
    (id : Int) (now : Nat) (h : hasExpired s now id = .ok true) : readable s now = true := by
  unfold hasExpired at h
  split at h
  · rename_i t hf
    have ht : t ∈ s.timers := List.mem_of_find?_eq_some hf
    have hgt : now > t.expiry := by simpa using h
    apply C04_expired_timer_wakes ops s hr t ht now
    unfold armValue; split <;> omega
  · cases h

/-! ### C16: no wake-up without a live, due timer -/

/-- the timerfd is readable only if some live timer's deadline has been reached; with no live timer it is quiet -/
theorem C16_timer_quiet (ops : List Op) (s : State) (hr : run {} ops = some s) (now : Nat)
    (hrd : readable s now = true) : ∃ t ∈ s.timers, t.expiry ≤ now := by
  obtain ⟨⟨he, hne⟩, _, _⟩ := timer_inv_run ops {} s inv_init hr
  by_cases hem : s.timers = []
  · simp [readable, he hem] at hrd
  · obtain ⟨a, ha, _, t, ht, e⟩ := hne hem
    refine ⟨t, ht, ?_⟩
    simp only [readable, ha, decide_eq_true_eq] at hrd
    subst e; unfold armValue at hrd; split at hrd <;> omega

theorem C16_no_timers_quiet (ops : List Op) (s : State) (hr : run {} ops = some s) (hem : s.timers = [])
    (now : Nat) : readable s now = false := by
  obtain ⟨⟨he, _⟩, _, _⟩ := timer_inv_run ops {} s inv_init hr
  simp [readable, he hem]

/-- with distinct ids the first entry carrying `t`'s id is `t` itself -/
theorem find_of_mem_nodup (ts : List Timer) (t : Timer) (ht : t ∈ ts) (nd : (ts.map (·.id)).Nodup) :
    ts.find? (fun x => (x.id : Int) == (t.id : Int)) = some t := by
  induction ts with
  | nil => cases ht
  | cons x r ih =>
    simp only [List.map_cons, List.nodup_cons] at nd
    rcases List.mem_cons.mp ht with e | e
    · subst e; simp
    · have hne : x.id ≠ t.id := fun e' => nd.1 (by rw [e']; exact List.mem_map_of_mem e)
      have : ((x.id : Int) == (t.id : Int)) = false := by simp; exact_mod_cast hne
      rw [List.find?_cons]; simp only [this]; exact ih e nd.2

/-- ... and one nanosecond after a wake-up `timer_mgr_has_expired` confirms it for that timer: a wake-up is never
for nothing (at the very instant of the deadline the fd is already readable while has_expired still says no: the
manager compares with `>` where the kernel fires at `>=`) -/
theorem C16_wakeup_confirmed (ops : List Op) (s : State) (hr : run {} ops = some s) (now : Nat)
    (hrd : readable s now = true) : ∃ t ∈ s.timers, hasExpired s (now + 1) t.id = .ok true := by
  obtain ⟨t, ht, hle⟩ := C16_timer_quiet ops s hr now hrd
  obtain ⟨_, _, nd⟩ := timer_inv_run ops {} s inv_init hr
  refine ⟨t, ht, ?_⟩
  unfold hasExpired find
  have := find_of_mem_nodup s.timers t ht nd
  simp only [this]; congr 1; simp; omega

/-! ### ids: fresh, never reused, cancel is exact -/

theorem schedule_fresh_id (s : State) (now : Nat) (rel : Int) (h : Inv s) :
    (schedule s now rel).2 = s.nextId ∧ (∀ t ∈ s.timers, t.id ≠ (schedule s now rel).2) ∧
    find (schedule s now rel).1 ((schedule s now rel).2 : Nat) = some { id := s.nextId, expiry := now + rel.toNat } := by
  refine ⟨rfl, fun t ht e => ?_, ?_⟩
  · have := h.2.1 t ht; simp only [schedule, scheduleAbs] at e; omega
  · simp [schedule, scheduleAbs, find]

/-- cancelling (or acknowledging) removes exactly the timers carrying that id - which is at most one - and leaves every
other timer as it was -/
theorem cancel_exact (s : State) (id : Int) (h : Inv s) :
    (cancel s id).1.timers = s.timers.filter (fun t => ((t.id : Int) != id)) := by
  unfold cancel tryCancel
  split
  · simp only [updateEpoll_timers]; exact removeFirst_eq_filter _ _ h.2.2
  · rename_i hf
    symm; apply List.filter_eq_self.mpr
    intro t ht
    have := List.find?_eq_none.mp hf t ht
    simpa [bne] using this

/-- the id counter only grows, and a timer present after any history with an id below the old counter was present before:
an id handed out once never comes to denote another timer -/
theorem ids_never_reused (ops : List Op) (s s' : State) (h : Inv s) (hr : run s ops = some s') :
    s.nextId ≤ s'.nextId ∧ ∀ t ∈ s'.timers, t.id < s.nextId → t ∈ s.timers := by
  induction ops generalizing s with
  | nil => simp only [run, Option.some.injEq] at hr; subst hr; exact ⟨Nat.le_refl _, fun t ht _ => ht⟩
  | cons o os ih =>
    simp only [run] at hr
    split at hr
    · rename_i s1 h1
      obtain ⟨hle, hsub⟩ := ih s1 (step_inv s s1 o h h1) hr
      -- one step
      have one : s.nextId ≤ s1.nextId ∧ ∀ t ∈ s1.timers, t.id < s.nextId → t ∈ s.timers := by
        have hc : ∀ id, (tryCancel s id).1.nextId = s.nextId ∧ ∀ t ∈ (tryCancel s id).1.timers, t ∈ s.timers := by
          intro id; unfold tryCancel; split
          · exact ⟨by simp, fun t ht => removeFirst_sub _ _ t (by simpa using ht)⟩
          · exact ⟨rfl, fun t ht => ht⟩
        have hsch : ∀ (u : State) now rel, (schedule u now rel).1.nextId = u.nextId + 1 ∧
            ∀ t ∈ (schedule u now rel).1.timers, t.id = u.nextId ∨ t ∈ u.timers := by
          intro u now rel; simp only [schedule, scheduleAbs, updateEpoll_nextId, updateEpoll_timers, List.mem_cons, true_and]
          intro t ht; rcases ht with e | e
          · subst e; exact Or.inl rfl
          · exact Or.inr e
        cases o with
        | schedule now rel =>
          simp only [step, Option.some.injEq] at h1; subst h1
          refine ⟨by rw [(hsch s now rel).1]; omega, fun t ht hlt => ?_⟩
          rcases (hsch s now rel).2 t ht with e | e
          · omega
          · exact e
        | cancel id =>
          simp only [step, cancel, Option.some.injEq] at h1; subst h1
          exact ⟨by rw [(hc id).1]; exact Nat.le_refl _, fun t ht _ => (hc id).2 t ht⟩
        | ack id =>
          simp only [step, ack] at h1
          split at h1
          · rename_i r heq
            split at heq
            · cases heq; simp only [Option.some.injEq] at h1; subst h1
              exact ⟨by rw [(hc id).1]; exact Nat.le_refl _, fun t ht _ => (hc id).2 t ht⟩
            · cases heq
          · cases h1
        | reschedule now rel id =>
          simp only [step, reschedule, Option.some.injEq] at h1; subst h1
          split
          · refine ⟨by rw [(hsch _ now rel).1]; simp only [cancel]; rw [(hc id).1]; omega, fun t ht hlt => ?_⟩
            rcases (hsch _ now rel).2 t ht with e | e
            · simp only [cancel] at e; rw [(hc id).1] at e; omega
            · exact (hc id).2 t e
          · refine ⟨by rw [(hsch s now rel).1]; omega, fun t ht hlt => ?_⟩
            rcases (hsch s now rel).2 t ht with e | e
            · omega
            · exact e
      exact ⟨Nat.le_trans one.1 hle, fun t ht hlt => one.2 t (hsub t ht (Nat.lt_of_lt_of_le hlt one.1)) hlt⟩
    · cases hr

/-- after a cancel the id is not live any more -/
theorem find_cancel_same (s : State) (id : Int) (h : Inv s) : find (cancel s id).1 id = none := by
  have e := cancel_exact s id h
  unfold find
  rw [e]
  apply List.find?_eq_none.mpr
  intro t ht
  have := (List.mem_filter.mp ht).2
  simpa [bne] using this

/-- `timer_mgr_reschedule` of a live timer replaces it: the old id is dead, the new id is fresh and denotes the new deadline,
every other timer is untouched - one user never ends up with two deadlines -/
theorem reschedule_replaces (s : State) (h : Inv s) (now : Nat) (rel : Int) (id : Int) (t : Timer) (hl : find s id = some t) :
    find (reschedule s now rel id).1 id = none ∧
    find (reschedule s now rel id).1 (reschedule s now rel id).2 = some { id := s.nextId, expiry := now + rel.toNat } ∧
    ∀ id' : Int, id' ≠ id → id' ≠ (s.nextId : Int) → find (reschedule s now rel id).1 id' = find s id' := by
  have ht : t ∈ s.timers := List.mem_of_find?_eq_some hl
  have hid : (t.id : Int) = id := by simpa using List.find?_some hl
  have hlt := h.2.1 t ht
  have hge : id ≥ 0 := by omega
  have hne : ¬ ((s.nextId : Int) = id) := by omega
  unfold reschedule
  simp only [hge, if_true, find_schedule, cancel_nextId, schedule_id, hne, if_false]
  refine ⟨find_cancel_same s id h, by simp, fun id' h1 h2 => ?_⟩
  have : ¬ ((s.nextId : Int) = id') := fun e => h2 e.symm
  simp only [this, if_false]
  exact find_cancel_other s id id' h1

/-- a stale id (its timer was cancelled or acknowledged earlier) cancels nothing, whatever happened in between -/
theorem stale_cancel_harmless (s : State) (id : Int) (hst : find s id = none) : (cancel s id).1 = s := by
  simp [cancel, tryCancel, hst]

/-! ### the asserting and dereferencing entry points are safe for live timers -/

theorem ack_live_no_abort (s : State) (id : Int) (t : Timer) (h : find s id = some t) : ∃ r, ack s id = .ok r := by
  simp [ack, tryCancel, h]

theorem hasExpired_live_no_oob (s : State) (now : Nat) (id : Int) (t : Timer) (h : find s id = some t) :
    ∃ b, hasExpired s now id = .ok b := by
  simp [hasExpired, h]

/-- the id returned by schedule is live until it is cancelled or acknowledged: other users' calls leave it alone -/
theorem other_calls_keep_timer (s : State) (h : Inv s) (t : Timer) (ht : t ∈ s.timers) (id : Int) (hne : (t.id : Int) ≠ id) :
    t ∈ (cancel s id).1.timers := by
  rw [cancel_exact s id h]; simp [List.mem_filter, ht, bne, hne]

/-! ### non-vacuity: a history with two users whose timers interleave -/

example :
    let ops := [Op.schedule 100 50, .schedule 100 20, .cancel 1, .schedule 130 5, .ack 0]
    ∃ s, run {} ops = some s ∧ s.timers = [{ id := 2, expiry := 135 }] ∧ s.armed = some 135 ∧
      readable s 134 = false ∧ readable s 135 = true := by
  refine ⟨_, rfl, ?_⟩; decide

/-- and the abort of `timer_mgr_ack` is real for an id that is not live (so `ack_live_no_abort`'s hypothesis matters) -/
example : ack {} 0 = .abort "timer_mgr_ack: assert(existed)" := by decide

end XcmModel.TimerProps
