import XcmModel.Utls
/-!
  Theorems about the UTLS transport (xcm_tp_utls.c), grouped by the property they serve.  UTLS adds no data path of its
  own: what has to be shown is that it (1) keeps the sub-transport contract on every ladder (C08), (2) leaves a
  connection with exactly one sub-socket and hands every data-path call to it unchanged (C01, C03, C06, C17 of utls are
  those of that sub-transport), (3) passes the awaited condition to the sub-socket(s) that can make it true (C04, C16).
-/
namespace XcmModel.UtlsProps
open XcmModel XcmModel.Utls

/-! ### the sub-socket ledger -/

/-- what a sub-socket holds, as the sub-transport contract sees it -/
inductive L where
  | absent      -- never created, or destroyed
  | created
  | inited      -- init succeeded: holds (for TLS) a bell registration and a TCP sub-socket
  | live        -- connected / serving / accepted
  | released    -- init/connect/server/accept failed, or it was closed / cleaned up: only the memory is left
  deriving DecidableEq, Repr

/-- one call on the sub-socket `sub`; `none` = the contract is broken -/
def lstep (sub : Sub) (l : L) (c : Call) : Option L :=
  let on (s : Sub) (r : Option L) : Option L := if s = sub then r else some l
  match c with
  | .create s => on s (if l = .absent then some .created else none)
  | .init s ok => on s (if l = .created then some (if ok then .inited else .released) else none)
  | .connect s ok => on s (if l = .inited then some (if ok then .live else .released) else none)
  | .server s ok => on s (if l = .inited then some (if ok then .live else .released) else none)
  | .accept s ok => on s (if l = .inited then some (if ok then .live else .released) else none)
  | .close s => on s (if l = .inited ∨ l = .live then some .released else none)
  | .cleanup s => on s (if l = .inited ∨ l = .live then some .released else none)
  | .destroy s =>
    -- memory may go once the resources are gone; an initialised-only UX sub-socket holds none (ux_init only sets fields)
    on s (if l = .released ∨ (l = .inited ∧ sub = .ux) then some .absent else none)
  | .send s => on s (if l = .live then some l else none)
  | .receive s => on s (if l = .live then some l else none)
  | .finish s => on s (if l = .live then some l else none)
  | .getCnt s => on s (if l = .live then some l else none)
  | .localAddr s => on s (if l = .live then some l else none)
  | .update s _ => on s (if l = .live then some l else none)
  | .updateSrv _ _ => some l          -- a call on the *server's* sub-socket, not on this socket's

def lrun (sub : Sub) (l : L) (t : List Call) : Option L :=
  t.foldlM (lstep sub) l

/-- both ledgers -/
def ledger (lu lt : L) (t : List Call) : Option (L × L) :=
  match lrun .ux lu t, lrun .tls lt t with
  | some a, some b => some (a, b)
  | _, _ => none

def both : St := { isConn := true, ux := true, tls := true }

/-- what is left of a connection socket's two sub-sockets after an operation that returned `r` -/
def okShape (s : St) : Prop := (s.ux = true ∧ s.tls = false) ∨ (s.ux = false ∧ s.tls = true)

/-- **utls_init**: whatever the sub-transports' init calls answer, the contract is kept; on failure nothing is held -/
theorem C08_utls_init_balanced (isConn : Bool) (a : List Ans) :
    ∃ lu lt, ledger .absent .absent (init isConn a).2.2.1 = some (lu, lt) ∧
      ((init isConn a).2.1 = .ok → lu = .inited ∧ lt = .inited ∧ (init isConn a).1.ux = true ∧ (init isConn a).1.tls = true) ∧
      ((init isConn a).2.1 ≠ .ok → lu = .absent ∧ (lt = .absent ∨ ((pop a).1 ≠ .ok ∧ lt = .inited))) := by
  unfold init createSub
  rcases hp : pop a with ⟨x, r⟩
  rcases hq : pop r with ⟨y, r2⟩
  cases x <;> cases y <;> simp [hq, ledger, lrun, lstep, List.foldlM]
  all_goals exact ⟨_, _, ⟨rfl, rfl⟩, rfl, by simp⟩

/-- **utls_connect**: for every pair of answers of the two sub-socket connects, the contract is kept; on success exactly
the connected sub-socket is live and the other is gone, on failure nothing is held and both pointers are cleared -/
theorem C08_utls_connect_balanced (a : List Ans) :
    ∃ lu lt, ledger .inited .inited (connect both a).2.2.1 = some (lu, lt) ∧
      ((connect both a).2.1 = .ok →
         ((connect both a).1.ux = true ∧ (connect both a).1.tls = false ∧ lu = .live ∧ lt = .absent) ∨
         ((connect both a).1.ux = false ∧ (connect both a).1.tls = true ∧ lu = .absent ∧ lt = .live)) ∧
      ((connect both a).2.1 ≠ .ok → lu = .absent ∧ lt = .absent ∧ (connect both a).1.ux = false ∧ (connect both a).1.tls = false) := by
  unfold connect
  rcases hp : pop a with ⟨x, r⟩
  rcases hq : pop r with ⟨y, r2⟩
  cases x with
  | ok => simp [both, ledger, lrun, lstep, List.foldlM]
  | err e =>
    by_cases he : e = ECONNREFUSED
    · cases y <;> simp [he, hq, both, deinitCalls, ledger, lrun, lstep, List.foldlM]
    · simp [he, both, deinitCalls, ledger, lrun, lstep, List.foldlM]

/-- the TLS connection is attempted exactly when the UX connect answered ECONNREFUSED; any other failure of the UX
connect is the result of utls_connect, with its errno -/
theorem C13_utls_fallback_rule (a : List Ans) :
    (Call.connect .tls true ∈ (connect both a).2.2.1 ∨ Call.connect .tls false ∈ (connect both a).2.2.1) ↔
    (pop a).1 = .err ECONNREFUSED := by
  unfold connect
  rcases hp : pop a with ⟨x, r⟩
  rcases hq : pop r with ⟨y, r2⟩
  cases x with
  | ok => simp
  | err e =>
    by_cases he : e = ECONNREFUSED
    · cases y <;> simp [he, hq, both, deinitCalls]
    · simp [he, both, deinitCalls]

theorem C06_utls_connect_errno (a : List Ans) (e : Nat) (h : (pop a).1 = .err e) (he : e ≠ ECONNREFUSED) :
    (connect both a).2.1 = .err e := by
  unfold connect
  rcases hp : pop a with ⟨x, r⟩
  rw [hp] at h
  simp only at h
  subst h
  simp [he]

/-- **utls_connect with an address that does not parse**: both sub-sockets are closed and destroyed -/
theorem C08_utls_connect_badaddr_balanced :
    ledger .inited .inited (connectBadAddr both).2 = some (.absent, .absent) := by
  decide

/-- **utls_server** (fixed or kernel-allocated port): both sub-servers are live or nothing is held (F-08e) -/
theorem C08_utls_server_balanced (dyn : Bool) (a : List Ans) :
    let s0 : St := { isConn := false, ux := true, tls := true }
    ∃ lu lt, ledger .inited .inited (server s0 dyn a).2.2.1 = some (lu, lt) ∧
      ((server s0 dyn a).2.1 = .ok → lu = .live ∧ lt = .live ∧ (server s0 dyn a).1 = s0) ∧
      ((server s0 dyn a).2.1 ≠ .ok → lu = .absent ∧ lt = .absent ∧ (server s0 dyn a).1.ux = false ∧ (server s0 dyn a).1.tls = false) := by
  intro s0
  unfold server
  rcases hp : pop a with ⟨x, r⟩
  rcases hq : pop r with ⟨y, r2⟩
  cases x <;> cases y <;> cases dyn <;> simp [s0, hq, ledger, lrun, lstep, List.foldlM]

/-- **utls_accept**: UX is tried first, then TLS; the contract is kept for every pair of answers; on success exactly the
accepted sub-socket is live, on failure nothing is held -/
theorem C08_utls_accept_balanced (srvCond : Nat) (a : List Ans) :
    ∃ lu lt, ledger .inited .inited (accept both srvCond a).2.2.1 = some (lu, lt) ∧
      ((accept both srvCond a).2.1 = .ok →
         ((accept both srvCond a).1.ux = true ∧ (accept both srvCond a).1.tls = false ∧ lu = .live ∧ lt = .absent) ∨
         ((accept both srvCond a).1.ux = false ∧ (accept both srvCond a).1.tls = true ∧ lu = .absent ∧ lt = .live)) ∧
      ((accept both srvCond a).2.1 ≠ .ok → lu = .absent ∧ lt = .absent) := by
  unfold accept
  rcases hp : pop a with ⟨x, r⟩
  rcases hq : pop r with ⟨y, r2⟩
  cases x <;> cases y <;> simp [hq, both, deinitCalls, ledger, lrun, lstep, List.foldlM]

/-- **utls_close / utls_cleanup** of a connection (one live sub-socket) or a server (two): everything is released -/
theorem C08_utls_close_balanced (cleanup : Bool) :
    ledger .live .absent (close { isConn := true, ux := true, tls := false } cleanup).2 = some (.absent, .absent) ∧
    ledger .absent .live (close { isConn := true, ux := false, tls := true } cleanup).2 = some (.absent, .absent) ∧
    ledger .live .live (close { isConn := false, ux := true, tls := true } cleanup).2 = some (.absent, .absent) ∧
    ledger .inited .inited (close both cleanup).2 = some (.absent, .absent) := by
  cases cleanup <;> decide

/-! ### a connection is its one sub-socket -/

/-- every data-path call of a connection is one call of the same kind on the active sub-socket, and its answer is the
result: utls adds, drops, reorders and alters nothing (so C01/C02-style delivery, C03, C06 and the counters of C17 of a
utls connection are those of the UX or TLS connection underneath) -/
theorem C01_utls_pure_delegation (s : St) (a : List Ans) :
    send s a = ((pop a).1, [.send (active s)], (pop a).2) ∧
    receive s a = ((pop a).1, [.receive (active s)], (pop a).2) ∧
    (s.isConn = true → finish s a = ((pop a).1, [.finish (active s)], (pop a).2)) ∧
    getCnt s = [.getCnt (active s)] := by
  refine ⟨rfl, rfl, fun h => ?_, rfl⟩
  simp [finish, h]

/-- the active sub-socket is the one that is left -/
theorem utls_active_is_the_one_left (s : St) (h : okShape s) :
    (active s = .ux ↔ s.ux = true) ∧ (active s = .tls ↔ s.tls = true) := by
  rcases h with ⟨h1, h2⟩ | ⟨h1, h2⟩ <;> simp [active, h1, h2]

/-! ### the awaited condition reaches the sub-socket(s) that can make it true -/

/-- a connection passes its condition to the active sub-socket, a server to both sub-servers (a pending connection on
either makes the utls server socket's fd readable) -/
theorem C04_utls_condition_passed_down (s : St) (cond : Nat) :
    (s.isConn = true → update s cond = [.update (active s) cond]) ∧
    (s.isConn = false → update s cond = [.updateSrv .ux cond, .updateSrv .tls cond]) := by
  constructor <;> intro h <;> simp [update, h]

/-- a server's xcm_finish asks both sub-servers and reports the first failure -/
theorem C04_utls_server_finish (s : St) (a : List Ans) (h : s.isConn = false) :
    ((pop a).1 = .ok → finish s a = ((pop (pop a).2).1, [.finish .ux, .finish .tls], (pop (pop a).2).2)) ∧
    (∀ e, (pop a).1 = .err e → finish s a = (.err e, [.finish .ux], (pop a).2)) := by
  unfold finish
  rcases hp : pop a with ⟨x, r⟩
  cases x <;> simp [h]

/-- every accept attempt is followed by a re-evaluation of that server sub-socket's registrations with the condition
last passed down (so a second pending connection is not forgotten) -/
theorem C04_utls_accept_reevaluates_server (srvCond : Nat) (a : List Ans) :
    Call.updateSrv .ux srvCond ∈ (accept both srvCond a).2.2.1 ∧
    ((pop a).1 ≠ .ok → Call.updateSrv .tls srvCond ∈ (accept both srvCond a).2.2.1) := by
  unfold accept
  rcases hp : pop a with ⟨x, r⟩
  rcases hq : pop r with ⟨y, r2⟩
  cases x <;> cases y <;> simp [hq]

/-! non-vacuity: concrete ladders -/
example : (connect both [.err ECONNREFUSED, .ok]).2.1 = .ok ∧ (connect both [.err ECONNREFUSED, .ok]).1.tls = true := by decide
example : (connect both [.err 13]).2.1 = .err 13 := by decide
example : ledger .inited .inited (server { isConn := false, ux := true, tls := true } true [.ok, .err 98]).2.2.1 = some (.absent, .absent) := by decide
example : (init true [.ok, .err 24]).2.1 ≠ .ok ∧ ledger .absent .absent (init true [.ok, .err 24]).2.2.1 = some (.absent, .absent) := by decide
-- the ledger does reject a broken ladder: a live TLS sub-socket destroyed without close
example : ledger .inited .live [.destroy .tls] = none := by decide

end XcmModel.UtlsProps
