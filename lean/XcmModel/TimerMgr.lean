import XcmModel.Basic
/-
  Model of libxcm/core/timer_mgr.c: the per-socket timer manager behind tcp.connect_timeout, the Happy Eyeballs
  delay (tconnect.c) and dns.timeout (xcm_dns_cares.c).  One timerfd (absolute CLOCK_MONOTONIC time) serves any
  number of logical timers kept in a list (LIST_INSERT_HEAD: newest first).  After every change of the list
  `update_epoll` re-arms the timerfd at the smallest expiry time or disarms it.

  Time is a natural number of nanoseconds.  The C code computes in `double` seconds; the correspondence harness uses
  times that are multiples of 1/512 s, for which the double arithmetic of `timer_mgr_schedule` and
  `ut_f_to_timespec` is exact, so the model is exact on what is compared.  `int timer_id = next_timer_id()` narrows
  the 64-bit counter to int: the model's ids are unbounded (more than 2^31 timers on one socket are not modelled).
-/
namespace XcmModel.TimerMgr
open XcmModel

structure Timer where
  id : Nat
  expiry : Nat
  deriving DecidableEq, Repr

structure State where
  timers : List Timer := []          -- head = most recently scheduled
  nextId : Nat := 0
  armed : Option Nat := none         -- the timerfd's setting (absolute ns); none = disarmed
  deriving DecidableEq, Repr

/-- `arm_timer_fd`: an all-zero it_value would disarm, so "now or earlier" becomes 1 ns -/
def armValue (e : Nat) : Nat := if e = 0 then 1 else e

/-- the candidate loop of `update_epoll`: the first timer, replaced by any later one that is strictly earlier -/
def candidate (first : Nat) (rest : List Timer) : Nat :=
  rest.foldl (fun c m => if m.expiry < c then m.expiry else c) first

/-- `update_epoll` -/
def updateEpoll (s : State) : State :=
  match s.timers with
  | [] => { s with armed := none }
  | t :: ts => { s with armed := some (armValue (candidate t.expiry ts)) }

/-- `schedule_abs` -/
def scheduleAbs (s : State) (abs : Nat) : State × Nat :=
  let id := s.nextId
  (updateEpoll { s with timers := { id := id, expiry := abs } :: s.timers, nextId := s.nextId + 1 }, id)

/-- `timer_mgr_schedule(relative)` at time `now`; a negative relative time counts as 0 -/
def schedule (s : State) (now : Nat) (rel : Int) : State × Nat :=
  scheduleAbs s (now + rel.toNat)

/-- `find_mtimer`: the first list entry with this id (`timerId` is the caller's int64, -1 = invalid) -/
def find (s : State) (timerId : Int) : Option Timer :=
  s.timers.find? (fun t => (t.id : Int) == timerId)

/-- `LIST_REMOVE` of the entry found by `find_mtimer` -/
def removeFirst (ts : List Timer) (timerId : Int) : List Timer :=
  match ts with
  | [] => []
  | t :: r => if (t.id : Int) == timerId then r else t :: removeFirst r timerId

/-- `try_cancel` -/
def tryCancel (s : State) (timerId : Int) : State × Bool :=
  match find s timerId with
  | some _ => (updateEpoll { s with timers := removeFirst s.timers timerId }, true)
  | none => (s, false)

/-- `timer_mgr_cancel`: the caller's id variable becomes -1 whatever happened -/
def cancel (s : State) (timerId : Int) : State × Int :=
  ((tryCancel s timerId).1, -1)

/-- `timer_mgr_ack`: `assert(existed)` -/
def ack (s : State) (timerId : Int) : Outcome (State × Int) :=
  let (s', existed) := tryCancel s timerId
  if existed then .ok (s', -1) else .abort "timer_mgr_ack: assert(existed)"

/-- `timer_mgr_reschedule` -/
def reschedule (s : State) (now : Nat) (rel : Int) (timerId : Int) : State × Int :=
  let s1 := if timerId ≥ 0 then (cancel s timerId).1 else s
  let (s2, id) := schedule s1 now rel
  (s2, id)

/-- `timer_mgr_has_expired`: dereferences what `find_mtimer` returned -/
def hasExpired (s : State) (now : Nat) (timerId : Int) : Outcome Bool :=
  match find s timerId with
  | some t => .ok (decide (now > t.expiry))
  | none => .oob "timer_mgr_has_expired: mtimer == NULL"

/-- K-timerfd: an absolute timerfd is readable from its expiry until it is set again (the manager never reads it,
it re-arms or disarms it whenever the list changes) -/
def readable (s : State) (now : Nat) : Bool :=
  match s.armed with
  | some a => decide (a ≤ now)
  | none => false

/-! ### histories -/

inductive Op where
  | schedule (now : Nat) (rel : Int)
  | cancel (id : Int)
  | ack (id : Int)
  | reschedule (now : Nat) (rel : Int) (id : Int)
  deriving Repr

/-- one call; an `ack` of a timer that does not exist aborts the process: the history ends there (`none`) -/
def step (s : State) : Op → Option State
  | .schedule now rel => some (schedule s now rel).1
  | .cancel id => some (cancel s id).1
  | .ack id => match ack s id with | .ok r => some r.1 | _ => none
  | .reschedule now rel id => some (reschedule s now rel id).1

def run (s : State) : List Op → Option State
  | [] => some s
  | o :: os => match step s o with | some s' => run s' os | none => none

end XcmModel.TimerMgr
