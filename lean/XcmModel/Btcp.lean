import XcmModel.Basic
import XcmModel.Generated.Consts
/-
  Model of the connection part of libxcm/tp/tcp/xcm_tp_btcp.c: the `conn_state`
  machine, `btcp_send` / `btcp_receive` / `btcp_finish` and `conn_update`.

  Environment (the layer below): the kernel's answer to the single `send()` / `recv()` a
  call makes, and — while establishing — the answers of the resolver query and of
  `tconnect` (modelled in their own components).  All are inputs of the step functions, so
  the theorems quantify over every behaviour of the kernel.
-/
namespace XcmModel.Btcp
open XcmModel

inductive CState where
  | resolving
  | connecting
  | ready
  | closed
  | bad (e : Nat)
  /-- a DNS name given as local address (xcm.local_addr) is still being resolved; `remoteToo`: so is the remote name -/
  | resolvingLocal (remoteToo : Bool)
  deriving DecidableEq, Repr

/-- the four byte counters (`XCM_TP_NUM_BYTESTREAM_CNTS`) -/
structure Cnts where
  toApp : Nat := 0
  fromApp : Nat := 0
  toLower : Nat := 0
  fromLower : Nat := 0
  deriving DecidableEq, Repr

structure St where
  state : CState
  cnt : Cnts := {}
  /-- ghost: every byte handed to the kernel (i.e. accepted by `send()`), in order -/
  tx : Bytes := []
  /-- ghost: every byte obtained from the kernel by `recv()`, in order -/
  rxd : Bytes := []
  deriving DecidableEq, Repr

def EAGAIN := Generated.EAGAIN
def EPIPE := Generated.EPIPE

/-- answers of the establishment helpers, one per call that is made -/
inductive EstAns where
  | again              -- -1 / EAGAIN
  | fail (e : Nat)     -- -1 / e
  | ok
  deriving DecidableEq, Repr

/-- `try_establish`: consumes answers left to right: in `resolving` one for
`xcm_dns_query_result`, then (on success) one for `tconnect_connect` and one for
`tconnect_get_connected_fd`; in `connecting` one for `tconnect_get_connected_fd`.
A missing answer means EAGAIN. -/
def tryFinishConnect (ans : List EstAns) : CState × List EstAns :=
  match ans with
  | [] => (.connecting, [])
  | .again :: t => (.connecting, t)
  | .fail e :: t => (.bad e, t)
  | .ok :: t => (.ready, t)

/-- `begin_connect`: tconnect_connect, then try_finish_connect -/
def beginConnect (t : List EstAns) : CState × List EstAns :=
  match t with
  | [] => tryFinishConnect []          -- tconnect_connect defaults to success
  | .fail e :: t' => (.bad e, t')
  | _ :: t' => tryFinishConnect t'

/-- the remote name's query: its result, then (on success) begin_connect -/
def finishRemote (ans : List EstAns) : CState × List EstAns :=
  match ans with
  | [] => (.resolving, [])
  | .again :: t => (.resolving, t)
  | .fail e :: t => (.bad e, t)
  | .ok :: t => beginConnect t

def tryEstablish (st : CState) (ans : List EstAns) : CState × List EstAns :=
  match st with
  | .resolving => finishRemote ans
  | .resolvingLocal remoteToo =>
    -- the local name's query first; a failure of either query fails the connection; when it is done the remote
    -- query's result is looked at in the same call
    match ans with
    | [] => (.resolvingLocal remoteToo, [])
    | .again :: t => (.resolvingLocal remoteToo, t)
    | .fail e :: t => (.bad e, t)
    | .ok :: t => if remoteToo then finishRemote t else beginConnect t
  | .connecting => tryFinishConnect ans
  | s => (s, ans)

/-- the kernel's answer to `send(fd, buf, len)` -/
inductive KSend where
  | ok (k : Nat)       -- `max 1 (min k len)` bytes queued (0 when len = 0)
  | err (e : Nat)      -- -1/errno, nothing queued
  deriving DecidableEq, Repr

/-- the kernel's answer to `recv(fd, buf, cap)` -/
inductive KRecv where
  | data (bs : Bytes)  -- the first `min cap |bs|` bytes of `bs` are returned (|bs| ≥ 1)
  | eof
  | err (e : Nat)
  deriving DecidableEq, Repr

inductive Res where
  | n (k : Nat) (payload : Bytes)   -- rc ≥ 0 (payload only for receive)
  | err (e : Nat)
  deriving DecidableEq, Repr

/-- `btcp_send` after `try_establish` -/
def send (s : St) (buf : Bytes) (est : List EstAns) (k : KSend) : St × Res :=
  let st := (tryEstablish s.state est).1
  match st with
  | .bad e => ({ s with state := st }, .err e)
  | .closed => ({ s with state := st }, .err EPIPE)
  | .resolving => ({ s with state := st }, .err EAGAIN)
  | .resolvingLocal _ => ({ s with state := st }, .err EAGAIN)
  | .connecting => ({ s with state := st }, .err EAGAIN)
  | .ready =>
    match k with
    | .ok kk =>
      let n := if buf.length = 0 then 0 else max 1 (min kk buf.length)
      ({ s with state := .ready, tx := s.tx ++ buf.take n,
                cnt := { s.cnt with fromApp := s.cnt.fromApp + n, toLower := s.cnt.toLower + n } },
       .n n [])
    | .err e =>
      if e = EPIPE then ({ s with state := .closed }, .err e)
      else if e = EAGAIN then ({ s with state := .ready }, .err e)
      else ({ s with state := .bad e }, .err e)

/-- `btcp_receive` after `try_establish` -/
def receive (s : St) (cap : Nat) (est : List EstAns) (k : KRecv) : St × Res :=
  let st := (tryEstablish s.state est).1
  match st with
  | .bad e => ({ s with state := st }, .err e)
  | .closed => ({ s with state := st }, .n 0 [])
  | .resolving => ({ s with state := st }, .err EAGAIN)
  | .resolvingLocal _ => ({ s with state := st }, .err EAGAIN)
  | .connecting => ({ s with state := st }, .err EAGAIN)
  | .ready =>
    match k with
    | .data bs =>
      let got := bs.take cap
      if got.isEmpty then ({ s with state := .closed }, .n 0 [])      -- recv() returned 0
      else
        ({ s with state := .ready, rxd := s.rxd ++ got,
                  cnt := { s.cnt with fromLower := s.cnt.fromLower + got.length,
                                      toApp := s.cnt.toApp + got.length } },
         .n got.length got)
    | .eof => ({ s with state := .closed }, .n 0 [])
    | .err e =>
      if e = EAGAIN then ({ s with state := .ready }, .err e)
      else ({ s with state := .bad e }, .err e)

/-- `btcp_finish` (connection socket) -/
def finish (s : St) (est : List EstAns) : St × Res :=
  let st := (tryEstablish s.state est).1
  match st with
  | .bad e => ({ s with state := st }, .err e)
  | .closed => ({ s with state := st }, .err EPIPE)
  | .resolving => ({ s with state := st }, .err EAGAIN)
  | .resolvingLocal _ => ({ s with state := st }, .err EAGAIN)
  | .connecting => ({ s with state := st }, .err EAGAIN)
  | .ready => ({ s with state := st }, .n 0 [])

/-- `conn_update`: (bell rings?, events registered on the data fd — `none` = left alone) -/
def connUpdate (st : CState) (cond : Nat) (queryCompleted : Bool) : Bool × Option Nat :=
  match st with
  | .resolving => (queryCompleted, none)
  | .resolvingLocal _ => (queryCompleted, none)      -- `queryCompleted`: every pending query has completed
  | .connecting => (false, none)
  | .ready =>
    (false, some ((if cond &&& Generated.XCM_SO_SENDABLE ≠ 0 then 4 else 0) |||
                  (if cond &&& Generated.XCM_SO_RECEIVABLE ≠ 0 then 1 else 0)))
  | .closed => (true, none)
  | .bad _ => (true, none)

/-- `server_update`: events registered on the listening fd -/
def serverUpdate (cond : Nat) : Nat :=
  if cond &&& Generated.XCM_SO_ACCEPTABLE ≠ 0 then 1 else 0

end XcmModel.Btcp
