/-
  Basic vocabulary shared by all model components.  Core Lean only (no Mathlib):
  everything under `XcmModel/` that the driver imports must stay Mathlib-free so
  that the driver links as a native executable.
-/
namespace XcmModel

abbrev Bytes := List UInt8

/-- Outcome of a modelled C function.  `abort`/`oob` are *explicit* results for the
places where the C code would trip an assertion or index out of bounds, so that
safety theorems can say "unreachable" instead of the model being totalised. -/
inductive Outcome (α : Type) where
  | ok (v : α)
  | err (errno : Nat)
  | abort (site : String)
  | oob (site : String)
  deriving Repr, DecidableEq

namespace Hex

def digit (n : Nat) : Char :=
  if n < 10 then Char.ofNat (48 + n) else Char.ofNat (87 + n)

def ofByte (b : UInt8) : String :=
  String.ofList [digit (b.toNat / 16), digit (b.toNat % 16)]

def encode (bs : Bytes) : String :=
  if bs.isEmpty then "-" else String.join (bs.map ofByte)

def nib (c : Char) : Option Nat :=
  if '0' ≤ c ∧ c ≤ '9' then some (c.toNat - 48)
  else if 'a' ≤ c ∧ c ≤ 'f' then some (c.toNat - 87)
  else if 'A' ≤ c ∧ c ≤ 'F' then some (c.toNat - 55)
  else none

def decodeChars : List Char → Option Bytes
  | [] => some []
  | [_] => none
  | a :: b :: t => do
      let x ← nib a
      let y ← nib b
      let r ← decodeChars t
      pure (UInt8.ofNat (x * 16 + y) :: r)

/-- "-" is the empty string; otherwise pairs of hex digits. -/
def decode (s : String) : Option Bytes :=
  if s == "-" then some [] else decodeChars s.toList

end Hex

/-- FNV-1a 64 over a byte list, used to print long payloads compactly. -/
def fnv1a (bs : Bytes) : UInt64 :=
  bs.foldl (fun h b => (h ^^^ b.toUInt64) * 1099511628211) 14695981039346656037

def showBytes (bs : Bytes) : String :=
  if bs.length ≤ 48 then Hex.encode bs
  else s!"#{bs.length}:{fnv1a bs}"

end XcmModel
