import XcmModel.Basic
import XcmModel.Generated.Consts
/-
  Model of the loop of `xcm_dns_resolve_sync` (libxcm/tp/dns/xcm_dns_cares.c): poll the resolver's
  descriptors, process, ask for the result; repeat while the result is EAGAIN.

  Environment: per iteration the outcome of `poll()` and of `xcm_dns_query_result()`.
-/
namespace XcmModel.DnsSync
open XcmModel

inductive QAns where
  | pollFail (e : Nat)       -- poll() < 0
  | again                    -- query_rc < 0, errno == EAGAIN
  | fail (e : Nat)           -- query_rc < 0, another errno (ENOENT: no such name / timed out)
  | resolved                 -- query_rc == 1
  deriving DecidableEq, Repr

inductive Res where
  | ok                       -- returns 0, host->type = ip
  | err (e : Nat)            -- returns -1
  | waiting                  -- the answers given so far do not end the loop
  deriving DecidableEq, Repr

def EAGAIN := Generated.EAGAIN

/-- the `for (;;)` loop; also returns how many iterations ran -/
def loop : List QAns → Nat → Res × Nat
  | [], n => (.waiting, n)
  | .pollFail e :: _, n => (.err e, n + 1)
  | .resolved :: _, n => (.ok, n + 1)
  | .fail e :: t, n => if e = EAGAIN then loop t (n + 1) else (.err e, n + 1)
  | .again :: t, n => loop t (n + 1)

def resolveSync (hostIsIp : Bool) (answers : List QAns) : Res × Nat :=
  if hostIsIp then (.ok, 0) else loop answers 0

end XcmModel.DnsSync
