import XcmModel.Basic
import XcmModel.Generated.Consts
/-
  Model of the TLS context cache libxcm/tp/tls/ctx_store.c: `ctx_store_get_ctx` (hash the identity of the
  designated credentials, reuse a cached context with that hash, otherwise load the material, hash again and
  retry if anything changed meanwhile, build and install a context) and `ctx_store_put` (reference counting).

  The file system is the environment.  A *world* fixes, for every path and version, what is stored there
  (`stat` identity = version: K-stat, every rewrite/rename/re-link yields a new (dev, ino, size, mtime));
  a *snapshot* says which version each path currently has.  A call observes a sequence of snapshots, one
  per file-system access, so that files may change between any two accesses of the same call.
  The cache key is the list of item views (the decoded digest input, see CtxKey: unique decodability, and
  K-sha256: no collisions).
-/
namespace XcmModel.CtxStore
open XcmModel

abbrev Path := String
abbrev Mat := String

inductive Item where
  | none | file (p : Path) | value (m : Mat)
  deriving DecidableEq, Repr

inductive FileSt where
  | missing | reg (content : Mat) | lnk (target : Path)
  deriving DecidableEq, Repr

/-- what is stored at (path, version) -/
abbrev World := List ((Path × Nat) × FileSt)
/-- the current version of each path (0 = never existed) -/
abbrev Snap := List (Path × Nat)

def World.at (w : World) (p : Path) (v : Nat) : FileSt := (w.lookup (p, v)).getD .missing
def Snap.ver (s : Snap) (p : Path) : Nat := (s.lookup p).getD 0

/-- the identity of an item as hashed -/
inductive AView where
  | none | value (m : Mat) | file (p : Path) (ver : Nat) | link (p : Path) (lver : Nat) (t : Path) (tver : Nat)
  deriving DecidableEq, Repr

/-- `hash_item`: lstat, and stat through a symbolic link (one level; a link to a link or to nothing fails here) -/
def view (w : World) (s : Snap) : Item → Option AView
  | .none => some .none
  | .value m => some (.value m)
  | .file p =>
    match w.at p (s.ver p) with
    | .reg _ => some (.file p (s.ver p))
    | .lnk t =>
      match w.at t (s.ver t) with
      | .reg _ => some (.link p (s.ver p) t (s.ver t))
      | _ => none
    | .missing => none

/-- `item_load`: outer `none` = failure; `some none` = the item is not set -/
def load (w : World) (s : Snap) : Item → Option (Option Mat)
  | .none => some none
  | .value m => some (some m)
  | .file p =>
    match w.at p (s.ver p) with
    | .reg c => some (some c)
    | .lnk t =>
      match w.at t (s.ver t) with
      | .reg c => some (some c)
      | _ => none
    | .missing => none

/-- the material a view designates in the world -/
def designated (w : World) : AView → Option Mat
  | .none => none
  | .value m => some m
  | .file p v => match w.at p v with | .reg c => some c | _ => none
  | .link _ _ t tv => match w.at t tv with | .reg c => some c | _ => none

structure Entry where
  key : List AView
  ctx : Nat
  cnt : Nat
  mats : List (Option Mat)
  deriving DecidableEq, Repr

structure Store where
  entries : List Entry := []     -- most recently installed first
  next : Nat := 0                -- id of the next context to be created
  freed : List Nat := []         -- contexts released with SSL_CTX_free
  aborted : Bool := false
  deriving DecidableEq, Repr

/-- the snapshots a call will observe: one per access, the last one persists -/
structure Env where
  cur : Snap
  future : List Snap
  deriving Repr

def Env.tick (e : Env) : Env :=
  match e.future with
  | [] => e
  | s :: t => { cur := s, future := t }

/-- one access per item, in order -/
def hashCfg (w : World) : Env → List Item → Option (List AView) × Env
  | e, [] => (some [], e)
  | e, it :: t =>
    match view w e.cur it with
    | none => (none, e.tick)
    | some v =>
      match hashCfg w e.tick t with
      | (some vs, e') => (some (v :: vs), e')
      | (none, e') => (none, e')

def loadCfg (w : World) : Env → List Item → Option (List (Option Mat)) × Env
  | e, [] => (some [], e)
  | e, it :: t =>
    match load w e.cur it with
    | none => (none, e.tick)
    | some m =>
      match loadCfg w e.tick t with
      | (some ms, e') => (some (m :: ms), e')
      | (none, e') => (none, e')

inductive Res where
  | ctx (id : Nat) (created : Bool)
  | eproto
  | loadFailed
  | diverged           -- the files changed in every round (the model's fuel ran out)
  deriving DecidableEq, Repr

def findKey (k : List AView) : List Entry → Option Entry
  | [] => none
  | e :: t => if e.key = k then some e else findKey k t

def bump (k : List AView) : List Entry → List Entry
  | [] => []
  | e :: t => if e.key = k then { e with cnt := e.cnt + 1 } :: t else e :: bump k t

/-- `ctx_store_get_ctx`; `ok`: whether OpenSSL accepts the loaded material (parse, key matches certificate) -/
def get (w : World) (ok : List (Option Mat) → Bool) : Nat → Store → List Item → Env → Store × Res × Env
  | 0, st, _, e => (st, .diverged, e)
  | fuel + 1, st, cfg, e =>
    match hashCfg w e cfg with
    | (none, e1) => (st, .eproto, e1)
    | (some k, e1) =>
      match findKey k st.entries with
      | some en => ({ st with entries := bump k st.entries }, .ctx en.ctx false, e1)
      | none =>
        match loadCfg w e1 cfg with
        | (none, e2) => (st, .loadFailed, e2)
        | (some ms, e2) =>
          match hashCfg w e2 cfg with
          | (none, e3) => (st, .eproto, e3)
          | (some k2, e3) =>
            if k2 = k then
              if ok ms then
                ({ st with entries := { key := k2, ctx := st.next, cnt := 1, mats := ms } :: st.entries, next := st.next + 1 },
                 .ctx st.next true, e3)
              else (st, .eproto, e3)
            else get w ok fuel st cfg e3

def findCtx (c : Nat) : List Entry → Option Entry
  | [] => none
  | e :: t => if e.ctx = c then some e else findCtx c t

def dropRef (c : Nat) : List Entry → List Entry
  | [] => []
  | e :: t => if e.ctx = c then (if e.cnt ≤ 1 then t else { e with cnt := e.cnt - 1 } :: t) else e :: dropRef c t

/-- `ctx_store_put` -/
def put (st : Store) (c : Nat) : Store :=
  match findCtx c st.entries with
  | none => { st with aborted := true }              -- ut_assert(entry != NULL)
  | some e =>
    { st with entries := dropRef c st.entries, freed := if e.cnt ≤ 1 then c :: st.freed else st.freed }

end XcmModel.CtxStore
