import XcmModel.Basic
/-
  Model of the TLS policy handling of libxcm/tp/tls/xcm_tp_btls.c:
  * the per-socket configuration (`tls.auth`, `tls.check_crl`, `tls.check_time`, `tls.verify_peer_name`,
    `tls.peer_names`, `tls.client`, the credential items and their "explicitly set" marks), its inheritance by an
    accepted connection (`inherit_tls_conf`), attribute overrides, and `finalize_tls_conf` with its EINVAL cases and
    the default-file fallback;
  * the decision that OpenSSL is configured to take (`set_verify`, `enable_hostname_validation`,
    X509_V_FLAG_PARTIAL_CHAIN only without CRLs) about a peer's credentials, stated over abstract facts about those
    credentials (K-openssl-verify).
-/
namespace XcmModel.TlsPolicy
open XcmModel

/-- where an item comes from -/
inductive Src where
  | unset
  | given (id : String)        -- by attribute (file or value); `id` names the material
  | dflt                       -- the file in the XCM_TLS_CERT directory
  deriving DecidableEq, Repr

structure Conf where
  auth : Bool := true
  checkCrl : Bool := false
  checkTime : Bool := true
  verifyName : Bool := false
  tlsClient : Bool := true
  cert : Src := .unset
  key : Src := .unset
  tc : Src := .unset
  crl : Src := .unset
  tcSet : Bool := false        -- tls.tc / tls.tc_file was set on THIS socket
  crlSet : Bool := false
  names : Option (List String) := none
  namesSet : Bool := false
  deriving DecidableEq, Repr

/-- `btls_init` for a connection created by xcm_connect / a server socket -/
def initConn : Conf := { tlsClient := true }
def initServer : Conf := { tlsClient := false }

/-- `inherit_tls_conf`: items and switches are copied, the "explicitly set" marks are not -/
def inherit (p : Conf) : Conf :=
  { auth := p.auth, checkCrl := p.checkCrl, checkTime := p.checkTime, verifyName := p.verifyName, tlsClient := p.tlsClient,
    cert := p.cert, key := p.key, tc := p.tc, crl := p.crl, names := p.names }

inductive Attr where
  | auth (b : Bool) | checkCrl (b : Bool) | checkTime (b : Bool) | verifyName (b : Bool) | client (b : Bool)
  | cert (id : String) | key (id : String) | tc (id : String) | crl (id : String)
  | names (ns : List String)
  deriving DecidableEq, Repr

def setAttr (c : Conf) : Attr → Conf
  | .auth b => { c with auth := b }
  | .checkCrl b => { c with checkCrl := b }
  | .checkTime b => { c with checkTime := b }
  | .verifyName b => { c with verifyName := b }
  | .client b => { c with tlsClient := b }
  | .cert id => { c with cert := .given id }
  | .key id => { c with key := .given id }
  | .tc id => { c with tc := .given id, tcSet := true }
  | .crl id => { c with crl := .given id, crlSet := true }
  | .names ns => { c with names := if ns.isEmpty then none else some ns, namesSet := true }

def setAttrs (c : Conf) (as : List Attr) : Conf := as.foldl setAttr c

def isSet : Src → Bool
  | .unset => false
  | _ => true

def orDflt (s : Src) : Src := if isSet s then s else .dflt

/-- trusted CAs: set explicitly without authentication = EINVAL; inherited without authentication = dropped;
needed and not designated = the default file -/
def finTc (auth : Bool) (tc : Src) (tcSet : Bool) : Option Src :=
  if !auth && isSet tc then (if tcSet then none else some .unset)
  else some (if auth then orDflt tc else tc)

/-- CRLs: CRL checking without authentication = EINVAL; set explicitly without CRL checking = EINVAL; inherited
without CRL checking = dropped; needed and not designated = the default file -/
def finCrl (auth checkCrl : Bool) (crl : Src) (crlSet : Bool) : Option Src :=
  if !auth && checkCrl then none
  else if !checkCrl && isSet crl then (if crlSet then none else some .unset)
  else some (if checkCrl then orDflt crl else crl)

/-- expected peer names: set explicitly without name verification = EINVAL; inherited without it = dropped -/
def finNames (vn : Bool) (names : Option (List String)) (namesSet : Bool) : Option (Option (List String)) :=
  if !vn && names.isSome then (if namesSet then none else some none) else some names

/-- `finalize_tls_conf`: `none` = EINVAL -/
def finalize (c : Conf) : Option Conf :=
  match finTc c.auth c.tc c.tcSet, finCrl c.auth c.checkCrl c.crl c.crlSet, finNames c.verifyName c.names c.namesSet with
  | some tc, some crl, some names =>
    some { c with cert := orDflt c.cert, key := orDflt c.key, tc := tc, crl := crl, names := names }
  | _, _, _ => none

/-- the checks after `finalize_tls_conf` in connect / accept: `enable_hostname_validation` (EINVAL without
authentication or without any name; on connect a DNS name in the address supplies the name) -/
def hostnameOk (c : Conf) (addrName : Option String) : Option Conf :=
  if !c.verifyName then some c
  else
    let c1 := match c.names, addrName with
      | none, some n => { c with names := some [n] }
      | _, _ => c
    if !c1.auth then none
    else if c1.names.isNone then none
    else some c1

/-! ### what the configured verification decides -/

inductive Validity where
  | ok | expired | future
  deriving DecidableEq, Repr

/-- facts about the credentials a peer presents -/
structure Cred where
  root : String                      -- the self-signed CA the chain ends in
  inter : Option String := none      -- intermediate CA between leaf and root, if any
  sendsInter : Bool := false         -- the peer sends the intermediate along with its leaf
  leaf : String := ""                -- identifies the leaf certificate
  validity : Validity := .ok
  names : List String := []          -- subject CN and DNS subject alternative names
  eku : Option (List String) := none -- extended key usage, if the extension is present
  deriving DecidableEq, Repr

/-- facts about the material a side trusts -/
structure Trust where
  cas : List String := []            -- subjects of the certificates in tc
  crlsFor : List String := []        -- CAs for which a CRL is present
  revoked : List String := []        -- leaves / intermediates those CRLs revoke
  deriving DecidableEq, Repr

/-- does the peer's chain reach a trust anchor?  Without CRLs X509_V_FLAG_PARTIAL_CHAIN lets any certificate of
the chain found in tc end it; with CRLs only a self-signed root does -/
def chainTrusted (c : Conf) (t : Trust) (p : Cred) : Bool :=
  let interKnown := match p.inter with
    | none => true
    | some i => p.sendsInter || t.cas.contains i
  if c.checkCrl then interKnown && t.cas.contains p.root
  else
    t.cas.contains p.leaf ||
    (match p.inter with
     | none => t.cas.contains p.root
     | some i => interKnown && (t.cas.contains i || t.cas.contains p.root))

/-- X509_V_FLAG_CRL_CHECK|CRL_CHECK_ALL: a CRL of every issuer in the chain, nothing revoked -/
def crlOk (t : Trust) (p : Cred) : Bool :=
  match p.inter with
  | none => t.crlsFor.contains p.root && !t.revoked.contains p.leaf
  | some i => t.crlsFor.contains p.root && t.crlsFor.contains i && !t.revoked.contains p.leaf && !t.revoked.contains i

def ekuOk (c : Conf) (p : Cred) : Bool :=
  match p.eku with
  | none => true
  | some us => us.contains (if c.tlsClient then "serverAuth" else "clientAuth")

def nameOk (c : Conf) (p : Cred) : Bool :=
  if c.verifyName then
    match c.names with
    | some ns => ns.any (fun n => p.names.contains n)
    | none => false
  else true

/-- the side with finalized configuration `c` and trust material `t` accepts a peer presenting `p` -/
def accepts (c : Conf) (t : Trust) (p : Cred) : Bool :=
  if !c.auth then true
  else
    chainTrusted c t p && (if c.checkTime then p.validity == .ok else true) &&
    (if c.checkCrl then crlOk t p else true) && ekuOk c p && nameOk c p

end XcmModel.TlsPolicy
