import XcmModel.Basic
import XcmModel.Generated.Consts
/-
  Model of libxcm/core/xpoll.c: one epoll instance per XCM socket (its fd is what `xcm_fd` returns),
  registrations of kernel descriptors with an event mask, and *bells* - software-only wake-up
  sources that make the epoll fd readable by watching an always-readable eventfd (the "active fd",
  obtained from the shared pool of active_fd.c).

  `kernel` is the epoll interest list as `epoll_ctl` leaves it; readability of the epoll fd is
  K-epoll (level-triggered): some entry's event is currently true.
-/
namespace XcmModel.Xpoll
open XcmModel

def EPOLLIN : Nat := 1

/-- the always-readable eventfd handed out by active_fd_get is descriptor `ACTIVE` in the model -/
def ACTIVE : Nat := 1000000

structure X where
  slots : List (Option (Nat × Nat)) := []   -- fd_regs[]: (fd, event); `none` = free (fd == -1)
  numRegs : Nat := 0
  bells : List (Option Bool) := []          -- bell_regs[]: `none` = free, `some ringing`
  numBells : Nat := 0
  active : Option Nat := none               -- active_fd_reg_id (the active fd is held iff this is some)
  kernel : List (Nat × Nat) := []           -- epoll interest list (fd, events), events ≠ 0
  aborted : Bool := false                   -- an ut_assert / ut_fatal would have fired
  deriving DecidableEq, Repr

def nextCapacity (c : Nat) : Nat := (c + 1) * 2

def findFree {α : Type} : List (Option α) → Nat → Option Nat
  | [], _ => none
  | none :: _, i => some i
  | some _ :: t, i => findFree t (i + 1)

def setAt {α : Type} (l : List α) (i : Nat) (a : α) : List α := l.set i a

/-- `reg_epoll_mod`: ADD / MOD / DEL on the kernel table -/
def epollMod (k : List (Nat × Nat)) (fd old new : Nat) : List (Nat × Nat) :=
  if old = new then k
  else if old = 0 then k ++ [(fd, new)]
  else if new ≠ 0 then k.map (fun e => if e.1 = fd then (fd, new) else e)
  else k.filter (fun e => e.1 ≠ fd)

def hasFd (x : X) (fd : Nat) : Bool := x.slots.any (fun s => match s with | some (f, _) => f == fd | none => false)

/-- `xpoll_fd_reg_mod` (= `reg_epoll_mod` on a live registration) -/
def fdRegMod (x : X) (idx ev : Nat) : X :=
  match x.slots[idx]? with
  | some (some (fd, old)) => { x with slots := setAt x.slots idx (some (fd, ev)), kernel := epollMod x.kernel fd old ev }
  | _ => { x with aborted := true }

/-- `allocate_fd_reg_idx` + initialisation of the new registration with event 0 -/
def allocSlot (x : X) (fd : Nat) : X × Nat :=
  -- the code tests `num_fd_regs == fd_regs_capacity`; under its own bookkeeping that is "no free slot"
  match findFree x.slots 0 with
  | some idx => ({ x with slots := setAt x.slots idx (some (fd, 0)), numRegs := x.numRegs + 1 }, idx)
  | none =>
    let ext := x.slots ++ List.replicate (nextCapacity x.slots.length - x.slots.length) none
    ({ x with slots := setAt ext x.slots.length (some (fd, 0)), numRegs := x.numRegs + 1 }, x.slots.length)

/-- `xpoll_fd_reg_add`: returns the registration id -/
def fdRegAdd (x : X) (fd ev : Nat) : X × Nat :=
  if hasFd x fd then ({ x with aborted := true }, 0)
  else
    let r := allocSlot x fd
    (fdRegMod r.1 r.2 ev, r.2)

/-- `deallocate_fd_reg_idx` -/
def clearSlot (x : X) (idx : Nat) : X := { x with slots := setAt x.slots idx none, numRegs := x.numRegs - 1 }

/-- `xpoll_fd_reg_del` -/
def fdRegDel (x : X) (idx : Nat) : X :=
  match x.slots[idx]? with
  | some (some _) => clearSlot (fdRegMod x idx 0) idx
  | _ => { x with aborted := true }

def anyRinging (x : X) : Bool := x.bells.any (fun b => b == some true)

/-- `update_active_fd` -/
def updateActive (x : X) : X :=
  let x1 :=
    match x.active with
    | some reg => if x.numBells = 0 then { fdRegDel x reg with active := none } else x
    | none => if x.numBells > 0 then let (x', reg) := fdRegAdd x ACTIVE 0; { x' with active := some reg } else x
  match x1.active with
  | some reg => fdRegMod x1 reg (if anyRinging x1 then EPOLLIN else 0)
  | none => x1

/-- `xpoll_bell_reg_add` -/
def bellAdd (x : X) (ringing : Bool) : X × Nat :=
  match findFree x.bells 0 with
  | some idx => (updateActive { x with bells := setAt x.bells idx (some ringing), numBells := x.numBells + 1 }, idx)
  | none =>
    let ext := x.bells ++ List.replicate (nextCapacity x.bells.length - x.bells.length) none
    (updateActive { x with bells := setAt ext x.bells.length (some ringing), numBells := x.numBells + 1 }, x.bells.length)

/-- `xpoll_bell_reg_mod` -/
def bellMod (x : X) (idx : Nat) (ringing : Bool) : X :=
  match x.bells[idx]? with
  | some (some old) => if old = ringing then x else updateActive { x with bells := setAt x.bells idx (some ringing) }
  | _ => { x with aborted := true }

/-- `xpoll_bell_reg_del` -/
def bellDel (x : X) (idx : Nat) : X :=
  match x.bells[idx]? with
  | some (some _) => updateActive { x with bells := setAt x.bells idx none, numBells := x.numBells - 1 }
  | _ => { x with aborted := true }

inductive Op where
  | fdAdd (fd ev : Nat)
  | fdMod (idx ev : Nat)
  | fdDel (idx : Nat)
  | bellAdd (r : Bool)
  | bellMod (idx : Nat) (r : Bool)
  | bellDel (idx : Nat)
  deriving DecidableEq, Repr

def step (x : X) : Op → X
  | .fdAdd fd ev => (fdRegAdd x fd ev).1
  | .fdMod i ev => fdRegMod x i ev
  | .fdDel i => fdRegDel x i
  | .bellAdd r => (bellAdd x r).1
  | .bellMod i r => bellMod x i r
  | .bellDel i => bellDel x i

def run (ops : List Op) : X := ops.foldl step {}

/-- K-epoll: the epoll fd is readable iff some interest-list entry's event is currently true;
`ready fd events` is the kernel's view of the user descriptors, the active eventfd is always readable -/
def readable (x : X) (ready : Nat → Nat → Bool) : Bool :=
  x.kernel.any (fun e => if e.1 = ACTIVE then e.2 &&& EPOLLIN ≠ 0 else ready e.1 e.2)

/-! ### the shared pool of always-readable descriptors (active_fd.c) -/

structure Pool where
  fds : List (Nat × Nat) := []      -- (fd, cnt), most recently created first
  next : Nat := 0                   -- next eventfd number
  deriving DecidableEq, Repr

/-- `active_fd_get` -/
def poolGet (p : Pool) : Pool × Nat :=
  match p.fds.findIdx? (fun e => e.2 < Generated.MAX_USERS_PER_FD) with
  | some i =>
    let e := (p.fds[i]?).getD (0, 0)
    ({ p with fds := p.fds.set i (e.1, e.2 + 1) }, e.1)
  | none => ({ fds := (p.next, 1) :: p.fds, next := p.next + 1 }, p.next)

/-- `active_fd_put` (false = the assertion for an unknown fd) -/
def poolPut (p : Pool) (fd : Nat) : Pool × Bool :=
  match p.fds.findIdx? (fun e => e.1 = fd) with
  | some i =>
    let e := (p.fds[i]?).getD (0, 0)
    if e.2 = 1 then ({ p with fds := p.fds.eraseIdx i }, true)
    else ({ p with fds := p.fds.set i (e.1, e.2 - 1) }, true)
  | none => (p, false)

end XcmModel.Xpoll
