import XcmModel.Basic
import XcmModel.Generated.Consts
/-
  Model of the connection part of libxcm/tp/tls/xcm_tp_btls.c: the TLS state machine
  (handshaking / ready / closed / bad), `process_ssl_event`, `try_finish_tls_handshake` with
  `verify_peer_cert`, `btls_send`, `btls_receive`, `btls_finish` and the `conn_update` decision.

  OpenSSL is the environment.  What `SSL_connect/SSL_accept/SSL_write/SSL_read` + `SSL_get_error`
  answer is an input of each step (so theorems quantify over everything OpenSSL may report); what the
  certificate verification *decides* is an oracle value (`CertRes`) - XCM's job, and the theorems', is
  what is done with that verdict.
-/
namespace XcmModel.Btls
open XcmModel

inductive CState where
  | handshaking | ready | closed | bad (e : Nat)
  deriving DecidableEq, Repr

/-- the non-success outcomes of an OpenSSL call as classified by `SSL_get_error` -/
inductive SslEv where
  | wantRead
  | wantWrite
  | zeroReturn
  | sslErr                                  -- SSL_ERROR_SSL
  | syscall (errno : Nat) (queued : Bool)   -- SSL_ERROR_SYSCALL; `queued`: ERR_peek_error() != 0
  deriving DecidableEq, Repr

/-- verdict on the peer's certificate: presented or not, and `SSL_get_verify_result` -/
inductive CertRes where
  | none | ok | rejected
  deriving DecidableEq, Repr

inductive HAns where
  | done (cert : CertRes)        -- SSL_connect/SSL_accept returned 1
  | ev (e : SslEv)
  deriving DecidableEq, Repr

inductive WAns where
  | n (k : Nat)                  -- SSL_write returned min (max k 1) len > 0
  | zero                         -- returned 0
  | ev (e : SslEv)
  deriving DecidableEq, Repr

inductive RAns where
  | data (bs : Bytes)            -- SSL_read returned min |bs| capacity > 0 bytes
  | ev (e : SslEv)
  deriving DecidableEq, Repr

structure Cnts where
  toApp : Nat := 0
  fromApp : Nat := 0
  toLower : Nat := 0
  fromLower : Nat := 0
  deriving DecidableEq, Repr

def RECEIVABLE := Generated.XCM_SO_RECEIVABLE
def SENDABLE := Generated.XCM_SO_SENDABLE
def EPROTO := Generated.EPROTO
def EPIPE := Generated.EPIPE
def EAGAIN := Generated.EAGAIN
def EINPROGRESS := Generated.EINPROGRESS

structure St where
  state : CState := .handshaking
  auth : Bool := true            -- tls.auth
  sslCondition : Nat := 0
  sslWants : Nat := 0
  cnt : Cnts := {}
  aborted : Bool := false        -- an ut_assert would have fired
  -- ghost
  handshakeDone : Bool := false  -- SSL_connect/SSL_accept has returned 1
  verdict : CertRes := .none     -- what the verification said at that moment
  written : Bytes := []          -- plaintext accepted by SSL_write
  delivered : Bytes := []        -- plaintext returned to the application
  deriving DecidableEq, Repr

/-- `process_ssl_event` -/
def processSslEvent (s : St) (cond : Nat) (e : SslEv) : St :=
  match e with
  | .wantRead => { s with sslCondition := cond, sslWants := RECEIVABLE }
  | .wantWrite => { s with sslCondition := cond, sslWants := SENDABLE }
  | .zeroReturn => { s with state := .closed }
  | .sslErr => { s with state := .bad EPROTO }
  | .syscall errno queued =>
    if queued then { s with state := .bad EPROTO }
    else if errno = EAGAIN then { s with aborted := true }
    else if errno = EINPROGRESS then { s with sslWants := RECEIVABLE }
    else if errno = EPIPE ∨ errno = 0 then { s with state := .closed }
    else { s with state := .bad errno }

/-- `try_finish_tls_handshake`; consumes the handshake answer only while handshaking -/
def tryFinishHandshake (s : St) (h : HAns) : St :=
  if s.state ≠ .handshaking then s
  else
    let s0 := { s with sslCondition := 0, sslWants := 0 }
    match h with
    | .ev e => processSslEvent s0 0 e
    | .done cert =>
      let s1 := { s0 with state := .ready, handshakeDone := true, verdict := cert }
      if s.auth then
        match cert with
        | .ok => s1
        | _ => { s1 with state := .bad EPROTO }     -- verify_peer_cert: no certificate, or not X509_V_OK
      else s1

inductive Res where
  | n (k : Nat) (payload : Bytes)
  | err (e : Nat)
  deriving DecidableEq, Repr

def errOf (s : St) : Option Res :=
  match s.state with
  | .bad e => some (.err e)
  | .closed => some (.err EPIPE)
  | _ => none

/-- `btls_send` -/
def send (s : St) (buf : Bytes) (h : HAns) (w : WAns) : St × Res × Bool :=   -- Bool: SSL_write was called
  -- a failed handshake discovered by this very call is reported by it (checks follow the handshake step)
  let s1 := tryFinishHandshake s h
  match s1.state with
  | .bad e => (s1, .err e, false)
  | .closed => (s1, .err EPIPE, false)
  | .handshaking => (s1, .err EAGAIN, false)
  | .ready =>
    if buf.length = 0 then (s1, .n 0 [], false)
    else
      let s2 := { s1 with sslCondition := 0, sslWants := 0 }
      match w with
      | .n k =>
        let rc := max 1 (min k buf.length)
        ({ s2 with cnt := { s2.cnt with fromApp := s2.cnt.fromApp + rc, toLower := s2.cnt.toLower + rc },
                   written := s2.written ++ buf.take rc }, .n rc [], true)
      | .zero => ({ s2 with state := .closed }, .err EPIPE, true)
      | .ev e =>
        let s3 := processSslEvent s2 SENDABLE e
        match s3.state with
        | .closed => (s3, .err EPIPE, true)
        | .bad e' => (s3, .err e', true)
        | _ => (s3, .err EAGAIN, true)

/-- `btls_receive` -/
def receive (s : St) (cap : Nat) (h : HAns) (r : RAns) : St × Res × Bool :=
  let s1 := tryFinishHandshake s h
  match s1.state with
  | .bad e => (s1, .err e, false)
  | .closed => (s1, .n 0 [], false)
  | .handshaking => (s1, .err EAGAIN, false)
  | .ready =>
    let s2 := { s1 with sslCondition := 0, sslWants := 0 }
    match r with
    | .data bs =>
      let got := bs.take cap
      if got.isEmpty then
        -- rc <= 0 cannot come with data; treated as a protocol error by the harness alphabet (never generated)
        (s2, .err EAGAIN, true)
      else
        ({ s2 with cnt := { s2.cnt with fromLower := s2.cnt.fromLower + got.length, toApp := s2.cnt.toApp + got.length },
                   delivered := s2.delivered ++ got }, .n got.length got, true)
    | .ev e =>
      let s3 := processSslEvent s2 RECEIVABLE e
      match s3.state with
      | .closed => (s3, .n 0 [], true)
      | .bad e' => (s3, .err e', true)
      | _ => (s3, .err EAGAIN, true)

/-- `btls_finish` (connection socket); `lower`: the answer of the btcp socket's finish -/
def finish (s : St) (h : HAns) (lower : Option Nat) : St × Res :=
  let s1 := tryFinishHandshake s h
  match s1.state with
  | .handshaking => (s1, .err EAGAIN)
  | .ready => (s1, match lower with | none => .n 0 [] | some e => .err e)
  | .bad e => (s1, .err e)
  | .closed => (s1, .err EPIPE)

/-- `conn_update`: (bell rings, condition stored in the btcp socket, lower update called, assertion) -/
def connUpdate (s : St) (cond : Nat) (hasPending : Bool) : Bool × Nat × Bool × Bool :=
  match s.state with
  | .handshaking => if s.sslWants = 0 then (false, 0, false, true) else (false, s.sslWants, true, false)
  | .closed => (true, 0, false, false)
  | .bad _ => (true, 0, false, false)
  | .ready =>
    if cond = 0 then (false, 0, true, false)
    else if cond &&& RECEIVABLE ≠ 0 ∧ hasPending then (true, 0, false, false)
    else if s.sslCondition = 0 then (true, 0, false, false)
    else if cond = s.sslCondition then (false, s.sslWants, true, false)
    else if cond = (SENDABLE ||| RECEIVABLE) then
      if hasPending then (true, 0, false, false)
      else if s.sslCondition = SENDABLE then
        if s.sslWants = RECEIVABLE then (false, RECEIVABLE, true, false)
        else if s.sslWants = SENDABLE then (false, SENDABLE ||| RECEIVABLE, true, false)
        else (false, 0, true, false)
      else (false, SENDABLE ||| RECEIVABLE, true, false)
    else (true, 0, false, false)

end XcmModel.Btls
