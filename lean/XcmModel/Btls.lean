import XcmModel.Basic
import XcmModel.Generated.Consts
/-
  Model of the connection part of libxcm/tp/tls/xcm_tp_btls.c: the TLS state machine
  (handshaking / ready / closed / bad), `process_ssl_event`, `try_finish_tls_handshake` with
  `verify_peer_cert`, `btls_send`, `btls_receive`, `btls_finish` and the `conn_update` decision.

  OpenSSL is the environment.  What `SSL_connect/SSL_accept/SSL_write/SSL_read` + `SSL_get_error`
  answer is an input of each step (so theorems quantify over everything OpenSSL may report); what the
  certificate verification *decides* is an oracle value (`CertRes`) - XCM's job, and the theorems', is
  what is done with that verdict.
-/
namespace XcmModel.Btls
open XcmModel

inductive CState where
  | handshaking | ready | closed | bad (e : Nat)
  deriving DecidableEq, Repr

/-- the non-success outcomes of an OpenSSL call as classified by `SSL_get_error` -/
inductive SslEv where
  | wantRead
  | wantWrite
  | zeroReturn
  | sslErr                                  -- SSL_ERROR_SSL
  | syscall (errno : Nat) (queued : Bool)   -- SSL_ERROR_SYSCALL; `queued`: ERR_peek_error() != 0
  deriving DecidableEq, Repr

/-- verdict on the peer's certificate: presented or not, and `SSL_get_verify_result` -/
inductive CertRes where
  | none | ok | rejected
  deriving DecidableEq, Repr

inductive HAns where
  | done (cert : CertRes)        -- SSL_connect/SSL_accept returned 1
  | ev (e : SslEv)
  deriving DecidableEq, Repr

inductive WAns where
  | n (k : Nat)                  -- SSL_write returned min (max k 1) len > 0
  | zero                         -- returned 0
  | ev (e : SslEv)
  deriving DecidableEq, Repr

inductive RAns where
  | data (bs : Bytes)            -- SSL_read returned min |bs| capacity > 0 bytes
  | ev (e : SslEv)
  deriving DecidableEq, Repr

structure Cnts where
  toApp : Nat := 0
  fromApp : Nat := 0
  toLower : Nat := 0
  fromLower : Nat := 0
  deriving DecidableEq, Repr

def RECEIVABLE := Generated.XCM_SO_RECEIVABLE
def SENDABLE := Generated.XCM_SO_SENDABLE
def EPROTO := Generated.EPROTO
def EPIPE := Generated.EPIPE
def EAGAIN := Generated.EAGAIN
def EINPROGRESS := Generated.EINPROGRESS

structure St where
  state : CState := .handshaking
  auth : Bool := true            -- tls.auth
  sslCondition : Nat := 0
  sslWants : Nat := 0
  cnt : Cnts := {}
  aborted : Bool := false        -- an ut_assert would have fired
  -- ghost
  handshakeDone : Bool := false  -- SSL_connect/SSL_accept has returned 1
  verdict : CertRes := .none     -- what the verification said at that moment
  written : Bytes := []          -- plaintext accepted by SSL_write
  delivered : Bytes := []        -- plaintext returned to the application
  -- the retained part of a send that SSL_write could not complete (OpenSSL may have consumed it already and wants
  -- the very same bytes again): accepted by XCM, re-offered before anything else
  pend : Bytes := []
  pendWants : Nat := 0
  accepted : Bytes := []         -- ghost: every byte xcm_send reported as accepted
  deriving DecidableEq, Repr

/-- `process_ssl_event` -/
def processSslEvent (s : St) (cond : Nat) (e : SslEv) : St :=
  match e with
  | .wantRead => { s with sslCondition := cond, sslWants := RECEIVABLE }
  | .wantWrite => { s with sslCondition := cond, sslWants := SENDABLE }
  | .zeroReturn => { s with state := .closed }
  | .sslErr => { s with state := .bad EPROTO }
  | .syscall errno queued =>
    if queued then { s with state := .bad EPROTO }
    else if errno = EAGAIN then { s with aborted := true }
    else if errno = EINPROGRESS then { s with sslWants := RECEIVABLE }
    else if errno = EPIPE ∨ errno = 0 then { s with state := .closed }
    else { s with state := .bad errno }

/-- `try_finish_tls_handshake`; consumes the handshake answer only while handshaking -/
def tryFinishHandshake (s : St) (h : HAns) : St :=
  if s.state ≠ .handshaking then s
  else
    let s0 := { s with sslCondition := 0, sslWants := 0 }
    match h with
    | .ev e => processSslEvent s0 0 e
    | .done cert =>
      let s1 := { s0 with state := .ready, handshakeDone := true, verdict := cert }
      if s.auth then
        match cert with
        | .ok => s1
        | _ => { s1 with state := .bad EPROTO }     -- verify_peer_cert: no certificate, or not X509_V_OK
      else s1

inductive Res where
  | n (k : Nat) (payload : Bytes)
  | err (e : Nat)
  deriving DecidableEq, Repr

def errOf (s : St) : Option Res :=
  match s.state with
  | .bad e => some (.err e)
  | .closed => some (.err EPIPE)
  | _ => none

def MAX_PENDING : Nat := Generated.MAX_PENDING_WRITE

def nextW : List WAns → WAns × List WAns
  | [] => (.n 1000000000, [])
  | a :: t => (a, t)

/-- `rc` of the retained bytes were taken by SSL_write -/
def flushStep (s : St) (rc : Nat) : St :=
  { s with sslCondition := 0, sslWants := 0, written := s.written ++ s.pend.take rc, pend := s.pend.drop rc,
           cnt := { s.cnt with toLower := s.cnt.toLower + rc } }

/-- `try_flush_pending_write`: re-offers the retained bytes until they are gone or SSL_write cannot complete.
Returns the state, `none` when nothing is pending any more (else the error to report), the unused answers and the
number of SSL_write calls made. -/
def flushPending : Nat → St → List WAns → St × Option Res × List WAns × Nat
  | 0, s, ws => (s, none, ws, 0)
  | fuel + 1, s, ws =>
    if s.pend.isEmpty then (s, none, ws, 0)
    else
      let (w, rest) := nextW ws
      let s0 := { s with sslCondition := 0, sslWants := 0 }
      match w with
      | .n k =>
        let s1 := flushStep s (max 1 (min k s.pend.length))
        let (s2, r, rest2, n) := flushPending fuel s1 rest
        (s2, r, rest2, n + 1)
      | .zero => ({ s0 with state := .closed }, some (.err EPIPE), rest, 1)
      | .ev e =>
        let s1 := processSslEvent s0 SENDABLE e
        match s1.state with
        | .closed => (s1, some (.err EPIPE), rest, 1)
        | .bad e' => (s1, some (.err e'), rest, 1)
        | _ => ({ s1 with pendWants := s1.sslWants }, some (.err EAGAIN), rest, 1)

/-- `btls_send`; answers: one per SSL_write call made (flush attempts first, then the call for this buffer).
The Nat is the number of SSL_write calls. -/
def send (s : St) (buf : Bytes) (h : HAns) (ws : List WAns) : St × Res × Nat :=
  let s1 := tryFinishHandshake s h
  match s1.state with
  | .bad e => (s1, .err e, 0)
  | .closed => (s1, .err EPIPE, 0)
  | .handshaking => (s1, .err EAGAIN, 0)
  | .ready =>
    if buf.length = 0 then (s1, .n 0 [], 0)
    else
      let (sf, fr, rest, nf) := flushPending (s1.pend.length + 1) s1 ws
      match fr with
      | some r => (sf, r, nf)
      | none =>
        let s2 := { sf with sslCondition := 0, sslWants := 0 }
        let (w, _) := nextW rest
        match w with
        | .n k =>
          let rc := max 1 (min k buf.length)
          ({ s2 with cnt := { s2.cnt with fromApp := s2.cnt.fromApp + rc, toLower := s2.cnt.toLower + rc },
                     written := s2.written ++ buf.take rc, accepted := s2.accepted ++ buf.take rc }, .n rc [], nf + 1)
        | .zero => ({ s2 with state := .closed }, .err EPIPE, nf + 1)
        | .ev e =>
          let s3 := processSslEvent s2 SENDABLE e
          match s3.state with
          | .closed => (s3, .err EPIPE, nf + 1)
          | .bad e' => (s3, .err e', nf + 1)
          | _ =>
            -- SSL_write could not complete: XCM takes over (up to) a record's worth of the buffer
            let acc := min buf.length MAX_PENDING
            ({ s3 with pend := buf.take acc, pendWants := s3.sslWants, accepted := s3.accepted ++ buf.take acc,
                       cnt := { s3.cnt with fromApp := s3.cnt.fromApp + acc } }, .n acc [], nf + 1)

/-- the SSL_read part of `btls_receive` (connection ready) -/
def readStep (sf : St) (cap : Nat) (r : RAns) : St × Res :=
  let s2 := { sf with sslCondition := 0, sslWants := 0 }
  match r with
  | .data bs =>
    let got := bs.take cap
    if got.isEmpty then
      -- rc <= 0 cannot come with data; treated as a protocol error by the harness alphabet (never generated)
      (s2, .err EAGAIN)
    else
      ({ s2 with cnt := { s2.cnt with fromLower := s2.cnt.fromLower + got.length, toApp := s2.cnt.toApp + got.length },
                 delivered := s2.delivered ++ got }, .n got.length got)
  | .ev e =>
    let s3 := processSslEvent s2 RECEIVABLE e
    match s3.state with
    | .closed => (s3, .n 0 [])
    | .bad e' => (s3, .err e')
    | _ => (s3, .err EAGAIN)

/-- `btls_receive`: retained output is flushed first (an application that only receives must not leave it behind);
a flush that cannot complete does not stop the read, a flush that ends the connection does.
Result: (state, result, SSL_read called, number of SSL_write calls) -/
def receive (s : St) (cap : Nat) (h : HAns) (ws : List WAns) (r : RAns) : St × Res × Bool × Nat :=
  let s1 := tryFinishHandshake s h
  match s1.state with
  | .bad e => (s1, .err e, false, 0)
  | .closed => (s1, .n 0 [], false, 0)
  | .handshaking => (s1, .err EAGAIN, false, 0)
  | .ready =>
    let (sf, _, _, nf) := flushPending (s1.pend.length + 1) s1 ws
    match sf.state with
    | .bad e => (sf, .err e, false, nf)
    | .closed => (sf, .n 0 [], false, nf)
    | _ => ((readStep sf cap r).1, (readStep sf cap r).2, true, nf)

/-- `btls_finish` (connection socket); `lower`: the answer of the btcp socket's finish -/
def finish (s : St) (h : HAns) (ws : List WAns) (lower : Option Nat) : St × Res × Nat :=
  let s1 := tryFinishHandshake s h
  match s1.state with
  | .handshaking => (s1, .err EAGAIN, 0)
  | .ready =>
    let (sf, fr, _, nf) := flushPending (s1.pend.length + 1) s1 ws
    match fr with
    | some r => (sf, r, nf)
    | none => (sf, (match lower with | none => .n 0 [] | some e => .err e), nf)
  | .bad e => (s1, .err e, 0)
  | .closed => (s1, .err EPIPE, 0)

/-- `conn_update`: (bell rings, condition stored in the btcp socket, lower update called, assertion) -/
def connUpdateCore (s : St) (cond : Nat) (hasPending : Bool) : Bool × Nat × Bool × Bool :=
  match s.state with
  | .handshaking => if s.sslWants = 0 then (false, 0, false, true) else (false, s.sslWants, true, false)
  | .closed => (true, 0, false, false)
  | .bad _ => (true, 0, false, false)
  | .ready =>
    if cond = 0 then (false, 0, true, false)
    else if cond &&& RECEIVABLE ≠ 0 ∧ hasPending then (true, 0, false, false)
    else if s.sslCondition = 0 then (true, 0, false, false)
    else if cond = s.sslCondition then (false, s.sslWants, true, false)
    else if cond = (SENDABLE ||| RECEIVABLE) then
      if hasPending then (true, 0, false, false)
      else if s.sslCondition = SENDABLE then
        if s.sslWants = RECEIVABLE then (false, RECEIVABLE, true, false)
        else if s.sslWants = SENDABLE then (false, SENDABLE ||| RECEIVABLE, true, false)
        else (false, 0, true, false)
      else (false, SENDABLE ||| RECEIVABLE, true, false)
    else (true, 0, false, false)

/-- retained output is flushed regardless of what the application awaits: the TCP socket below is also watched for
what the last flush attempt needed -/
def connUpdate (s : St) (cond : Nat) (hasPending : Bool) : Bool × Nat × Bool × Bool :=
  let r := connUpdateCore s cond hasPending
  if s.state = .ready ∧ ¬ s.pend.isEmpty then
    (r.1, r.2.1 ||| (if s.pendWants ≠ 0 then s.pendWants else SENDABLE), r.2.2.1, r.2.2.2)
  else r

end XcmModel.Btls
