import XcmModel.Basic
import XcmModel.Generated.Consts
import XcmModel.Generated.Attrs
/-
  Model of the attribute access path: xcm.c (`xcm_attr_get`, the typed and formatted variants,
  `xcm_attr_set`), attr_tree.c (`attr_tree_get_value`, `attr_tree_set_value`), attr_node.c
  (`attr_node_value_get`, where the size of fixed-size types is checked against the caller's
  capacity) and the bounded-copy idioms of the getters (one *kind* per row of the generated
  attribute table).

  A value is abstracted to its size in bytes (`strlen + 1` for strings); what is modelled is how
  many bytes of the caller's buffer are written and what is returned.
-/
namespace XcmModel.AttrAccess
open XcmModel Generated


/-- `sizeof` of the fixed-size value types -/
def fixedSize : AType → Option Nat
  | .bool => some 1
  | .int64 => some 8
  | .double => some 8
  | _ => none

/-- outcome of a get: return code (`inl errno` = -1) and the number of bytes written to the
caller's buffer (a prefix of it) -/
inductive GRes where
  | ok (n : Nat)
  | error (e : Nat)
  deriving DecidableEq, Repr

structure GetOut where
  res : GRes
  written : Nat
  deriving DecidableEq, Repr

/-- what the attribute's getter function does when the current value has `size` bytes.
`avail = some size` : there is a value; `avail = none e` is expressed by `getterErr`. -/
def runGetter (k : GKind) (size cap : Nat) : GetOut :=
  match k with
  | .strChecked | .binChecked => if size > cap then ⟨.error EOVERFLOW, 0⟩ else ⟨.ok size, size⟩
  | .fixedChecked n => if cap < n then ⟨.error EOVERFLOW, 0⟩ else ⟨.ok n, n⟩
  | .fixedUnchecked n => ⟨.ok n, n⟩            -- copies n bytes whatever the capacity
  | .delegate => if size > cap then ⟨.error EOVERFLOW, 0⟩ else ⟨.ok size, size⟩
  | .none => ⟨.error EACCES, 0⟩
  | .unknown => ⟨.ok size, size⟩                -- an unrecognised getter is assumed to copy blindly

/-- `attr_node_value_get`: fixed-size types are refused when the buffer is smaller than the type,
before the getter runs -/
def nodeGet (t : AType) (k : GKind) (size cap : Nat) : GetOut :=
  match fixedSize t with
  | some n => if cap < n then ⟨.error EOVERFLOW, 0⟩ else runGetter k size cap
  | none => runGetter k size cap

/-- result of looking a name up in the socket's attribute tree -/
inductive Lookup where
  | badSyntax                       -- attr_path_parse failed
  | notFound
  | notValue                        -- a list or dictionary node
  | value (t : AType) (k : GKind) (writable : Bool) (cur : GRes)
      -- `cur`: size of the current value, or the errno the getter reports (e.g. ENOENT for ipv6.scope on IPv4)
  deriving Repr

/-- `attr_tree_get_value` (= `xcm_attr_get`); also yields the reported type -/
def treeGet (l : Lookup) (cap : Nat) : GetOut × Option AType :=
  match l with
  | .badSyntax => (⟨.error EINVAL, 0⟩, none)
  | .notFound => (⟨.error ENOENT, 0⟩, none)
  | .notValue => (⟨.error EACCES, 0⟩, none)
  | .value t k _ cur =>
    match cur with
    | .error e =>
      -- the type-size check of attr_node_value_get precedes the getter
      (match fixedSize t with
       | some n => if cap < n then ⟨.error EOVERFLOW, 0⟩ else ⟨.error e, 0⟩
       | none => ⟨.error e, 0⟩, some t)
    | .ok size => (nodeGet t k size cap, some t)

/-- `attr_get_with_type` (xcm_attr_get_bool/int64/double, all xcm_attr_getf_<type>) -/
def getWithType (l : Lookup) (req : AType) (cap : Nat) : GetOut :=
  let (o, t) := treeGet l cap
  match o.res with
  | .error e => ⟨.error (if e = EOVERFLOW then ENOENT else e), o.written⟩
  | .ok n => if t = some req then ⟨.ok n, o.written⟩ else ⟨.error ENOENT, o.written⟩

/-- `xcm_attr_get_str` / `xcm_attr_get_bin` -/
def getStrBin (l : Lookup) (req : AType) (cap : Nat) : GetOut :=
  let (o, t) := treeGet l cap
  match o.res with
  | .error e => ⟨.error e, o.written⟩
  | .ok n => if t = some req then ⟨.ok n, o.written⟩ else ⟨.error ENOENT, o.written⟩

/-- `valid_set_attr_len` -/
def validSetLen (t : AType) (len : Nat) : Bool :=
  match t with
  | .bool => len == 1
  | .int64 => len == 8
  | .double => len == 8
  | .str => len > 0
  | .bin => true
  | .unknown => false

inductive SetOut where
  | rejected (e : Nat)       -- refused by the generic layer: the setter is not invoked
  | invoke                   -- all generic checks passed: the attribute's setter decides
  deriving DecidableEq, Repr

/-- `attr_tree_set_value` (= `xcm_attr_set`): the five checks that precede the setter, in order -/
def treeSet (l : Lookup) (t : AType) (len : Nat) : SetOut :=
  if !validSetLen t len then .rejected EINVAL
  else match l with
    | .badSyntax => .rejected EINVAL
    | .notFound => .rejected ENOENT
    | .notValue => .rejected EACCES
    | .value vt _ writable _ =>
      if !writable then .rejected EACCES
      else if vt ≠ t then .rejected EINVAL
      else .invoke

/-- a table row is *safe* when its getter is one of the bounded idioms, and an unchecked
fixed-size copy has the size that `attr_node_value_get` guards for the row's type -/
def SafeRow (t : AType) (k : GKind) : Bool :=
  match k with
  | .strChecked => t == .str
  | .binChecked => t == .bin || t == .str
  | .fixedChecked n => fixedSize t == some n
  | .fixedUnchecked n => fixedSize t == some n
  | .delegate => true     -- utls proxies: forwards (value, capacity) to the row of the sub-socket
  | .none => true
  | .unknown => false

end XcmModel.AttrAccess
