import XcmModel.Basic
import XcmModel.Generated.Consts
/-
  Model of the dispatch layer libxcm/tp/common/xcm_tp.c: every socket operation goes through a wrapper
  that calls the transport's operation, then lets the control interface run at a bounded rate
  (`consider_ctl`), then - on sockets created with `auto_update` (all sockets the application sees) -
  re-evaluates what the socket's fd has to watch (`update`).  The transport is the environment: its
  answer is an input, the trace of calls made is the output.
-/
namespace XcmModel.Tp
open XcmModel

inductive Call where
  | connect | server | accept | send | receive | finish | update | updateServer | ctl | ctlCreate
  deriving DecidableEq, Repr

/-- the transport's answer, as the wrappers distinguish it -/
inductive Ans where
  | pos          -- rc > 0
  | zero         -- rc = 0
  | again        -- -1 / EAGAIN
  | fail         -- -1 / any other errno
  deriving DecidableEq, Repr

structure Sock where
  auto : Bool            -- auto_update
  autoCtl : Bool         -- auto_enable_ctl
  hasCtl : Bool := false
  skipped : Nat := 0
  deriving DecidableEq, Repr

/-- both regenerated from xcm_tp.c on every run -/
def MAX_SKIPPED : Nat := Generated.MAX_SKIPPED_CTL_CALLS
def MAX_WAKEUPS : Nat := Generated.MAX_WAKEUPS_PER_CTL_CHECK

/-- `consider_ctl` -/
def considerCtl (s : Sock) (perm temp : Bool) : Sock × List Call :=
  if !s.hasCtl then (s, [])
  else if perm then (s, [])
  else
    let k := if temp then s.skipped + MAX_SKIPPED / MAX_WAKEUPS else s.skipped + 1
    if k > MAX_SKIPPED then ({ s with skipped := 0 }, [.ctl]) else ({ s with skipped := k }, [])

def doCtl (s : Sock) : List Call := if s.hasCtl then [.ctl] else []

def autoUpdate (s : Sock) (srv : Bool := false) : List Call :=
  if s.auto then [if srv then .updateServer else .update] else []

def autoEnableCtl (s : Sock) : Sock × List Call :=
  if s.autoCtl then ({ s with hasCtl := true }, [.ctlCreate]) else (s, [])

def isFail : Ans → Bool
  | .again => true | .fail => true | _ => false

/-- `xcm_tp_socket_send` -/
def send (s : Sock) (a : Ans) : Sock × List Call :=
  let (s1, c) := considerCtl s (a == .fail) (a == .again)
  (s1, [.send] ++ c ++ autoUpdate s1)

/-- `xcm_tp_socket_receive` (a 0 return, end of stream, also counts as permanently failed) -/
def receive (s : Sock) (a : Ans) : Sock × List Call :=
  let (s1, c) := considerCtl s (a == .zero || a == .fail) (a == .again)
  (s1, [.receive] ++ c ++ autoUpdate s1)

/-- `xcm_tp_socket_finish` -/
def finish (s : Sock) (a : Ans) : Sock × List Call :=
  let (s1, c) := considerCtl s (a == .fail) (a == .again)
  (s1, [.finish] ++ c ++ autoUpdate s1)

/-- `xcm_tp_socket_connect` -/
def connect (s : Sock) (a : Ans) : Sock × List Call :=
  if isFail a then (s, doCtl s ++ [.connect])
  else
    let (s1, c) := autoEnableCtl s
    (s1, doCtl s ++ [.connect] ++ c ++ autoUpdate s1)

/-- `xcm_tp_socket_server` -/
def server (s : Sock) (a : Ans) : Sock × List Call :=
  if isFail a then (s, doCtl s ++ [.server])
  else
    let (s1, c) := autoEnableCtl s
    (s1, doCtl s ++ [.server] ++ c ++ autoUpdate s1 true)

/-- `xcm_tp_socket_accept conn server`: returns (conn', server', trace) -/
def accept (conn srv : Sock) (a : Ans) : Sock × Sock × List Call :=
  let (conn1, c1) := if isFail a then (conn, []) else
    let (x, c) := autoEnableCtl conn
    (x, c ++ autoUpdate x)
  let (srv1, c2) := considerCtl srv (a == .fail) (a == .again)
  (conn1, srv1, [.accept] ++ c1 ++ c2 ++ [.updateServer])

end XcmModel.Tp
