import XcmModel.AttrPath
/-
  Model of the attribute tree libxcm/core/attr_tree.c over attr_node.c: how value nodes and list nodes are added
  under paths (`attr_tree_add_value_node`, `attr_tree_add_list_node`, `ensure_containers`), how a parsed path is
  looked up (`node_lookup`), `attr_tree_get_list_len` and the enumeration order-free content of `attr_tree_get_all`.

  The C tree is nested (dict / list / value nodes).  The model is *flat*: the explicitly added nodes with their full
  paths, in insertion order; the containers in between are implied (a path is a container iff it is a proper prefix of
  an added path).  The correspondence harness (unit_attrtree) compares lookups of arbitrary paths, list lengths and
  the listed names of the real nested tree with this flat description.

  Precondition of an add, as the C code asserts it (the transports only make such calls): the path is not empty and
  starts with a key, no node exists at the path or below it or above it as a value, list elements are added in index
  order, and a prefix is used consistently as a dictionary or as a list (`WfAdd`).
-/
namespace XcmModel.AttrTree
open XcmModel XcmModel.AttrPath

inductive Node where
  | value (id : Nat) (readable : Bool)     -- a value node (`id` identifies the attribute)
  | list                                    -- an explicitly added, initially empty list node
  deriving DecidableEq, Repr

abbrev Tree := List (Path × Node)

inductive Found where
  | none
  | value (id : Nat) (readable : Bool)
  | dict
  | list (len : Nat)
  deriving DecidableEq, Repr

/-- the components that follow `p` in the added paths extending `p` properly -/
def nexts (t : Tree) (p : Path) : List Comp :=
  t.filterMap fun (q, _) => if p.length < q.length ∧ q.take p.length = p then q[p.length]? else none

/-- number of elements of the list at `p`: indices are added in order without holes, so it is the largest index + 1 -/
def listLen (cs : List Comp) : Nat :=
  cs.foldl (fun m c => match c with | .index i => max m (i + 1) | .key _ => m) 0

/-- `node_lookup` from the root -/
def lookup (t : Tree) (p : Path) : Found :=
  if p = [] then .dict else
  match t.find? (fun e => e.1 == p) with
  | some (_, .value id r) => .value id r
  | some (_, .list) => .list (listLen (nexts t p))
  | none =>
    match nexts t p with
    | [] => .none
    | .key _ :: _ => .dict
    | cs@(.index _ :: _) => .list (listLen cs)

/-- does the lookup of `p` walk only through containers of the right kind (a key into a dictionary, an index into a
list)?  In the nested tree a key component applied to a list node (or an index to a dictionary) finds nothing. -/
def kindsOk (t : Tree) : Path → Path → Bool
  | _, [] => true
  | pre, c :: rest =>
    (match lookup t pre, c with
     | .dict, .key _ => true
     | .list n, .index i => decide (i < n)
     | _, _ => false) && kindsOk t (pre ++ [c]) rest

/-- `node_lookup` as the C code walks it: component by component, each step checked against the container kind -/
def lookupWalk (t : Tree) (p : Path) : Found :=
  if kindsOk t [] p then lookup t p else .none

/-- `attr_tree_add_value_node` / `attr_tree_add_list_node` (under the precondition above) -/
def add (t : Tree) (p : Path) (n : Node) : Tree := t ++ [(p, n)]

/-- `attr_tree_get_list_len`: `inl errno` -/
def getListLen (t : Tree) (p : Path) : Option Nat :=
  match lookupWalk t p with
  | .list n => some n
  | _ => Option.none

/-- the value nodes `attr_tree_get_all` visits (readable ones), as (path, id) -/
def allValues (t : Tree) : List (Path × Nat) :=
  t.filterMap fun (p, n) => match n with | .value id true => some (p, id) | _ => Option.none

end XcmModel.AttrTree
