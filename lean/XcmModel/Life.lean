import XcmModel.Basic
import XcmModel.Generated.Consts
/-
  Model of the lifecycle ladders of libxcm/core/xcm.c: `xcm_connect_a`, `xcm_server_a`, `xcm_accept_a` (with its
  blocking-mode restart), `xcm_close`, `xcm_cleanup`.  Each ladder acquires, in order, the socket structure, the xpoll
  instance, the transport's initialised state and the transport's connection; every step can fail; the `goto` labels
  release what has been acquired.  The environment (xpoll_create, the transport operations, attribute setting, waiting)
  answers from a script.  Transport contract (xcm_tp.h): a failed init / connect / server / accept leaves the transport
  cleaned up, otherwise `close` (or `cleanup`) must be called exactly once.
-/
namespace XcmModel.Life
open XcmModel

inductive Ev where
  | sockAcq | sockRel | xpollAcq | xpollFail | xpollRel | initOk | initFail
  | connectOk | connectFail | serverOk | serverFail | acceptOk | acceptFail (e : Nat)
  | finishOk | finishFail | close | cleanup | wait
  deriving DecidableEq, Repr

/-- what is held process-wide -/
structure Ledger where
  sock : Nat := 0
  xpoll : Nat := 0
  tp : Nat := 0
  badRelease : Nat := 0
  deriving DecidableEq, Repr

def rel (n : Nat) (bad : Nat) : Nat × Nat := if n = 0 then (0, bad + 1) else (n - 1, bad)

def Ledger.apply (l : Ledger) : Ev → Ledger
  | .sockAcq => { l with sock := l.sock + 1 }
  | .sockRel => let r := rel l.sock l.badRelease; { l with sock := r.1, badRelease := r.2 }
  | .xpollAcq => { l with xpoll := l.xpoll + 1 }
  | .xpollRel => let r := rel l.xpoll l.badRelease; { l with xpoll := r.1, badRelease := r.2 }
  | .initOk => { l with tp := l.tp + 1 }
  -- a failed connect / server / accept has cleaned the transport up itself
  | .connectFail => { l with tp := l.tp - 1 }
  | .serverFail => { l with tp := l.tp - 1 }
  | .acceptFail _ => { l with tp := l.tp - 1 }
  | .close => let r := rel l.tp l.badRelease; { l with tp := r.1, badRelease := r.2 }
  | .cleanup => let r := rel l.tp l.badRelease; { l with tp := r.1, badRelease := r.2 }
  | _ => l

def Ledger.run (l : Ledger) (es : List Ev) : Ledger := es.foldl Ledger.apply l

/-- an answer of the environment: `none` = success, `some e` = failure with errno e -/
abbrev Ans := Option Nat

def nextAns : List Ans → Ans × List Ans
  | [] => (none, [])
  | a :: t => (a, t)

inductive Kind where
  | connect | server
  deriving DecidableEq, Repr

def ENOENT := Generated.ENOENT
def EAGAIN := Generated.EAGAIN

/-- `socket_finish` of a blocking socket: the transport's finish is repeated (after a wait) while it says EAGAIN -/
def finishLoop : Nat → List Ans → Option Nat × List Ev
  | 0, _ => (some EAGAIN, [])
  | fuel + 1, as =>
    match nextAns as with
    | (none, _) => (none, [.finishOk])
    | (some e, r) =>
      if e = EAGAIN then
        let (res, evs) := finishLoop fuel r
        (res, [.finishFail, .wait] ++ evs)
      else (some e, [.finishFail])

/-- `xcm_connect_a` / `xcm_server_a`: result errno (`none` = a socket is returned) and the events.  Answers are consumed by
xpoll_create, init, connect/server and - for a blocking connect - finish; `badAttr` makes the attribute step fail. -/
def create (k : Kind) (blocking badAttr : Bool) (as : List Ans) : Option Nat × List Ev :=
  let (a1, r1) := nextAns as
  match a1 with
  | some e => (some e, [.sockAcq, .xpollFail, .sockRel])                 -- socket_create
  | none =>
    let (a2, r2) := nextAns r1
    match a2 with
    | some e => (some e, [.sockAcq, .xpollAcq, .initFail, .sockRel, .xpollRel])             -- goto err_destroy
    | none =>
      if badAttr then (some ENOENT, [.sockAcq, .xpollAcq, .initOk, .close, .sockRel, .xpollRel])   -- goto err_close
      else
        let (a3, r3) := nextAns r2
        match a3 with
        | some e => (some e, [.sockAcq, .xpollAcq, .initOk, if k = .connect then .connectFail else .serverFail, .sockRel, .xpollRel])
        | none =>
          let okEv := if k = .connect then Ev.connectOk else Ev.serverOk
          if k = .connect && blocking then
            match finishLoop 64 r3 with
            | (some e, fe) => (some e, [.sockAcq, .xpollAcq, .initOk, okEv] ++ fe ++ [.close, .sockRel, .xpollRel])
            | (none, fe) => (none, [.sockAcq, .xpollAcq, .initOk, okEv] ++ fe)
          else (none, [.sockAcq, .xpollAcq, .initOk, okEv])

/-- `xcm_accept_a`; in blocking mode an EAGAIN from the transport's accept destroys the attempt and restarts -/
def accept (blocking badAttr : Bool) : Nat → List Ans → Option Nat × List Ev
  | 0, _ => (some EAGAIN, [])          -- the model's fuel: the environment answered EAGAIN for ever
  | fuel + 1, as =>
    let (a1, r1) := nextAns as
    match a1 with
    | some e => (some e, [.sockAcq, .xpollFail, .sockRel])
    | none =>
      let pre := if blocking then [Ev.sockAcq, .xpollAcq, .wait] else [Ev.sockAcq, .xpollAcq]
      let (a2, r2) := nextAns r1
      match a2 with
      | some e => (some e, pre ++ [.initFail, .sockRel, .xpollRel])
      | none =>
        if badAttr then (some ENOENT, pre ++ [.initOk, .close, .sockRel, .xpollRel])
        else
          let (a3, r3) := nextAns r2
          match a3 with
          | some e =>
            if blocking && e = EAGAIN then
              let (res, evs) := accept blocking badAttr fuel r3
              (res, pre ++ [.initOk, .acceptFail e, .sockRel, .xpollRel] ++ evs)
            else (some e, pre ++ [.initOk, .acceptFail e, .sockRel, .xpollRel])
          | none =>
            if blocking then
              match finishLoop 64 r3 with
              | (some e, fe) => (some e, pre ++ [.initOk, .acceptOk] ++ fe ++ [.close, .sockRel, .xpollRel])
              | (none, fe) => (none, pre ++ [.initOk, .acceptOk] ++ fe)
            else (none, pre ++ [.initOk, .acceptOk])

/-- `xcm_close` / `xcm_cleanup` -/
def closeEvs (cleanup : Bool) : List Ev := [if cleanup then .cleanup else .close, .sockRel, .xpollRel]

end XcmModel.Life
