import XcmModel.TimerMgr
import XcmModel.Generated.Consts
/-
  Model of the asynchronous resolver front end libxcm/tp/dns/xcm_dns_cares.c (`xcm_dns_resolve`,
  `xcm_dns_query_process`, `xcm_dns_query_result`, `update_xpoll`, `query_cb`) on top of the `TimerMgr` model
  (the query owns a timer manager with two timers: the overall deadline dns.timeout and c-ares' own next timeout).

  c-ares is the environment.  Per call the script says (1) whether and how the completion callback fires
  (`Cb`), (2) what `ares_getsock` reports (per slot: wants read / wants write), (3) what `ares_timeout` reports.
  Time is in nanoseconds as in `TimerMgr`.
-/
namespace XcmModel.DnsQuery
open XcmModel XcmModel.TimerMgr

def MAX_RESULT : Nat := Generated.XCM_DNS_MAX_RESULT_SIZE
def SEC : Nat := 1000000000
def DEFAULT_OVERALL_TIMEOUT : Nat := Generated.DNS_DEFAULT_OVERALL_TIMEOUT * SEC
def EPOLLIN : Nat := 1
def EPOLLOUT : Nat := 4

inductive QState where
  | inProgress | failed | successful
  deriving DecidableEq, Repr

/-- how c-ares invokes `query_cb` during one call into it -/
inductive Cb where
  | none
  | success (nodes : Nat)        -- ARES_SUCCESS with that many address nodes
  | fail                         -- any status but SUCCESS / ENOMEM / ECANCELLED / EDESTRUCTION
  | cancelled                    -- ARES_ECANCELLED / ARES_EDESTRUCTION: ignored
  deriving DecidableEq, Repr

structure State where
  st : QState := .inProgress
  tm : TimerMgr.State := {}
  aresTimer : Int := -1
  overallTimer : Int := -1
  regs : List (Nat × Nat) := []       -- channel descriptor registrations (slot, epoll events), in slot order
  ipsLen : Nat := 0
  deriving DecidableEq, Repr

/-- `query_cb` -/
def applyCb (s : State) : Cb → State
  | .none => s
  | .cancelled => s
  | .success n => { s with st := .successful, ipsLen := min n MAX_RESULT }
  | .fail => { s with st := .failed }

/-- the registrations `update_xpoll` makes from the `ares_getsock` answer -/
def regsOf (socks : List (Bool × Bool)) : List (Nat × Nat) :=
  (socks.zipIdx.filterMap fun ((r, w), i) =>
    let ev := (if r then EPOLLIN else 0) + (if w then EPOLLOUT else 0)
    if ev = 0 then none else some (i, ev))

/-- `update_xpoll` -/
def updateXpoll (s : State) (now : Nat) (socks : List (Bool × Bool)) (to : Option Nat) : State :=
  if s.st = .inProgress then
    let s1 := { s with regs := regsOf socks }
    match to with
    | some t => let (tm', id) := reschedule s1.tm now t s1.aresTimer; { s1 with tm := tm', aresTimer := id }
    | none => s1
  else
    let (tm', id) := reschedule s.tm now 0 s.aresTimer
    { s with regs := [], tm := tm', aresTimer := id }

/-- `xcm_dns_resolve` once the timer manager and the channel exist (`timeout` ≤ 0 selects the default);
`cb` is what `ares_getaddrinfo` does synchronously.  Also returns the `tries` option handed to c-ares. -/
def resolve (now : Nat) (timeout : Int) (cb : Cb) (socks : List (Bool × Bool)) (to : Option Nat) : State × Nat :=
  let t : Nat := if timeout ≤ 0 then DEFAULT_OVERALL_TIMEOUT else timeout.toNat
  let (tm, id) := schedule {} now t
  let s : State := { tm := tm, overallTimer := id }
  (updateXpoll (applyCb s cb) now socks to, t / SEC + 1)

/-- the first half of `process_in_progress`: c-ares' timer is cleared, c-ares runs (and may call back) -/
def mid (s : State) (cb : Cb) : State :=
  applyCb { s with tm := (cancel s.tm s.aresTimer).1, aresTimer := (cancel s.tm s.aresTimer).2 } cb

/-- the overall deadline has passed: the query fails and its timer is cancelled -/
def failNow (m : State) : State :=
  { m with st := .failed, tm := (cancel m.tm m.overallTimer).1, overallTimer := (cancel m.tm m.overallTimer).2 }

/-- `process_in_progress` -/
def processInProgress (s : State) (now : Nat) (cb : Cb) (socks : List (Bool × Bool)) (to : Option Nat) : Outcome State :=
  let m := mid s cb
  if m.st ≠ .successful then
    match hasExpired m.tm now m.overallTimer with
    | .ok true => .ok (updateXpoll (failNow m) now socks to)
    | .ok false => .ok (updateXpoll m now socks to)
    | .oob msg => .oob msg
    | .abort msg => .abort msg
    | .err e => .err e
  else .ok (updateXpoll m now socks to)

/-- `xcm_dns_query_process` -/
def process (s : State) (now : Nat) (cb : Cb) (socks : List (Bool × Bool)) (to : Option Nat) : Outcome State :=
  if s.st = .inProgress then processInProgress s now cb socks to else .ok s

def completed (s : State) : Bool := s.st ≠ .inProgress

/-- `xcm_dns_query_result`: `ok n` = n addresses copied; `ut_assert(len >= 1)` -/
def result (s : State) (cap : Nat) : Outcome Nat × State :=
  match s.st with
  | .inProgress => (.err Generated.EAGAIN, s)
  | .failed => (.err Generated.ENOENT, s)
  | .successful =>
    let len := min cap s.ipsLen
    if len ≥ 1 then (.ok len, { s with regs := [] }) else (.abort "xcm_dns_query_result: ut_assert(len >= 1)", s)

end XcmModel.DnsQuery
