import XcmModel.Basic
import XcmModel.Libc
import XcmModel.AttrMap
import XcmModel.AttrPath
import XcmModel.Addr
import XcmModel.Wire
import XcmModel.Framing
import XcmModel.Btcp
